#!/venv/bin/python
"""Fail-closed translator of the signal operations of eqsig/single.py (class Signal)  ->  coq/gen/Gen_c17.v      (property C17)

    Signal.butter_pass -> gen_butter_pass        Signal.add_constant -> gen_add_constant     Signal.add_series -> gen_add_series
    Signal.add_signal  -> gen_add_signal         Signal.running_average -> gen_running_average_at / gen_running_average

Every method becomes one Gallina definition (the loop of running_average: one more for its body), generic over `NumOps T`
(lib/Num.v), obtained by SYMBOLIC EXECUTION of the method body: temporaries are substituted into their uses (a renamed
temporary gives the same text), an `if` duplicates the statements that follow it into both branches, a `raise` ends a path
with the exception (class and message text are part of the generated term), `self.reset_values(e)` ends it with PyOk e.
coq/proofs/P_gen_c17.v proves each generated definition equal to the hand-written model of model/M_signalops.v for ALL
inputs, so a changed operand / index / sign / literal / comparison / message changes the generated term and breaks a proof
obligation of Prop_C17 on the next run.  Anything outside the shapes below raises `Unsupported` (= the tie is broken).

values      : Sc float scalar (T) | Z Python int | Qv the float quotient of two ints (exact rational) | Vec float array
              (list T; `fresh` = created by this function, so it may be written in place while no other name refers to it)
              | Bo bool | Str string literal | Opt value-or-None (option; `x is None` / `x is not None` / `isinstance(x, Signal)`
              become a Gallina `match`, and what a path knows about an Opt term decides later tests on the same term
              statically) | Cut the cut_off parameter (class tag `cls` + content `cut : list (option T)`) | OL np.array(cut_off)
expressions : names; `self.dt` -> dt, `self.values` -> a, `self.npts` -> the length of a (the accessors are checked to be the
              plain `return self._x` properties, reset_values to store `np.array(new_values)`);  `o.dt` / `o.values` of the other
              Signal once `isinstance(o, Signal)` is known;  int literals (Z; coerced with nofZ when combined with a float),
              float literals (exact decimal rational);  + - * / on floats;  + - * and `**` on ints;  int / int -> Qv;  Qv +- int;
              unary minus;  `len(v)`;  `int(q)` (truncation) and `int(np.ceil(np.log2(n)))` -> Z.log2_up n;
              comparisons < <= > >= == != of ints (Z), of an int with a Qv (Q), == of floats (neqb), == of a known string
              with a literal (String.eqb);  `and` / `or` / `not`;  `isinstance(cut_off, list | tuple | np.ndarray)`;
              `cut_off[k]` (k >= 0 literal; PARTIAL: a `match nth_error cut k` whose None branch is PyIndexError);
              `np.array(cut_off)`;  `np.array(v)` (a copy);  OL / float and Opt / float (PARTIAL: None / float is PyTypeError);
              vec + float, vec * float, vec / float, float * vec;  vec + vec (PARTIAL: NumPy broadcasting, np_add);
              `v[lo:hi]` with int bounds or none (py_slice: Python's index normalisation);  `np.mean(v)`;  `np.ones(n)`;
              `np.zeros(n, dtype=float)` (only as the output buffer of the loop);  `kwargs.get('<key>', <literal>)` for the keys
              listed in the spec;  `butter(order, wp, btype=s)` / `filtfilt(b, a, v)` -> the oracle FF order s wp v.
statements  : docstring; `pass`; `from scipy.signal import butter, filtfilt`; `name = e`; `b, a = butter(..)`;
              `v[lo:hi] = float | vec` on a fresh, unaliased array (py_set_slice_scalar / py_set_slice, the latter PARTIAL);
              `if` / `elif` / `else`;  `raise ValueError("..")` / `raise exceptions.SignalProcessingError("..")`;
              `self.reset_values(e)` and `self.<method>(e)` (inlined) as the last statement of a path;
              `for i in range(len(v)):` whose body stores exactly one float into `out[i]` on every path, `out` being the
              np.zeros buffer of that length (-> map body (py_range n));  `self._values = out; self.clear_cache()` at the end.
"""
import ast, copy, os, sys

HERE = os.path.dirname(os.path.abspath(__file__))
sys.path.insert(0, HERE)
import py2coq_numpy as base                                                   # noqa: E402
from py2coq_numpy import Unsupported, fail, literal, dotted, zlit             # noqa: E402
from py2coq_durations import builtin_untouched                                # noqa: E402

VERIF = os.path.dirname(HERE)
OUT = os.path.join(VERIF, 'coq', 'gen', 'Gen_c17.v')
SRC = 'eqsig/single.py'
CLASS = 'Signal'
X = base.LAMBDA_VAR

BUILTINS = ('isinstance', 'len', 'int', 'range', 'list', 'tuple', 'ValueError')
# names a method may not bind
RESERVED = set(BUILTINS) | {'np', 'numpy', 'exceptions', 'self', CLASS, 'butter', 'filtfilt'}
# binders of the generated definitions (never usable as bound variables)
BINDER_NAMES = {'FF', 'cls', 'cut', 'kw_filter_order', 'remove_gibbs', 'kw_gibbs_extra', 'kw_gibbs_range', 'dt', 'a', 'c',
                'series', 'other', 'w', 'i', X}

METHODS = [
    dict(name='butter_pass', gen='gen_butter_pass', params=[('cut_off', 'CUT')], kwargs=True,
         kw={'filter_order': ('Z', 'kw_filter_order'), 'remove_gibbs': ('OptStr', 'remove_gibbs'),
             'gibbs_extra': ('Z', 'kw_gibbs_extra'), 'gibbs_range': ('Z', 'kw_gibbs_range')},
         binders='(FF : Z -> string -> list T -> list T -> list T) (cls : pyclass) (cut : list (option T)) '
                 '(kw_filter_order : option Z) (remove_gibbs : option string) (kw_gibbs_extra kw_gibbs_range : option Z) '
                 '(dt : T) (a : list T)'),
    dict(name='add_constant', gen='gen_add_constant', params=[('constant', 'Sc', 'c')], binders='(c : T) (a : list T)'),
    dict(name='add_series', gen='gen_add_series', params=[('series', 'Vec', 'series')], binders='(series a : list T)'),
    dict(name='add_signal', gen='gen_add_signal', params=[('new_signal', 'Obj', 'other')],
         binders='(other : option (T * list T)) (dt : T) (a : list T)'),
    dict(name='running_average', gen='gen_running_average', params=[('width', 'Z', 'w')], binders='(w : Z) (a : list T)'),
]
BY_NAME = {m['name']: m for m in METHODS}

# accessors the readings `self.values`, `self.dt`, `self.npts`, `self.reset_values(e)` rely on: exact bodies
ACCESSORS = {
    'values': ('property', 'return self._values'),
    'dt': ('property', 'return self._dt'),
    'npts': ('property', 'return self._npts'),
    'reset_values': (None, 'self._values = np.array(new_values)\nself._npts = len(new_values)\nself.clear_cache()'),
}


# ---------------------------------------------------------------- values
class Sc:
    def __init__(self, term):
        self.term = term


class Z:
    def __init__(self, term, lit=None):
        self.term, self.lit = term, lit


class Qv:
    def __init__(self, term):
        self.term = term


class Vec:
    def __init__(self, term, fresh=False, buf=None):
        self.term, self.fresh, self.buf = term, fresh, buf      # buf = length term of an untouched np.zeros output buffer


class Bo:
    def __init__(self, term):
        self.term = term


class Str:
    def __init__(self, term):
        self.term = term


class Opt:
    """a Python value that may be None: Gallina option; inner = 'T' | 'str' | 'obj'"""
    def __init__(self, term, inner):
        self.term, self.inner = term, inner


class Cut:
    pass


class OL:
    def __init__(self, term):
        self.term = term


class SelfObj:
    pass


class Kw:
    pass


class Obj:
    """a Signal object (once isinstance is known): term : T * list T"""
    def __init__(self, term):
        self.term = term


class BA:
    """the (b, a) pair returned by butter(order, wp, btype=s)"""
    def __init__(self, order, wp, bt):
        self.order, self.wp, self.bt = order, wp, bt


class BAHalf:
    def __init__(self, ba, which):
        self.ba, self.which = ba, which


class PathRaises(Exception):
    def __init__(self, leaf):
        Exception.__init__(self, leaf)
        self.leaf = leaf


def par(t):
    """parenthesise a term unless it is atomic, a scoped numeral, or already one parenthesised group (with a scope delimiter)"""
    if t.replace('_', 'a').replace('.', 'a').isalnum():
        return t
    core = t[:-2] if t.endswith(('%Z', '%Q')) else t
    if core.isdigit():
        return t
    if core.startswith('(') and core.endswith(')'):
        depth = 0
        for k, ch in enumerate(core):
            depth += ch == '('
            depth -= ch == ')'
            if depth == 0 and k < len(core) - 1:
                break
        else:
            return t
    return '(%s)' % t


LET_MIN = 30          # a temporary whose term is longer than this becomes a `let` (canonical name), shorter ones are substituted


def zl(k):
    return '%d%%Z' % k if k >= 0 else '(%d)%%Z' % k


def coq_string(node, s):
    if not isinstance(s, str) or any(ord(ch) < 32 or ord(ch) > 126 or ch == '"' for ch in s):
        fail(node, 'string literal outside printable ASCII without double quotes')
    return '"%s"%%string' % s


def slice_of(node):
    sl = node.slice
    if isinstance(sl, ast.Index):      # python < 3.9
        sl = sl.value
    return sl


def copy_frame(fr):
    return {'env': dict(fr['env']), 'known': dict(fr['known']), 'local_imports': set(fr['local_imports']), 'depth': fr['depth']}


class Exec:
    def __init__(self, module, cls, spec):
        self.m, self.cls, self.spec = module, cls, spec
        self.pending = []           # (var, option term, leaf when None) of the expression being translated, evaluation order
        self.nvar = 0
        self.nlet = 0
        self.loop_defs = []         # (tree of the loop body)

    # ------------------------------------------------------------ helpers
    def fresh(self):
        self.nvar += 1
        v = 'k%d' % self.nvar
        if v in BINDER_NAMES:
            raise Unsupported('bound variable %s clashes with a binder' % v)
        return v

    def fresh_let(self):
        self.nlet += 1
        v = 't%d' % self.nlet
        if v in BINDER_NAMES:
            raise Unsupported('bound variable %s clashes with a binder' % v)
        return v

    def take_pending(self):
        p, self.pending = self.pending, []
        return p

    @staticmethod
    def wrap(binds, tree):
        for v, opt, leaf in reversed(binds):
            tree = ('matchopt', opt, v, tree, ('leaf', leaf))
        return tree

    def partial(self, fr, opt_term, none_leaf, node):
        """value of a partial reading: the variable bound in the Some branch (known on this path from now on)"""
        k = fr['known'].get(opt_term)
        if k is not None:
            if k[0] == 'some':
                return k[1]
            raise PathRaises(none_leaf)
        v = self.fresh()
        self.pending.append((v, opt_term, none_leaf))
        fr['known'][opt_term] = ('some', v)
        return v

    def need_np(self, node):
        if not self.m.np_ok:
            fail(node, 'np is not `import numpy as np`')

    # ------------------------------------------------------------ coercions
    def as_sc(self, v, fr, node):
        if isinstance(v, Sc):
            return v.term
        if isinstance(v, Z):
            return zlit(v.lit) if v.lit is not None else 'nofZ %s' % par(v.term)
        if isinstance(v, Opt) and v.inner == 'T':
            return self.partial(fr, v.term, 'PyTypeError', node)
        fail(node, 'a %s where a float is needed' % type(v).__name__)

    def as_q(self, v, node):
        if isinstance(v, Qv):
            return v.term
        if isinstance(v, Z):
            return 'inject_Z %s' % par(v.term)
        fail(node, 'a %s where an int or int quotient is needed' % type(v).__name__)

    # ------------------------------------------------------------ expressions
    def ev(self, e, fr):
        env = fr['env']
        if isinstance(e, ast.Constant):
            v = e.value
            if isinstance(v, bool):
                fail(e, 'boolean literal')
            if isinstance(v, int):
                if abs(v) > 10 ** 9:
                    fail(e, 'integer literal too large')
                return Z(zl(v), lit=v)
            if isinstance(v, float):
                return Sc(literal(e).term)
            if isinstance(v, str):
                return Str(coq_string(e, v))
            if v is None:
                return Opt('None', 'none')
            fail(e, 'literal %r' % (v,))
        if isinstance(e, ast.Name):
            if e.id in env:
                return env[e.id]
            fail(e, 'unknown name %s' % e.id)
        if isinstance(e, ast.Attribute):
            return self.attribute(e, fr)
        if isinstance(e, ast.UnaryOp):
            if isinstance(e.op, ast.USub):
                x = self.ev(e.operand, fr)
                if isinstance(x, Z):
                    if x.lit is not None:
                        return Z(zl(-x.lit), lit=-x.lit)
                    return Z('(- %s)%%Z' % par(x.term))
                if isinstance(x, Sc):
                    return Sc('- %s' % par(x.term))
                if isinstance(x, Qv):
                    return Qv('(- %s)%%Q' % par(x.term))
            fail(e, 'unary operator')
        if isinstance(e, ast.BinOp):
            return self.binop(e, fr)
        if isinstance(e, ast.Compare) or isinstance(e, ast.BoolOp):
            fail(e, 'a condition in expression position')
        if isinstance(e, ast.Subscript):
            return self.subscript(e, fr)
        if isinstance(e, ast.Call):
            return self.call(e, fr)
        fail(e, 'expression %s' % type(e).__name__)

    def attribute(self, e, fr):
        env = fr['env']
        if isinstance(e.value, ast.Name):
            b = env.get(e.value.id)
            if isinstance(b, SelfObj):
                if e.attr == 'dt':
                    return Sc('dt')
                if e.attr == 'values':
                    return Vec('a')
                if e.attr == 'npts':
                    return Z('Z.of_nat (length a)')
                fail(e, 'attribute self.%s' % e.attr)
            if isinstance(b, Opt) and b.inner == 'obj':
                k = fr['known'].get(b.term)
                if k is None or k[0] != 'some':
                    fail(e, 'attribute of %s where it is not known to be a %s' % (e.value.id, CLASS))
                if e.attr == 'dt':
                    return Sc('fst %s' % k[1])
                if e.attr == 'values':
                    return Vec('snd %s' % k[1])
                fail(e, 'attribute .%s of the other signal' % e.attr)
        fail(e, 'attribute %s' % (dotted(e) or '?'))

    def binop(self, e, fr):
        x, y = self.ev(e.left, fr), self.ev(e.right, fr)
        if isinstance(e.op, ast.Pow):
            if isinstance(x, Z) and isinstance(y, Z):
                return Z('(%s ^ %s)%%Z' % (par(x.term), par(y.term)))
            fail(e, 'power other than int ** int')
        ops = {ast.Add: '+', ast.Sub: '-', ast.Mult: '*', ast.Div: '/'}
        sym = ops.get(type(e.op))
        if sym is None:
            fail(e, 'binary operator %s' % type(e.op).__name__)
        # ints and int quotients
        if isinstance(x, Z) and isinstance(y, Z):
            if sym == '/':
                return Qv('(inject_Z %s / inject_Z %s)%%Q' % (par(x.term), par(y.term)))
            return Z('(%s %s %s)%%Z' % (par(x.term), sym, par(y.term)))
        if isinstance(x, (Z, Qv)) and isinstance(y, (Z, Qv)):
            return Qv('(%s %s %s)%%Q' % (par(self.as_q(x, e)), sym, par(self.as_q(y, e))))
        # arrays
        if isinstance(x, OL):
            if sym == '/' and isinstance(y, (Sc, Z)):
                d = self.as_sc(y, fr, e)
                v = self.partial(fr, 'opt_all %s' % par(x.term), 'PyTypeError', e)
                return Vec('map (fun %s => %s / %s) %s' % (X, X, par(d), v), fresh=True)
            fail(e, 'operation on the cut_off array other than division by a float')
        if isinstance(x, Vec) and isinstance(y, Vec):
            if sym != '+':
                fail(e, 'vector %s vector' % sym)
            v = self.partial(fr, 'np_add %s %s' % (par(x.term), par(y.term)), 'PyBroadcastError', e)
            return Vec(v, fresh=True)
        if isinstance(x, Vec):
            s = self.as_sc(y, fr, e)
            return Vec('map (fun %s => %s %s %s) %s' % (X, X, sym, par(s), par(x.term)), fresh=True)
        if isinstance(y, Vec):
            s = self.as_sc(x, fr, e)
            if sym == '*':
                return Vec('scale %s %s' % (par(s), par(y.term)), fresh=True)
            fail(e, 'float %s vector' % sym)
        # floats (left operand first: Python evaluation order of the partial readings)
        a = self.as_sc(x, fr, e)
        b = self.as_sc(y, fr, e)
        return Sc('%s %s %s' % (par(a), sym, par(b)))

    def bound(self, n, fr):
        """slice bound -> 'None' | '(Some z)'"""
        if n is None:
            return 'None'
        v = self.ev(n, fr)
        if not isinstance(v, Z):
            fail(n, 'slice bound that is not an int')
        return '(Some %s)' % par(v.term)

    def subscript(self, e, fr):
        x = self.ev(e.value, fr)
        sl = slice_of(e)
        if isinstance(x, Cut):
            if isinstance(sl, ast.Constant) and type(sl.value) is int and 0 <= sl.value <= 9:
                v = self.partial(fr, 'nth_error cut %d' % sl.value, 'PyIndexError', e)
                return Opt(v, 'T')
            fail(e, 'subscript of cut_off other than a small non-negative literal')
        if isinstance(x, Vec):
            if isinstance(sl, ast.Slice) and sl.step is None:
                return Vec('py_slice %s %s %s' % (self.bound(sl.lower, fr), self.bound(sl.upper, fr), par(x.term)))   # a view
            fail(e, 'subscript of a vector other than a slice [lo:hi]')
        fail(e, 'subscript of a %s' % type(x).__name__)

    def call(self, e, fr):
        env = fr['env']
        d = dotted(e.func)
        args, kws = e.args, {k.arg: k.value for k in e.keywords}
        if d is None or any(isinstance(a, ast.Starred) for a in args) or None in kws:
            fail(e, 'call form')
        if d in env and d not in ('butter', 'filtfilt'):
            fail(e, 'call of the local name %s' % d)
        if d == 'len':
            if len(args) != 1 or kws:
                fail(e, 'len arguments')
            x = self.ev(args[0], fr)
            if isinstance(x, Cut):
                return Z('Z.of_nat (length cut)')
            if isinstance(x, Vec):
                return Z('Z.of_nat (length %s)' % par(x.term))
            fail(e, 'len of a %s' % type(x).__name__)
        if d == 'int':
            if len(args) != 1 or kws:
                fail(e, 'int arguments')
            a0 = args[0]
            if (isinstance(a0, ast.Call) and dotted(a0.func) == 'np.ceil' and len(a0.args) == 1 and not a0.keywords
                    and isinstance(a0.args[0], ast.Call) and dotted(a0.args[0].func) == 'np.log2'
                    and len(a0.args[0].args) == 1 and not a0.args[0].keywords):
                self.need_np(e)
                n = self.ev(a0.args[0].args[0], fr)
                if not isinstance(n, Z):
                    fail(e, 'int(np.ceil(np.log2(.))) of a non-int')
                return Z('Z.log2_up %s' % par(n.term))
            x = self.ev(a0, fr)
            if isinstance(x, Z):
                return x
            if isinstance(x, Qv):
                return Z('py_int_Q %s' % par(x.term))
            fail(e, 'int of a %s' % type(x).__name__)
        if d == 'np.array':
            self.need_np(e)
            if len(args) != 1 or kws:
                fail(e, 'np.array arguments')
            x = self.ev(args[0], fr)
            if isinstance(x, Cut):
                return OL('cut')
            if isinstance(x, Vec):
                return Vec(x.term, fresh=True)               # a copy
            fail(e, 'np.array of a %s' % type(x).__name__)
        if d == 'np.mean':
            self.need_np(e)
            if len(args) != 1 or kws:
                fail(e, 'np.mean arguments')
            x = self.ev(args[0], fr)
            if not isinstance(x, Vec):
                fail(e, 'np.mean of a non-vector')
            return Sc('py_mean %s' % par(x.term))
        if d == 'np.ones':
            self.need_np(e)
            if len(args) != 1 or kws:
                fail(e, 'np.ones arguments')
            n = self.ev(args[0], fr)
            if not isinstance(n, Z):
                fail(e, 'np.ones of a non-int')
            return Vec('py_ones %s' % par(n.term), fresh=True)
        if d == 'np.zeros':
            self.need_np(e)
            if not (len(args) == 1 and set(kws) == {'dtype'} and isinstance(kws['dtype'], ast.Name) and kws['dtype'].id == 'float'
                    and 'float' not in env):
                fail(e, 'np.zeros other than np.zeros(n, dtype=float)')
            n = self.ev(args[0], fr)
            if not isinstance(n, Z):
                fail(e, 'np.zeros of a non-int')
            return Vec('py_zeros %s' % par(n.term), fresh=True, buf=n.term)
        if d == 'kwargs.get' or (isinstance(e.func, ast.Attribute) and isinstance(e.func.value, ast.Name)
                                 and isinstance(env.get(e.func.value.id), Kw) and e.func.attr == 'get'):
            if not isinstance(env.get(e.func.value.id), Kw):
                fail(e, 'kwargs is not the ** parameter')
            if len(args) != 2 or kws or not (isinstance(args[0], ast.Constant) and isinstance(args[0].value, str)):
                fail(e, 'kwargs.get other than kwargs.get("<key>", <default>)')
            key = args[0].value
            if key not in self.spec.get('kw', {}):
                fail(e, 'keyword %r is not an input of %s' % (key, self.spec['gen']))
            kind, binder = self.spec['kw'][key]
            dflt = args[1]
            if kind == 'Z':
                if not (isinstance(dflt, ast.Constant) and type(dflt.value) is int and abs(dflt.value) < 10 ** 9):
                    fail(e, 'default of %r is not an int literal' % key)
                return Z('kw_get %s %s' % (binder, zl(dflt.value)))
            if not (isinstance(dflt, ast.Constant) and dflt.value is None):
                fail(e, 'default of %r is not None' % key)     # absent and None coincide only then
            return Opt(binder, 'str')
        if d == 'butter':
            if 'butter' not in fr['local_imports']:
                fail(e, 'butter is not imported from scipy.signal')
            if len(args) != 2 or set(kws) != {'btype'}:
                fail(e, 'butter must be called as butter(order, wp, btype=..)')
            o = self.ev(args[0], fr)
            wp = self.ev(args[1], fr)
            bt = self.ev(kws['btype'], fr)
            if not isinstance(o, Z) or not isinstance(bt, Str):
                fail(e, 'butter operands')
            if isinstance(wp, Sc):
                wterm = '[%s]' % wp.term
            elif isinstance(wp, Vec):
                wterm = wp.term
            else:
                fail(e, 'butter cut-off of kind %s' % type(wp).__name__)
            return BA(o.term, wterm, bt.term)
        if d == 'filtfilt':
            if 'filtfilt' not in fr['local_imports']:
                fail(e, 'filtfilt is not imported from scipy.signal')
            if len(args) != 3 or kws:
                fail(e, 'filtfilt must be called as filtfilt(b, a, x)')
            b, a, x = [self.ev(t, fr) for t in args]
            if not (isinstance(b, BAHalf) and isinstance(a, BAHalf) and b.ba is a.ba and (b.which, a.which) == (0, 1)):
                fail(e, 'filtfilt is not given the (b, a) pair of one butter call, in this order')
            if not isinstance(x, Vec):
                fail(e, 'filtfilt of a non-vector')
            ba = b.ba
            return Vec('FF %s %s %s %s' % (par(ba.order), ba.bt, par(ba.wp), par(x.term)), fresh=True)
        fail(e, 'call of %s' % d)

    # ------------------------------------------------------------ conditions
    def pure_bool(self, t, fr):
        """boolean term of a test without None-tests, else None"""
        env = fr['env']
        if isinstance(t, ast.BoolOp):
            parts = [self.pure_bool(v, fr) for v in t.values]
            if any(p is None for p in parts):
                return None
            op = ' && ' if isinstance(t.op, ast.And) else ' || '
            return op.join('(%s)' % p for p in parts)
        if isinstance(t, ast.UnaryOp) and isinstance(t.op, ast.Not):
            p = self.pure_bool(t.operand, fr)
            return None if p is None else 'negb (%s)' % p
        if isinstance(t, ast.Call) and dotted(t.func) == 'isinstance' and 'isinstance' not in env:
            if len(t.args) != 2 or t.keywords:
                fail(t, 'isinstance arguments')
            x = self.ev(t.args[0], fr)
            if isinstance(x, Cut):
                d = dotted(t.args[1])
                if d == 'np.ndarray':
                    self.need_np(t)
                tag = {'list': 'PList', 'tuple': 'PTuple', 'np.ndarray': 'PNdarray'}.get(d)
                if tag is None or d in env:
                    fail(t, 'isinstance(cut_off, %s)' % d)
                return 'pyclass_eqb cls %s' % tag
            return None
        if isinstance(t, ast.Compare):
            if len(t.ops) != 1:
                fail(t, 'chained comparison')
            if isinstance(t.ops[0], (ast.Is, ast.IsNot)):
                return None
            x, y = self.ev(t.left, fr), self.ev(t.comparators[0], fr)
            op = type(t.ops[0])
            if isinstance(x, Z) and isinstance(y, Z):
                forms = {ast.Lt: '(%s <? %s)%%Z', ast.LtE: '(%s <=? %s)%%Z', ast.Eq: '(%s =? %s)%%Z', ast.NotEq: 'negb (%s =? %s)%%Z'}
                if op in forms:
                    return forms[op] % (par(x.term), par(y.term))
                if op in (ast.Gt, ast.GtE):
                    return forms[{ast.Gt: ast.Lt, ast.GtE: ast.LtE}[op]] % (par(y.term), par(x.term))
                fail(t, 'comparison operator')
            if isinstance(x, (Z, Qv)) and isinstance(y, (Z, Qv)):
                a, b = self.as_q(x, t), self.as_q(y, t)
                forms = {ast.Lt: 'Qltb %s %s', ast.LtE: 'Qleb %s %s', ast.Eq: 'Qeqb %s %s', ast.NotEq: 'negb (Qeqb %s %s)'}
                if op in forms:
                    return forms[op] % (par(a), par(b))
                if op in (ast.Gt, ast.GtE):
                    return forms[{ast.Gt: ast.Lt, ast.GtE: ast.LtE}[op]] % (par(b), par(a))
                fail(t, 'comparison operator')
            if isinstance(x, Sc) and isinstance(y, Sc):
                if op is ast.Eq:
                    return '%s =? %s' % (par(x.term), par(y.term))
                if op is ast.NotEq:
                    return 'negb (%s =? %s)' % (par(x.term), par(y.term))
                fail(t, 'float comparison other than == / !=')
            if isinstance(x, Opt) and x.inner == 'str' and isinstance(y, Str) and op in (ast.Eq, ast.NotEq):
                k = fr['known'].get(x.term)
                if k is None or k[0] != 'some':
                    fail(t, 'string comparison of a value not known to be a string')
                r = 'String.eqb %s %s' % (k[1], y.term)
                return r if op is ast.Eq else 'negb (%s)' % r
            fail(t, 'comparison of %s with %s' % (type(x).__name__, type(y).__name__))
        fail(t, 'condition %s' % type(t).__name__)

    def option_test(self, t, fr):
        """(Opt value, True when the test holds for Some) for `x is None` / `x is not None` / `isinstance(x, Signal)`, else None"""
        if isinstance(t, ast.Compare) and len(t.ops) == 1 and isinstance(t.ops[0], (ast.Is, ast.IsNot)):
            c = t.comparators[0]
            if not (isinstance(c, ast.Constant) and c.value is None):
                fail(t, '`is` with something other than None')
            x = self.ev(t.left, fr)
            if not isinstance(x, Opt) or x.inner == 'none':
                fail(t, '`is None` test of a %s' % type(x).__name__)
            return x, isinstance(t.ops[0], ast.IsNot)
        if isinstance(t, ast.Call) and dotted(t.func) == 'isinstance' and 'isinstance' not in fr['env'] and len(t.args) == 2 and not t.keywords:
            x = self.ev(t.args[0], fr)
            if isinstance(x, Opt) and x.inner == 'obj':
                if not (isinstance(t.args[1], ast.Name) and t.args[1].id == CLASS and CLASS not in fr['env']):
                    fail(t, 'isinstance of the other signal with a class other than %s' % CLASS)
                return x, True
        return None

    def branch(self, t, fr, kt, ke):
        """tree of `if t: kt else: ke`; kt, ke : frame -> tree (called on private copies of the frame)"""
        if self.pending:
            raise Unsupported('internal: unbound partial expression')
        try:
            if isinstance(t, ast.BoolOp) and self.has_option_test(t):
                vals = list(t.values)
                is_and = isinstance(t.op, ast.And)

                def chain(i, f):
                    if i == len(vals):
                        return kt(f) if is_and else ke(f)
                    if is_and:
                        return self.branch(vals[i], f, lambda g: chain(i + 1, g), ke)
                    return self.branch(vals[i], f, kt, lambda g: chain(i + 1, g))
                return chain(0, fr)
            if isinstance(t, ast.UnaryOp) and isinstance(t.op, ast.Not) and self.has_option_test(t):
                return self.branch(t.operand, fr, ke, kt)
            ot = self.option_test(t, fr)
            if ot is not None:
                x, some_is_true = ot
                binds = self.take_pending()
                k = fr['known'].get(x.term)
                ks, kn = (kt, ke) if some_is_true else (ke, kt)
                if k is not None:
                    tree = ks(copy_frame(fr)) if k[0] == 'some' else kn(copy_frame(fr))
                    return self.wrap(binds, tree)
                v = self.fresh()
                fs, fn = copy_frame(fr), copy_frame(fr)
                fs['known'][x.term] = ('some', v)
                fn['known'][x.term] = ('none',)
                return self.wrap(binds, ('matchopt', x.term, v, ks(fs), kn(fn)))
            c = self.pure_bool(t, fr)
            if c is None:
                fail(t, 'condition mixes None-tests in an unsupported way')
            binds = self.take_pending()
            return self.wrap(binds, ('if', c, kt(copy_frame(fr)), ke(copy_frame(fr))))
        except PathRaises as p:
            return self.wrap(self.take_pending(), ('leaf', p.leaf))

    def has_option_test(self, t):
        for n in ast.walk(t):
            if isinstance(n, ast.Compare) and any(isinstance(o, (ast.Is, ast.IsNot)) for o in n.ops):
                return True
            if isinstance(n, ast.Call) and dotted(n.func) == 'isinstance' and len(n.args) == 2 and isinstance(n.args[1], ast.Name) and n.args[1].id == CLASS:
                return True
        return False

    # ------------------------------------------------------------ statements
    def assign_name(self, fr, name, val, node):
        if name in RESERVED or name in ('float', 'kwargs'):
            fail(node, 'assignment to %s' % name)
        old = fr['env'].get(name)
        if isinstance(old, (SelfObj, Kw)):
            fail(node, 'assignment to %s' % name)
        if isinstance(val, (SelfObj, Kw, BA)):
            fail(node, 'copy of self / kwargs / the filter pair')
        fr['env'][name] = val

    def exclusive(self, fr, name):
        v = fr['env'].get(name)
        if not (isinstance(v, Vec) and v.fresh):
            return False
        return sum(1 for w in fr['env'].values() if w is v) == 1

    def exception_leaf(self, exc, fr):
        if not (isinstance(exc, ast.Call) and len(exc.args) == 1 and not exc.keywords and isinstance(exc.args[0], ast.Constant)
                and isinstance(exc.args[0].value, str)):
            fail(exc, 'raise of something other than <Exception>("<message>")')
        msg = coq_string(exc, exc.args[0].value)
        d = dotted(exc.func)
        if d == 'ValueError' and 'ValueError' not in fr['env']:
            return 'PyValueError %s' % msg
        if d == 'exceptions.SignalProcessingError' and self.m.exceptions_ok and 'exceptions' not in fr['env']:
            return 'PySignalProcessingError %s' % msg
        fail(exc, 'raise of %s' % d)

    def run(self, stmts, fr, loop=None, depth=0):
        """-> ('leaf', term) | ('if', cond, tree, tree) | ('matchopt', option term, var, tree, tree).
        loop = (output buffer name, loop variable) while translating the body of the loop"""
        if depth > 60:
            fail(stmts[0] if stmts else None, 'nesting too deep')
        stmts = list(stmts)
        try:
            while stmts:
                s = stmts.pop(0)
                if self.pending:
                    raise Unsupported('internal: unbound partial expression')
                if isinstance(s, ast.Pass):
                    continue
                if isinstance(s, ast.Expr):
                    v = s.value
                    if isinstance(v, ast.Constant) and isinstance(v.value, str):
                        continue                                             # docstring
                    if isinstance(v, ast.Call) and loop is None:
                        return self.final_call(v, stmts, fr, depth)
                    fail(s, 'expression statement')
                if isinstance(s, ast.ImportFrom):
                    if loop is None and s.module == 'scipy.signal' and not s.level and [(a.name, a.asname) for a in s.names] == [('butter', None), ('filtfilt', None)]:
                        fr['local_imports'] |= {'butter', 'filtfilt'}
                        continue
                    fail(s, 'import other than `from scipy.signal import butter, filtfilt`')
                if isinstance(s, ast.Assign):
                    if len(s.targets) != 1:
                        fail(s, 'multiple assignment')
                    t = s.targets[0]
                    if isinstance(t, ast.Name):
                        val = self.ev(s.value, fr)
                        binds = self.take_pending()
                        let = None
                        if isinstance(val, (Z, Qv, Sc, Vec)) and len(val.term) > LET_MIN and getattr(val, 'lit', None) is None:
                            let = (self.fresh_let(), val.term)
                            val = copy.copy(val)
                            val.term = let[0]
                        self.assign_name(fr, t.id, val, s)
                        if binds or let:
                            tree = self.run(stmts, fr, loop, depth + 1)
                            if let:
                                tree = ('let', let[0], let[1], tree)
                            return self.wrap(binds, tree)
                        continue
                    if isinstance(t, ast.Tuple):
                        if not (len(t.elts) == 2 and all(isinstance(x, ast.Name) for x in t.elts) and t.elts[0].id != t.elts[1].id):
                            fail(s, 'tuple assignment other than `b, a = butter(..)`')
                        val = self.ev(s.value, fr)
                        if not isinstance(val, BA):
                            fail(s, 'tuple assignment other than `b, a = butter(..)`')
                        binds = self.take_pending()
                        for k, x in enumerate(t.elts):
                            self.assign_name(fr, x.id, BAHalf(val, k), s)
                        if binds:
                            return self.wrap(binds, self.run(stmts, fr, loop, depth + 1))
                        continue
                    if isinstance(t, ast.Subscript) and isinstance(t.value, ast.Name):
                        sl = slice_of(t)
                        name = t.value.id
                        if loop is not None:
                            # the single store of the loop body: out[i] = float, last statement of the path
                            if not (name == loop[0] and isinstance(sl, ast.Name) and sl.id == loop[1] and not stmts):
                                fail(s, 'store in the loop body other than a final %s[%s] = ..' % loop)
                            term = self.as_sc(self.ev(s.value, fr), fr, s)
                            return self.wrap(self.take_pending(), ('leaf', term))
                        if not (isinstance(sl, ast.Slice) and sl.step is None):
                            fail(s, 'subscript assignment other than v[lo:hi] = ..')
                        if not self.exclusive(fr, name):
                            fail(s, 'in-place assignment to an array that is not fresh and unaliased')
                        z = fr['env'][name]
                        lo, hi = self.bound(sl.lower, fr), self.bound(sl.upper, fr)
                        val = self.ev(s.value, fr)
                        if isinstance(val, Vec):
                            v = self.partial(fr, 'py_set_slice %s %s %s %s' % (lo, hi, par(val.term), par(z.term)), 'PyBroadcastError', s)
                            nv = Vec(v, fresh=True)
                        else:
                            nv = Vec('py_set_slice_scalar %s %s %s %s' % (lo, hi, par(self.as_sc(val, fr, s)), par(z.term)), fresh=True)
                        binds = self.take_pending()
                        fr['env'][name] = nv
                        if binds:
                            return self.wrap(binds, self.run(stmts, fr, loop, depth + 1))
                        continue
                    if (isinstance(t, ast.Attribute) and isinstance(t.value, ast.Name) and isinstance(fr['env'].get(t.value.id), SelfObj)
                            and t.attr == '_values' and loop is None):
                        # self._values = out; self.clear_cache()   (end of running_average)
                        if not (len(stmts) == 1 and isinstance(stmts[0], ast.Expr) and isinstance(stmts[0].value, ast.Call)
                                and ast.dump(stmts[0].value) == ast.dump(ast.parse('%s.clear_cache()' % t.value.id, mode='eval').body)):
                            fail(s, '`self._values = v` must be followed by `self.clear_cache()` and nothing else')
                        val = self.ev(s.value, fr)
                        if not (isinstance(val, Vec) and val.fresh):
                            fail(s, 'self._values is given something other than a fresh array')
                        return self.wrap(self.take_pending(), ('leaf', 'PyOk %s' % par(val.term)))
                    fail(s, 'assignment target')
                if isinstance(s, ast.If):
                    rest = stmts
                    return self.branch(s.test, fr,
                                       lambda f: self.run(list(s.body) + rest, f, loop, depth + 1),
                                       lambda f: self.run(list(s.orelse) + rest, f, loop, depth + 1))
                if isinstance(s, ast.Raise):
                    if loop is not None or s.cause is not None or s.exc is None:
                        fail(s, 'raise form')
                    return ('leaf', self.exception_leaf(s.exc, fr))
                if isinstance(s, ast.For):
                    if loop is not None:
                        fail(s, 'nested loop')
                    self.for_loop(s, fr)
                    continue
                fail(s, 'statement %s' % type(s).__name__)
        except PathRaises as p:
            return self.wrap(self.take_pending(), ('leaf', p.leaf))
        raise Unsupported('control reaches the end of a path of %s without a result' % self.spec['name'])

    def final_call(self, v, stmts, fr, depth):
        """self.reset_values(e) | self.<method>(e): the result of the path"""
        f = v.func
        if not (isinstance(f, ast.Attribute) and isinstance(f.value, ast.Name) and isinstance(fr['env'].get(f.value.id), SelfObj)):
            fail(v, 'expression statement')
        if stmts:
            fail(stmts[0], 'statements after %s.%s(..)' % (f.value.id, f.attr))
        if len(v.args) != 1 or v.keywords or isinstance(v.args[0], ast.Starred):
            fail(v, 'arguments of %s.%s' % (f.value.id, f.attr))
        val = self.ev(v.args[0], fr)
        if f.attr == 'reset_values':
            if not isinstance(val, Vec):
                fail(v, 'reset_values of a non-vector')
            return self.wrap(self.take_pending(), ('leaf', 'PyOk %s' % par(val.term)))
        callee = BY_NAME.get(f.attr)
        if callee is None or callee.get('kwargs') or len(callee['params']) != 1 or fr['depth'] >= 2:
            fail(v, 'call of self.%s' % f.attr)
        fn = self.cls.method(f.attr, v)
        pname, kind = callee['params'][0][0], callee['params'][0][1]
        if not isinstance(val, {'Sc': Sc, 'Vec': Vec, 'Z': Z}.get(kind, ())):
            fail(v, 'argument kind of self.%s' % f.attr)
        binds = self.take_pending()
        sub = Exec(self.m, self.cls, callee)
        sub.nvar, sub.nlet = self.nvar, self.nlet
        env = {fn.args.args[0].arg: SelfObj(), pname: val}
        tree = sub.run(list(fn.body), {'env': env, 'known': dict(fr['known']), 'local_imports': set(), 'depth': fr['depth'] + 1})
        self.nvar, self.nlet = sub.nvar, sub.nlet
        if sub.loop_defs:
            fail(v, 'inlined method with a loop')
        return self.wrap(binds, tree)

    def for_loop(self, s, fr):
        """for i in range(len(v)): <paths ending in out[i] = float>   with out = np.zeros(len(v), dtype=float) untouched"""
        env = fr['env']
        if s.orelse or not isinstance(s.target, ast.Name) or 'range' in env:
            fail(s, 'loop form')
        it = s.iter
        if not (isinstance(it, ast.Call) and dotted(it.func) == 'range' and len(it.args) == 1 and not it.keywords):
            fail(s, 'loop other than `for i in range(n)`')
        n = self.ev(it.args[0], fr)
        if not isinstance(n, Z) or self.pending:
            fail(s, 'range of a non-int')
        ivar = s.target.id
        if ivar in RESERVED or ivar in env:
            fail(s, 'loop variable %s shadows a name' % ivar)
        outs = [k for k, v in env.items() if isinstance(v, Vec) and v.buf is not None and v.buf == n.term and self.exclusive(fr, k)]
        stored = {t.value.id for b in ast.walk(s) if isinstance(b, ast.Assign) for t in b.targets
                  if isinstance(t, ast.Subscript) and isinstance(t.value, ast.Name)}
        if len(stored) != 1 or list(stored)[0] not in outs:
            fail(s, 'the loop does not fill one untouched np.zeros buffer whose length is the range bound')
        out = list(stored)[0]
        targets = {id(t.value) for b in ast.walk(s) if isinstance(b, ast.Assign) for t in b.targets if isinstance(t, ast.Subscript)}
        for b in ast.walk(s):
            if isinstance(b, ast.Name) and b.id == out and isinstance(b.ctx, ast.Load) and id(b) not in targets:
                fail(s, 'the loop body reads the output buffer')
            if isinstance(b, ast.Name) and b.id == ivar and isinstance(b.ctx, ast.Store) and b is not s.target:
                fail(s, 'the loop body assigns the loop variable')
        f2 = copy_frame(fr)
        del f2['env'][out]
        f2['env'][ivar] = Z('i')
        body = self.run(list(s.body), f2, loop=(out, ivar))
        self.loop_defs.append(body)
        at = '%s_at %s' % (self.spec['gen'], self.spec['loop_args'])
        env[out] = Vec('map (fun i => %s i) (py_range %s)' % (at, par(n.term)), fresh=True)
        # names bound inside the body are not visible afterwards (conservative)


def render(tree, ind=2):
    sp = ' ' * ind
    k = tree[0]
    if k == 'leaf':
        return sp + tree[1]
    if k == 'if':
        return '%sif %s then\n%s\n%selse\n%s' % (sp, tree[1], render(tree[2], ind + 2), sp, render(tree[3], ind + 2))
    if k == 'let':
        return '%slet %s := %s in\n%s' % (sp, tree[1], tree[2], render(tree[3], ind))
    if k == 'matchopt':
        return '%smatch %s with\n%s| Some %s =>\n%s\n%s| None =>\n%s\n%send' % (
            sp, tree[1], sp, tree[2], render(tree[3], ind + 4), sp, render(tree[4], ind + 4), sp)
    raise Unsupported('internal: tree %r' % (k,))


# ---------------------------------------------------------------- the class
class SignalClass:
    def __init__(self, module):
        cands = [st for st in module.tree.body if isinstance(st, ast.ClassDef) and st.name == CLASS]
        if len(cands) != 1:
            raise Unsupported('class %s not found exactly once' % CLASS)
        self.node = cands[0]
        if self.node.decorator_list or self.node.keywords:
            raise Unsupported('class %s is decorated / has a metaclass' % CLASS)
        self.defs = {}
        for st in self.node.body:
            if isinstance(st, ast.FunctionDef):
                self.defs.setdefault(st.name, []).append(st)
            else:
                for n in ast.walk(st):
                    if isinstance(n, ast.Name) and isinstance(n.ctx, (ast.Store, ast.Del)):
                        self.defs.setdefault(n.id, []).append(None)      # a class attribute of that name
        # nothing after the class statement may patch the class at module level
        for st in module.tree.body:
            if isinstance(st, (ast.FunctionDef, ast.ClassDef, ast.Import, ast.ImportFrom)):
                if getattr(st, 'name', None) == CLASS and st is not self.node:
                    raise Unsupported('%s is bound twice' % CLASS)
                continue
            for n in ast.walk(st):
                if isinstance(n, ast.Name) and n.id == CLASS:
                    raise Unsupported('module-level statement refers to %s (line %s)' % (CLASS, st.lineno))

    def method(self, name, node=None):
        ds = self.defs.get(name, [])
        if len(ds) != 1 or ds[0] is None:
            fail(node, 'method %s.%s not found exactly once' % (CLASS, name))
        f = ds[0]
        if f.decorator_list:
            fail(f, '%s.%s is decorated' % (CLASS, name))
        a = f.args
        if a.vararg or a.kwonlyargs or getattr(a, 'posonlyargs', []) or not a.args:
            fail(f, '%s.%s: unsupported signature' % (CLASS, name))
        return f

    def check_accessors(self):
        for name, (deco, body) in ACCESSORS.items():
            ds = self.defs.get(name, [])
            if deco == 'property':
                # the getter, plus optionally a `@<name>.setter`
                getters = [d for d in ds if d is not None and [ast.dump(x) for x in d.decorator_list] == [ast.dump(ast.parse('property', mode='eval').body)]]
                others = [d for d in ds if d not in getters]
                ok_setter = all(d is not None and len(d.decorator_list) == 1 and dotted(d.decorator_list[0]) == '%s.setter' % name for d in others)
                if len(getters) != 1 or not ok_setter or ds.index(getters[0]) != 0:
                    raise Unsupported('%s.%s is not a plain read-only style property' % (CLASS, name))
                f = getters[0]
            else:
                if len(ds) != 1 or ds[0] is None or ds[0].decorator_list:
                    raise Unsupported('%s.%s not found exactly once, undecorated' % (CLASS, name))
                f = ds[0]
            stmts = list(f.body)
            if stmts and isinstance(stmts[0], ast.Expr) and isinstance(stmts[0].value, ast.Constant) and isinstance(stmts[0].value.value, str):
                stmts = stmts[1:]
            want = ast.parse(body).body
            if [ast.dump(x) for x in stmts] != [ast.dump(x) for x in want]:
                raise Unsupported('%s.%s does not have the expected body `%s`' % (CLASS, name, body.replace('\n', '; ')))
            names = [a.arg for a in f.args.args]
            if names != (['self'] if deco == 'property' else ['self', 'new_values']) or f.args.vararg or f.args.kwarg or f.args.defaults:
                raise Unsupported('%s.%s: unexpected signature' % (CLASS, name))


class PyModule:
    """module-level facts of eqsig/single.py: `np` is numpy, and which names are bound at module level"""
    def __init__(self, path, src):
        self.path = path
        self.tree = ast.parse(src)
        self.np_ok = False
        for st in self.tree.body:
            if isinstance(st, ast.Import):
                for al in st.names:
                    bound = al.asname or al.name.split('.')[0]
                    if bound in ('np', 'numpy'):
                        if al.name != 'numpy':
                            fail(st, '%s is bound to %s' % (bound, al.name))
                        self.np_ok = self.np_ok or bound == 'np'
            elif isinstance(st, ast.ImportFrom):
                for al in st.names:
                    if (al.asname or al.name) in ('np', 'numpy') or al.name == '*':
                        fail(st, 'module binds np / imports *')
            elif isinstance(st, (ast.FunctionDef, ast.ClassDef)):
                if st.name in ('np', 'numpy'):
                    fail(st, 'module defines %s' % st.name)
            else:
                for n in ast.walk(st):
                    if isinstance(n, ast.Name) and isinstance(n.ctx, (ast.Store, ast.Del)) and n.id in ('np', 'numpy'):
                        fail(st, 'module assigns %s' % n.id)
                    if isinstance(n, (ast.Import, ast.ImportFrom, ast.FunctionDef, ast.ClassDef)) and n is not st:
                        fail(st, 'nested binding statement at module level')


def exceptions_imported(module):
    """`exceptions` is the module eqsig.exceptions (from eqsig import exceptions) and nothing else at module level"""
    ok = False
    for st in module.tree.body:
        if isinstance(st, ast.ImportFrom):
            for al in st.names:
                if (al.asname or al.name) == 'exceptions':
                    if st.module != 'eqsig' or al.name != 'exceptions' or st.level:
                        return False
                    ok = True
        elif isinstance(st, ast.Import):
            if any((al.asname or al.name.split('.')[0]) == 'exceptions' for al in st.names):
                return False
        elif isinstance(st, (ast.FunctionDef, ast.ClassDef)):
            if st.name == 'exceptions':
                return False
        else:
            for n in ast.walk(st):
                if isinstance(n, ast.Name) and isinstance(n.ctx, (ast.Store, ast.Del)) and n.id == 'exceptions':
                    return False
    return ok


def default_cut_off(dflt):
    """(0.1, 15) -> class tag and content"""
    if isinstance(dflt, ast.Tuple):
        tag = 'PTuple'
    elif isinstance(dflt, ast.List):
        tag = 'PList'
    else:
        fail(dflt, 'default of cut_off is not a tuple / list display')
    items = []
    for x in dflt.elts:
        if isinstance(x, ast.Constant) and x.value is None:
            items.append('None')
        elif isinstance(x, ast.Constant) and not isinstance(x.value, bool) and isinstance(x.value, (int, float)):
            items.append('Some %s' % par(literal(x).term))
        else:
            fail(x, 'entry of the default of cut_off')
    return tag, '[%s]' % '; '.join(items)


def translate_method(module, cls, spec):
    fn = cls.method(spec['name'])
    a = fn.args
    names = [x.arg for x in a.args]
    want = ['self'] + [p[0] for p in spec['params']]
    if names != want or bool(a.kwarg) != bool(spec.get('kwargs')) or (a.kwarg and a.kwarg.arg != 'kwargs'):
        raise Unsupported('%s: parameters are %r, expected %r%s' % (spec['name'], names, want, ' + **kwargs' if spec.get('kwargs') else ''))
    for n in ast.walk(fn):
        if isinstance(n, (ast.AugAssign, ast.While, ast.Try, ast.With, ast.Global, ast.Nonlocal, ast.Lambda, ast.NamedExpr, ast.Delete,
                          ast.FunctionDef, ast.ClassDef, ast.Return, ast.Yield, ast.YieldFrom, ast.Await, ast.ListComp, ast.GeneratorExp)) and n is not fn:
            fail(n, '%s: statement kind %s is not accepted' % (spec['name'], type(n).__name__))
    env = {'self': SelfObj()}
    if a.kwarg:
        env['kwargs'] = Kw()
    for p in spec['params']:
        kind = p[1]
        if p[0] in RESERVED:
            raise Unsupported('parameter named %s' % p[0])
        env[p[0]] = {'CUT': lambda: Cut(), 'Sc': lambda: Sc(p[2]), 'Vec': lambda: Vec(p[2]), 'Z': lambda: Z(p[2]),
                     'Obj': lambda: Opt(p[2], 'obj')}[kind]()
    ex = Exec(module, cls, spec)
    tree = ex.run(list(fn.body), {'env': env, 'known': {}, 'local_imports': set(), 'depth': 0})
    if ex.pending:
        raise Unsupported('internal: unbound partial expression')
    pysig = ast.unparse(fn.args).replace('(*', '( *').replace('*)', '* )')
    out = []
    if ex.loop_defs:
        if len(ex.loop_defs) != 1:
            raise Unsupported('%s: more than one loop' % spec['name'])
        out.append('(** %s: %s.%s, the body of the loop at index i *)\nDefinition %s_at %s (i : Z) : T :=\n%s.\n'
                   % (SRC, CLASS, spec['name'], spec['gen'], spec['binders'], render(ex.loop_defs[0])))
    out.append('(** %s: %s.%s(%s) *)\nDefinition %s %s : pyres (list T) :=\n%s.\n'
               % (SRC, CLASS, spec['name'], pysig, spec['gen'], spec['binders'], render(tree)))
    # defaults of the python signature
    inside, outside = [], []
    defaults = dict(zip(names[len(names) - len(a.defaults):], a.defaults))
    for n, dflt in defaults.items():
        kind = [p[1] for p in spec['params'] if p[0] == n][0]
        if kind == 'CUT':
            tag, content = default_cut_off(dflt)
            outside.append('Definition %s_default_%s_class : pyclass := %s.\n' % (spec['gen'], n, tag))
            inside.append('Definition %s_default_%s : list (option T) := %s.\n' % (spec['gen'], n, content))
        elif kind == 'Z':
            if not (isinstance(dflt, ast.Constant) and type(dflt.value) is int and abs(dflt.value) < 10 ** 9):
                fail(dflt, 'default of %s is not an int literal' % n)
            outside.append('Definition %s_default_%s : Z := %s.\n' % (spec['gen'], n, zl(dflt.value)))
        else:
            fail(dflt, 'default for the parameter %s' % n)
    return ''.join(out) + ''.join(inside), outside


HEADER = '''(** GENERATED by translator/py2coq_c17.py from eqsig/single.py (class Signal) -- do not edit; rewritten on every run.
    One definition per method, generic over [NumOps T], obtained by symbolic execution: temporaries are substituted, an [if]
    duplicates what follows it, every path ends in the exception it raises (class and message) or in [PyOk v], v being the
    array handed to reset_values (or stored into _values).  Partial readings are [match]es in Python evaluation order:
    [nth_error cut k] (cut_off[k]: IndexError), [opt_all] / a [None] entry (None / nyq: TypeError), [np_add] and
    [py_set_slice] (shapes that do not broadcast).
    Inputs: a = self.values, dt = self.dt; butter_pass: cls / cut = class and content of cut_off (None entries = Python None),
    kw_filter_order, kw_gibbs_extra, kw_gibbs_range = the keyword if given, remove_gibbs = None | Some string (absent and None
    coincide: the default is None), FF order btype wn v = `b, a = butter(order, wn, btype=btype); filtfilt(b, a, v)` (a scalar wn is the list [[wn]]);
    add_signal: other = Some (dt, values) of a Signal | None for any other object; running_average: w = width, i = loop index.
    Python ints are Z, the float quotient of two ints is an exact Q, [int(np.ceil(np.log2(n)))] is [Z.log2_up n].
    proofs/P_gen_c17.v proves every definition equal to the model of model/M_signalops.v. *)
From Coq Require Import ZArith QArith Qround Bool String List.
From EQ Require Import lib.Num lib.NpList.
Import ListNotations.
Local Open Scope num_scope.

(** ** fixed Python / NumPy readings (not generated from the source) *)
Inductive pyclass := PList | PTuple | PNdarray | POther.
Definition pyclass_eqb (x y : pyclass) : bool :=
  match x, y with PList, PList | PTuple, PTuple | PNdarray, PNdarray | POther, POther => true | _, _ => false end.
(** how a call ends *)
Inductive pyres (A : Type) : Type :=
| PyOk (v : A)
| PyValueError (msg : string)
| PySignalProcessingError (msg : string)
| PyTypeError
| PyIndexError
| PyBroadcastError.
Arguments PyOk {A} v.
Arguments PyValueError {A} msg.
Arguments PySignalProcessingError {A} msg.
Arguments PyTypeError {A}.
Arguments PyIndexError {A}.
Arguments PyBroadcastError {A}.

(** kwargs.get(key, default) *)
Definition kw_get {A} (kw : option A) (d : A) : A := match kw with Some v => v | None => d end.
(** all entries of an object array are numbers *)
Fixpoint opt_all {A} (l : list (option A)) : option (list A) :=
  match l with
  | [] => Some []
  | None :: _ => None
  | Some v :: r => match opt_all r with Some vs => Some (v :: vs) | None => None end
  end.
(** a slice bound on a sequence of length n: negative counts from the end, then clamped to [0, n] *)
Definition py_bound (n dflt : nat) (b : option Z) : nat :=
  match b with
  | None => dflt
  | Some i => Z.to_nat (if (i <? 0)%Z then Z.max 0 (i + Z.of_nat n) else Z.min i (Z.of_nat n))
  end.
(** v[lo:hi] *)
Definition py_slice {A} (lo hi : option Z) (l : list A) : list A :=
  let n := length l in let s := py_bound n 0 lo in let f := py_bound n n hi in firstn (f - s) (skipn s l).
(** v[lo:hi] = c *)
Definition py_set_slice_scalar {A} (lo hi : option Z) (c : A) (l : list A) : list A :=
  let n := length l in let s := py_bound n 0 lo in let f := py_bound n n hi in
  firstn s l ++ repeat c (f - s) ++ skipn (s + (f - s)) l.
(** v[lo:hi] = u: u has the length of the slice, or one element that is repeated; anything else does not broadcast *)
Definition py_set_slice {A} (lo hi : option Z) (u l : list A) : option (list A) :=
  let n := length l in let s := py_bound n 0 lo in let f := py_bound n n hi in
  if Nat.eqb (length u) (f - s) then Some (firstn s l ++ u ++ skipn (s + (f - s)) l)
  else match u with
       | [c] => Some (firstn s l ++ repeat c (f - s) ++ skipn (s + (f - s)) l)
       | _ => None
       end.
(** int(q): truncation towards zero *)
Definition py_int_Q (q : Q) : Z := if Qltb q 0 then Qceiling q else Qfloor q.
(** range(n) *)
Definition py_range (n : Z) : list Z := map Z.of_nat (seq 0 (Z.to_nat n)).

Section Generic.
Context {T : Type} `{NumOps T}.

Definition py_ones (n : Z) : list T := repeat n1 (Z.to_nat n).
Definition py_zeros (n : Z) : list T := repeat n0 (Z.to_nat n).
(** np.mean *)
Definition py_mean (l : list T) : T := nsum l / nofZ (Z.of_nat (length l)).
(** u + v of two 1-d arrays: equal lengths, or one of them has a single element *)
Definition np_add (u v : list T) : option (list T) :=
  if Nat.eqb (length u) (length v) then Some (vadd u v)
  else match u, v with
       | [c], _ => Some (map (fun y => c + y) v)
       | _, [c] => Some (map (fun x => x + c) u)
       | _, _ => None
       end.
'''


def translate_sources(read):
    """read(relative path) -> source text"""
    module = PyModule(SRC, read(SRC))
    for b in BUILTINS:
        if not builtin_untouched(module, b):
            raise Unsupported('%s: the module binds %s' % (SRC, b))
    if not module.np_ok:
        raise Unsupported('%s: np is not `import numpy as np`' % SRC)
    module.exceptions_ok = exceptions_imported(module)
    cls = SignalClass(module)
    cls.check_accessors()
    defs, consts = [], []
    for spec in METHODS:
        spec = dict(spec)
        spec['loop_args'] = 'w a'
        try:
            text, extra = translate_method(module, cls, spec)
        except Unsupported as e:
            raise Unsupported('%s:%s.%s: %s' % (SRC, CLASS, spec['name'], e))
        defs.append(text)
        consts.extend(extra)
    return HEADER + '\n' + '\n'.join(defs) + 'End Generic.\n' + ('\n' + '\n'.join(consts) if consts else '')


def regenerate(repo=None, out=None):
    """returns True iff the file was rewritten; raises Unsupported / OSError / SyntaxError (fail closed).
    On failure the committed copy is left as it is: the caller reports the broken tie."""
    repo = repo or os.environ.get('EQSIG_REPO', '/repo')
    out = out or OUT
    text = translate_sources(lambda rel: open(os.path.join(repo, rel)).read())
    old = open(out).read() if os.path.exists(out) else None
    if old != text:
        os.makedirs(os.path.dirname(out), exist_ok=True)
        tmp = '%s.%d.tmp' % (out, os.getpid())
        with open(tmp, 'w') as f:
            f.write(text)
        os.replace(tmp, out)
        return True
    return False


def main():
    try:
        ch = regenerate(repo=sys.argv[1] if len(sys.argv) > 1 else None)
    except Exception as e:  # fail closed
        print('py2coq_c17: translation FAILED: %s: %s' % (type(e).__name__, e))
        return 1
    print('py2coq_c17: %s %s' % (os.path.relpath(OUT, VERIF), 'rewritten' if ch else 'unchanged'))
    return 0


if __name__ == '__main__':
    sys.exit(main())
