#!/venv/bin/python
"""Fail-closed translator of the helper functions of property C20  ->  coq/gen/Gen_helpers.v

    eqsig/fns/average.py : calc_roll_av_vals -> gen_roll_av        calc_step_fn_vals_error -> gen_step_err
                           calc_step_fn_steps_vals -> gen_step_levels
    eqsig/fns/generic.py : interp_left -> gen_interp_left (x0 an array) and gen_interp_left_scalar (x0 a number: the two
                           outcomes of `hasattr(x0, '__len__')`, resolved from the kind of the parameter)
    (interp2d is NOT translated: it stays with the hand model + correspondence.)

Each function becomes one Gallina definition, generic over `NumOps T` (lib/Num.v), over the list primitives of lib/NpList.v
and the numpy readings of lib/NpHelpers.v.  coq/proofs/P_gen_helpers.v proves every generated definition equal to the
hand-written model of model/M_helpers.v (roll_av, step_err, step_levels / step_levels_auto, interp_left) for ALL inputs, so a
changed operand / index / sign / literal / comparison changes the generated term and breaks a proof obligation of Prop_C20
on the next run.  The module loader and the small syntactic helpers are imported from translator/py2coq_numpy.py (not
modified).  Anything outside the whitelist below raises `Unsupported` (= the tie is broken; the harness reports it).

EVERY assignment `name = e` becomes `let tK := e in` with K counting the assignments in textual order (so a renamed
temporary gives the same text; `name = <bare name or parameter>` after np.array() is an alias-free re-binding and emits
nothing).  Python ints are Z, sizes and slice bounds are `Z.to_nat`.

kinds       : I int (Z) | S float (T) | V float array (list T) | IV int array (list Z) | M 2-d float array (list of rows) |
              COL a column `V[:, np.newaxis]` | BV bool array | B bool | parameters: STR (str), OSTR (str or None),
              OPTV (array or None), OPTI (int or None) | static Python bool (`is_scalar = True`)
expressions : int literal -> k%Z (as a float operand: nofZ k); float literal -> its decimal text as a rational;
              I (+ - *) I -> Z.add/Z.sub/Z.mul;  `int(I)` -> I;  `int(np.floor(I / k))`, k a positive int literal -> Z.div I k;
              S (+ - * /) S with ints coerced by nofZ;  V op S, S op V -> map;  V op V -> map2 nadd/nsub/nmul/ndiv;
              V op IV, IV op V -> map2 with nofZ on the int side;  I (+ - *) IV, IV (+ - *) I -> map on Z;
              M op COL -> map2 (fun r m => map (fun x => x op m) r)  (numpy broadcasting of a column against the rows);
              e ** I -> npow (element-wise on V / M);  np.abs / abs on S, V, M;  unary minus on I, S;
              V < V, V > V, V <= V, V >= V -> BV;  S >= S etc. -> B (b <=? a ...);
              `len(V)` -> Z.of_nat (length V);  `min(V)`/`max(V)`/`np.min`/`np.max` -> amin / amax;  `np.mean(V)` -> np_mean;
              `np.sum(V)` -> nsum;  `np.sum(M, axis=1)` -> map nsum M;  `np.argmin(V)` -> Z.of_nat (np_argmin V);
              `np.array(V)` -> V;  `np.tril(V, k=lit)` / `np.triu(V, k=lit)` -> np_tril k V / np_triu k V;
              `np.arange(I)`, `np.arange(I, I)` -> arange_up;  `np.arange(I, I, -1)` -> arange_down;
              `np.ones(I)` / `np.zeros(I)` -> repeat n1 / n0 (Z.to_nat I);  `np.ones_like(V)` -> map (fun _ => n1) V
                  (float input: an integer-dtype input truncates, a recorded known finding);
              `np.concatenate([V, ..])` -> ++;  `np.cumsum(V[, dtype=float])` -> cumsum;  `[S]` -> [S];
              `np.where(BV, S, V)` -> map2 (fun c e => if c then S else e);
              `np.searchsorted(V, V, side='right')` -> map (fun x => Z.of_nat (searchsorted_right V x)) (sorted nodes);
              `V[0]` -> hd n0 V, `V[-1]` -> last V n0 (TOTAL readings: IndexError on an empty array is stated as the guard
                  `<> []` of the theorems);  `V[I:]` -> skipn;  `V[:I]` -> firstn;  `V[:-I]` -> firstn (length - I) (I >= 1);
              `V[:, np.newaxis]` -> COL;  `V[IV]` -> map (fun k => nth (Z.to_nat k) V n0) IV (an index -1 would wrap in
                  numpy: P_gen_helpers.gen_interp_left_indices_nonneg shows it does not occur once the assertion passed);
              `g(args)` with g another function of SPECS in the same module -> gen_g with constant defaults filled in.
conditions  : `p == 'lit'` on a STR / OSTR parameter -> String.eqb / opt_str_eqb;  `p is None` on an OPTV / OPTI parameter
              -> match;  `not hasattr(p, '__len__')` -> resolved statically from the kind of p;  a static Python bool.
statements  : docstring;  `name = e`;  `z[k:] = e`, `z[:-1] = e`, `z[-1] = s` on an array this function allocated
              (np.zeros / np.ones / np.ones_like / an arithmetic result) -> set_from / set_upto_last / set_last (no aliases:
              a bare name or a slice view is never bound to a second name);
              `if c: .. [elif/else ..]` without `return` inside -> every name (re)bound in a branch and bound on both paths
              becomes `tK := if c then (branch lets in value) else (...)`, names bound on one path only are unbound after it;
              `if <static>:` -> the taken branch is spliced in (may return);
              `assert c, msg` at the top level -> `if c then <rest> else None`, the result becoming an option (None = raises);
              `return e` | `return e1, e2`.
"""
import ast, os, sys

HERE = os.path.dirname(os.path.abspath(__file__))
sys.path.insert(0, HERE)
import py2coq_numpy as base                                                   # noqa: E402
from py2coq_numpy import Unsupported, fail, par, dotted, is_const              # noqa: E402
from py2coq_durations import builtin_untouched                                 # noqa: E402

VERIF = os.path.dirname(HERE)
OUT = os.path.join(VERIF, 'coq', 'gen', 'Gen_helpers.v')
AVG, GEN = 'eqsig/fns/average.py', 'eqsig/fns/generic.py'

# python parameter -> (kind, coq binder); ret: V | S | SS
SPECS = [
    dict(file=AVG, func='calc_roll_av_vals', gen='gen_roll_av',
         params=[('values', 'V', 'v'), ('steps', 'I', 'steps'), ('mode', 'STR', 'mode')], ret='V'),
    dict(file=AVG, func='calc_step_fn_vals_error', gen='gen_step_err',
         params=[('values', 'V', 'v'), ('pow', 'I', 'pw'), ('dir', 'OSTR', 'dir')], ret='V'),
    dict(file=AVG, func='calc_step_fn_steps_vals', gen='gen_step_levels',
         params=[('values', 'V', 'v'), ('ind', 'OPTI', 'ind')], ret='SS'),
    dict(file=GEN, func='interp_left', gen='gen_interp_left',
         params=[('x0', 'V', 'qs'), ('x', 'V', 'xs'), ('y', 'OPTV', 'ys')], ret='V'),
    dict(file=GEN, func='interp_left', gen='gen_interp_left_scalar', variant=True,
         params=[('x0', 'S', 'q'), ('x', 'V', 'xs'), ('y', 'OPTV', 'ys')], ret='S'),
]
COQ_TYPES = {'I': 'Z', 'S': 'T', 'V': 'list T', 'STR': 'string', 'OSTR': 'option string', 'OPTV': 'option (list T)',
             'OPTI': 'option Z', 'SS': 'T * T'}
PAYLOAD = {'OPTV': ('V', 'yv'), 'OPTI': ('I', 'indv')}
# names that generated binders / lets must not collide with (lambda variables and payloads)
LAMBDA = {'x', 'y', 'r', 'm', 'k', 'c', 'e', 'yv', 'indv', 'T', 'H'}
BUILTINS = ('int', 'hasattr', 'len', 'min', 'max', 'abs')
NOPS = {ast.Add: ('+', 'nadd'), ast.Sub: ('-', 'nsub'), ast.Mult: ('*', 'nmul'), ast.Div: ('/', 'ndiv')}
ZOPS = {ast.Add: 'Z.add', ast.Sub: 'Z.sub', ast.Mult: 'Z.mul'}


class Val:
    def __init__(self, kind, term, owned=False, value=None):
        self.kind, self.term, self.owned, self.value = kind, term, owned, value
        self.param = False


def is_ident(t):
    return t.replace('_', 'a').isalnum()


def int_lit(n):
    """the value of an int literal node (possibly negated), else None"""
    if isinstance(n, ast.Constant) and type(n.value) is int:
        return n.value
    if isinstance(n, ast.UnaryOp) and isinstance(n.op, ast.USub) and isinstance(n.operand, ast.Constant) and type(n.operand.value) is int:
        return -n.operand.value
    return None


def zlit(k):
    if abs(k) > 10 ** 9:
        raise Unsupported('integer literal too large')
    return '%d%%Z' % k if k >= 0 else '(%d)%%Z' % k


def tofloat(v, node=None):
    if v.kind == 'I':
        return Val('S', 'nofZ %s' % par(v.term))
    if v.kind == 'IV':
        return Val('V', 'map nofZ %s' % par(v.term), owned=True)
    return v


# ---------------------------------------------------------------- conditions
class StrEq:
    def __init__(self, term):
        self.term = term

    def wrap(self, a, b):
        return 'if %s then %s else %s' % (self.term, a, b)


class IsNone:
    def __init__(self, pyname, coqname, kind):
        self.pyname, self.coqname, self.kind = pyname, coqname, kind

    def wrap(self, a, b):
        return 'match %s with None => %s | Some %s => %s end' % (self.coqname, a, PAYLOAD[self.kind][1], b)


class Static:
    def __init__(self, value):
        self.value = value


def local_lets(items, term):
    if not items:
        return term
    return '(%s%s)' % (''.join('let %s := %s in ' % (n, t) for _, n, t in items), term)


class HCtx:
    def __init__(self, module, spec, specs):
        self.m, self.spec, self.specs = module, spec, specs
        self.counter = 0
        self.has_assert = False

    def fresh(self):
        self.counter += 1
        return 't%d' % self.counter

    def need_np(self, node):
        if not self.m.np_ok:
            fail(node, 'np is not `import numpy as np`')

    # ------------------------------------------------------------ expressions
    def expr(self, e, env):
        if isinstance(e, ast.Constant):
            v = e.value
            if isinstance(v, bool):
                return Val('PB', None, value=v)
            if type(v) is int:
                return Val('I', zlit(v))
            if isinstance(v, float):
                return Val('S', base.literal(e).term)
            fail(e, 'literal %r' % (v,))
        if isinstance(e, ast.Name):
            v = env.get(e.id)
            if v is None:
                fail(e, 'unknown (or possibly unbound) name %s' % e.id)
            if v.kind == 'NONE':
                fail(e, '%s is None here' % e.id)
            return v
        if isinstance(e, ast.UnaryOp) and isinstance(e.op, ast.USub):
            k = int_lit(e)
            if k is not None:
                return Val('I', zlit(k))
            x = self.expr(e.operand, env)
            if x.kind == 'I':
                return Val('I', 'Z.opp %s' % par(x.term))
            if x.kind == 'S':
                return Val('S', '- %s' % par(x.term))
            fail(e, 'unary minus of a %s' % x.kind)
        if isinstance(e, ast.BinOp):
            return self.binop(e, env)
        if isinstance(e, ast.Compare):
            return self.compare(e, env)
        if isinstance(e, ast.Subscript):
            return self.subscript(e, env)
        if isinstance(e, ast.Call):
            return self.call(e, env)
        if isinstance(e, ast.List):
            if len(e.elts) == 1:
                x = tofloat(self.expr(e.elts[0], env))
                if x.kind == 'S':
                    return Val('V', '[%s]' % x.term, owned=True)
            fail(e, 'list display other than [scalar]')
        fail(e, 'expression %s' % type(e).__name__)

    def binop(self, e, env):
        x, y = self.expr(e.left, env), self.expr(e.right, env)
        if isinstance(e.op, ast.Pow):
            if y.kind != 'I':
                fail(e, 'exponent that is not an int')
            p = 'fun x => npow x (Z.to_nat %s)' % par(y.term)
            if x.kind == 'S':
                return Val('S', 'npow %s (Z.to_nat %s)' % (par(x.term), par(y.term)))
            if x.kind == 'V':
                return Val('V', 'map (%s) %s' % (p, par(x.term)), owned=True)
            if x.kind == 'M':
                return Val('M', 'map (map (%s)) %s' % (p, par(x.term)), owned=True)
            fail(e, 'power of a %s' % x.kind)
        if type(e.op) not in NOPS:
            fail(e, 'binary operator %s' % type(e.op).__name__)
        sym, fn = NOPS[type(e.op)]
        kx, ky = x.kind, y.kind
        if kx == 'I' and ky == 'I':
            if type(e.op) not in ZOPS:
                fail(e, 'int / int outside int(np.floor(. / k))')
            return Val('I', '%s %s %s' % (ZOPS[type(e.op)], par(x.term), par(y.term)))
        if {kx, ky} == {'I', 'IV'}:
            if type(e.op) not in ZOPS:
                fail(e, 'int array / int')
            if kx == 'I':
                return Val('IV', 'map (fun k => %s %s k) %s' % (ZOPS[type(e.op)], par(x.term), par(y.term)), owned=True)
            return Val('IV', 'map (fun k => %s k %s) %s' % (ZOPS[type(e.op)], par(y.term), par(x.term)), owned=True)
        if kx in ('S', 'I') and ky in ('S', 'I'):
            return Val('S', '%s %s %s' % (par(tofloat(x).term), sym, par(tofloat(y).term)))
        if kx == 'V' and ky in ('S', 'I'):
            return Val('V', 'map (fun x => x %s %s) %s' % (sym, par(tofloat(y).term), par(x.term)), owned=True)
        if kx in ('S', 'I') and ky == 'V':
            return Val('V', 'map (fun x => %s %s x) %s' % (par(tofloat(x).term), sym, par(y.term)), owned=True)
        if kx == 'V' and ky == 'V':
            return Val('V', 'map2 %s %s %s' % (fn, par(x.term), par(y.term)), owned=True)
        if kx == 'V' and ky == 'IV':
            return Val('V', 'map2 (fun x k => x %s nofZ k) %s %s' % (sym, par(x.term), par(y.term)), owned=True)
        if kx == 'IV' and ky == 'V':
            return Val('V', 'map2 (fun k x => nofZ k %s x) %s %s' % (sym, par(x.term), par(y.term)), owned=True)
        if kx == 'M' and ky == 'COL':
            return Val('M', 'map2 (fun r m => map (fun x => x %s m) r) %s %s' % (sym, par(x.term), par(y.term)), owned=True)
        fail(e, 'operands %s %s %s' % (kx, sym, ky))

    def compare(self, e, env):
        if len(e.ops) != 1 or len(e.comparators) != 1:
            fail(e, 'chained comparison')
        forms = {ast.Lt: ('<?', False), ast.Gt: ('<?', True), ast.LtE: ('<=?', False), ast.GtE: ('<=?', True)}
        if type(e.ops[0]) not in forms:
            fail(e, 'comparison operator %s in an expression' % type(e.ops[0]).__name__)
        sym, swap = forms[type(e.ops[0])]
        x, y = self.expr(e.left, env), self.expr(e.comparators[0], env)
        if x.kind == 'V' and y.kind == 'V':
            return Val('BV', 'map2 (fun x y => %s) %s %s' % ('y %s x' % sym if swap else 'x %s y' % sym, par(x.term), par(y.term)), owned=True)
        x, y = tofloat(x), tofloat(y)
        if x.kind == 'S' and y.kind == 'S':
            a, b = (y, x) if swap else (x, y)
            return Val('B', '%s %s %s' % (par(a.term), sym, par(b.term)))
        fail(e, 'comparison of %s with %s' % (x.kind, y.kind))

    def bound(self, n, env, what):
        """a slice bound / size as a nat term"""
        k = int_lit(n)
        if k is not None:
            if k < 0:
                fail(n, 'negative %s' % what)
            return '%d' % k
        x = self.expr(n, env)
        if x.kind != 'I':
            fail(n, '%s that is not an int' % what)
        return '(Z.to_nat %s)' % par(x.term)

    def subscript(self, e, env):
        x = self.expr(e.value, env)
        sl = e.slice
        if isinstance(sl, ast.Index):      # python < 3.9
            sl = sl.value
        if x.kind not in ('V', 'IV'):
            fail(e, 'subscript of a %s' % x.kind)
        if isinstance(sl, ast.Tuple):
            if (x.kind == 'V' and len(sl.elts) == 2 and isinstance(sl.elts[0], ast.Slice) and sl.elts[0].lower is None
                    and sl.elts[0].upper is None and sl.elts[0].step is None and dotted(sl.elts[1]) == 'np.newaxis'):
                self.need_np(e)
                return Val('COL', x.term)
            fail(e, 'tuple subscript other than [:, np.newaxis]')
        if isinstance(sl, ast.Slice):
            if sl.step is not None or x.kind != 'V':
                fail(e, 'slice with a step / of an int array')
            lo, hi = sl.lower, sl.upper
            if lo is not None and hi is None:
                return Val('V', 'skipn %s %s' % (self.bound(lo, env, 'slice bound'), par(x.term)))
            if lo is None and hi is not None:
                if isinstance(hi, ast.UnaryOp) and isinstance(hi.op, ast.USub):
                    k = int_lit(hi)
                    if k is not None and k == 0:
                        fail(e, 'slice [:-0]')
                    b = '%d' % -k if k is not None else self.bound(hi.operand, env, 'slice bound')
                    return Val('V', 'firstn (Nat.sub (length %s) %s) %s' % (par(x.term), b, par(x.term)))
                return Val('V', 'firstn %s %s' % (self.bound(hi, env, 'slice bound'), par(x.term)))
            fail(e, 'slice other than [a:], [:b], [:-b]')
        k = int_lit(sl)
        if k is not None:
            if x.kind != 'V' or k not in (0, -1):
                fail(e, 'index other than [0] / [-1] of a float array')
            return Val('S', 'hd n0 %s' % par(x.term) if k == 0 else 'last %s n0' % par(x.term))
        i = self.expr(sl, env)
        if i.kind == 'IV' and x.kind == 'V':
            return Val('V', 'map (fun k => nth (Z.to_nat k) %s n0) %s' % (par(x.term), par(i.term)), owned=True)
        fail(e, 'subscript by a %s' % i.kind)

    def kwargs(self, e):
        if any(isinstance(a, ast.Starred) for a in e.args) or any(k.arg is None for k in e.keywords):
            fail(e, 'star arguments')
        return {k.arg: k.value for k in e.keywords}

    def call(self, e, env):
        d = dotted(e.func)
        if d is None:
            fail(e, 'call of a computed function')
        args, kws = e.args, self.kwargs(e)
        if d.split('.')[0] in env:
            fail(e, '%s is a local name' % d)
        if d.startswith('np.'):
            self.need_np(e)

        def one(kinds, allow_kw=()):
            if len(args) != 1 or set(kws) - set(allow_kw):
                fail(e, '%s arguments' % d)
            x = self.expr(args[0], env)
            if x.kind not in kinds:
                fail(e, '%s of a %s' % (d, x.kind))
            return x
        if d == 'np.array':
            x = one(('V', 'IV'), ('dtype',))
            if 'dtype' in kws and not (isinstance(kws['dtype'], ast.Name) and kws['dtype'].id == 'float' and 'float' not in env):
                fail(e, 'np.array dtype')
            return Val(x.kind, x.term)                       # a copy: the value, not owned by name
        if d == 'len':
            x = one(('V', 'IV'))
            return Val('I', 'Z.of_nat (length %s)' % par(x.term))
        if d == 'int':
            if len(args) != 1 or kws:
                fail(e, 'int arguments')
            a = args[0]
            if (isinstance(a, ast.Call) and dotted(a.func) == 'np.floor' and len(a.args) == 1 and not a.keywords
                    and isinstance(a.args[0], ast.BinOp) and isinstance(a.args[0].op, ast.Div)):
                self.need_np(e)
                num, k = self.expr(a.args[0].left, env), int_lit(a.args[0].right)
                if num.kind != 'I' or k is None or k < 1:
                    fail(e, 'int(np.floor(a / k)) with a not an int or k not a positive int literal')
                return Val('I', 'Z.div %s %s' % (par(num.term), zlit(k)))
            x = self.expr(a, env)
            if x.kind != 'I':
                fail(e, 'int() of a %s' % x.kind)
            return x
        if d in ('min', 'max', 'np.min', 'np.max'):
            x = one(('V',))
            return Val('S', 'a%s %s' % (d[-3:], par(x.term)))
        if d == 'np.mean':
            return Val('S', 'np_mean %s' % par(one(('V',)).term))
        if d == 'np.sum':
            if len(args) != 1 or set(kws) - {'axis'}:
                fail(e, 'np.sum arguments')
            x = self.expr(args[0], env)
            if x.kind == 'V' and not kws:
                return Val('S', 'nsum %s' % par(x.term))
            if x.kind == 'M' and 'axis' in kws and int_lit(kws['axis']) == 1:
                return Val('V', 'map nsum %s' % par(x.term), owned=True)
            fail(e, 'np.sum other than np.sum(1-d) / np.sum(2-d, axis=1)')
        if d in ('abs', 'np.abs'):
            x = one(('S', 'V', 'M', 'I'))
            x = tofloat(x)
            if x.kind == 'S':
                return Val('S', 'nabs %s' % par(x.term))
            if x.kind == 'V':
                return Val('V', 'map nabs %s' % par(x.term), owned=True)
            return Val('M', 'map (map nabs) %s' % par(x.term), owned=True)
        if d in ('np.tril', 'np.triu'):
            if len(args) != 1 or set(kws) - {'k'}:
                fail(e, '%s arguments' % d)
            x = self.expr(args[0], env)
            k = int_lit(kws['k']) if 'k' in kws else 0
            if x.kind != 'V' or k is None:
                fail(e, '%s of a %s / k not an int literal' % (d, x.kind))
            return Val('M', '%s %s %s' % (d.replace('.', '_'), zlit(k), par(x.term)), owned=True)
        if d == 'np.arange':
            if kws or not 1 <= len(args) <= 3:
                fail(e, 'np.arange arguments')
            if len(args) == 3 and int_lit(args[2]) != -1:
                fail(e, 'np.arange step other than -1')
            xs = [self.expr(a, env) for a in args[:2]]
            if any(x.kind != 'I' for x in xs):
                fail(e, 'np.arange of non-ints')
            if len(args) == 1:
                return Val('IV', 'arange_up 0%%Z %s' % par(xs[0].term), owned=True)
            return Val('IV', '%s %s %s' % ('arange_down' if len(args) == 3 else 'arange_up', par(xs[0].term), par(xs[1].term)), owned=True)
        if d in ('np.ones', 'np.zeros'):
            x = one(('I',))
            return Val('V', 'repeat %s (Z.to_nat %s)' % ('n1' if d == 'np.ones' else 'n0', par(x.term)), owned=True)
        if d == 'np.ones_like':
            x = one(('V',))
            return Val('V', 'map (fun _ => n1) %s' % par(x.term), owned=True)
        if d == 'np.concatenate':
            if len(args) != 1 or kws or not isinstance(args[0], ast.List) or not args[0].elts:
                fail(e, 'np.concatenate other than of a list display')
            xs = [self.expr(a, env) for a in args[0].elts]
            if any(x.kind != 'V' for x in xs):
                fail(e, 'np.concatenate of non-arrays')
            return Val('V', ' ++ '.join(par(x.term) for x in xs), owned=True)
        if d == 'np.cumsum':
            x = one(('V',), ('dtype',))
            if 'dtype' in kws and not (isinstance(kws['dtype'], ast.Name) and kws['dtype'].id == 'float' and 'float' not in env):
                fail(e, 'np.cumsum dtype')
            return Val('V', 'cumsum %s' % par(x.term), owned=True)
        if d == 'np.where':
            if len(args) != 3 or kws:
                fail(e, 'np.where other than np.where(test, scalar, array)')
            c, s, v = self.expr(args[0], env), tofloat(self.expr(args[1], env)), self.expr(args[2], env)
            if (c.kind, s.kind, v.kind) != ('BV', 'S', 'V'):
                fail(e, 'np.where(%s, %s, %s)' % (c.kind, s.kind, v.kind))
            return Val('V', 'map2 (fun (c : bool) e => if c then %s else e) %s %s' % (s.term, par(c.term), par(v.term)), owned=True)
        if d == 'np.argmin':
            return Val('I', 'Z.of_nat (np_argmin %s)' % par(one(('V',)).term))
        if d == 'np.searchsorted':
            if len(args) != 2 or set(kws) != {'side'} or not (isinstance(kws['side'], ast.Constant) and kws['side'].value == 'right'):
                fail(e, "np.searchsorted other than (nodes, queries, side='right')")
            x, q = self.expr(args[0], env), self.expr(args[1], env)
            if x.kind != 'V' or q.kind != 'V':
                fail(e, 'np.searchsorted operands')
            return Val('IV', 'map (fun x => Z.of_nat (searchsorted_right %s x)) %s' % (par(x.term), par(q.term)), owned=True)
        if isinstance(e.func, ast.Name) and e.func.id in self.specs:
            return self.gen_call(e, env)
        fail(e, 'call of %s' % d)

    def gen_call(self, e, env):
        """g(args) with g another translated function of this module -> gen_g, constant defaults filled in"""
        spec = self.specs[e.func.id]
        fn = self.m.func(e.func.id, e)
        names = [a.arg for a in fn.args.args]
        if names != [p[0] for p in spec['params']]:
            fail(e, 'signature of %s' % e.func.id)
        kws = self.kwargs(e)
        if len(e.args) > len(names) or set(kws) - set(names[len(e.args):]):
            fail(e, 'call arguments')
        given = dict(zip(names, e.args))
        given.update(kws)
        defaults = dict(zip(names[len(names) - len(fn.args.defaults):], fn.args.defaults))
        out = []
        for n, kind, _ in spec['params']:
            if n in given:
                x = self.expr(given[n], env)
                if kind in ('V', 'I', 'S') and x.kind == kind:
                    out.append(par(x.term))
                elif kind == 'OPTI' and x.kind == 'I':
                    out.append('(Some %s)' % par(x.term))
                else:
                    fail(e, 'argument %s of kind %s where %s is expected' % (n, x.kind, kind))
            elif n in defaults:
                out.append(default_term(defaults[n], kind))
            else:
                fail(e, 'missing argument %s' % n)
        ret = spec['ret']
        if ret not in ('V', 'S'):
            fail(e, 'call of a function that returns a %s' % ret)
        return Val(ret, '%s %s' % (spec['gen'], ' '.join(out)), owned=True)

    # ------------------------------------------------------------ statements
    def cond(self, t, env):
        if isinstance(t, ast.Name) and t.id in env and env[t.id].kind == 'PB':
            return Static(env[t.id].value)
        if (isinstance(t, ast.UnaryOp) and isinstance(t.op, ast.Not) and isinstance(t.operand, ast.Call)
                and dotted(t.operand.func) == 'hasattr' and 'hasattr' not in env and len(t.operand.args) == 2 and not t.operand.keywords
                and isinstance(t.operand.args[0], ast.Name) and isinstance(t.operand.args[1], ast.Constant)
                and t.operand.args[1].value == '__len__'):
            v = env.get(t.operand.args[0].id)
            if v is None or v.kind not in ('V', 'S') or not v.param:
                fail(t, 'hasattr test on something other than an array / number parameter')
            return Static(v.kind == 'S')
        if isinstance(t, ast.Compare) and len(t.ops) == 1 and isinstance(t.left, ast.Name) and t.left.id in env:
            v, c = env[t.left.id], t.comparators[0]
            if isinstance(t.ops[0], ast.Eq) and v.kind in ('STR', 'OSTR') and isinstance(c, ast.Constant) and isinstance(c.value, str):
                if not c.value.replace('_', 'a').isalnum():
                    fail(t, 'string literal %r' % c.value)
                return StrEq('%s %s "%s"%%string' % ('String.eqb' if v.kind == 'STR' else 'opt_str_eqb', v.term, c.value))
            if isinstance(t.ops[0], ast.Is) and v.kind in PAYLOAD and isinstance(c, ast.Constant) and c.value is None:
                return IsNone(t.left.id, v.term, v.kind)
        fail(t, 'condition')

    def assign(self, name, val, env, items, node):
        if name in base.RESERVED or name in BUILTINS or name == 'float':
            fail(node, 'assignment to %s' % name)
        old = env.get(name)
        if old is not None and old.kind in ('STR', 'OSTR'):
            fail(node, 'assignment to the str parameter %s' % name)
        if val.kind == 'PB':
            env[name] = Val('PB', None, value=val.value)
            return
        if val.kind not in ('I', 'S', 'V', 'IV', 'M', 'BV'):
            fail(node, 'assignment of a %s' % val.kind)
        if is_ident(val.term):
            nv = Val(val.kind, val.term, owned=False)
        else:
            t = self.fresh()
            items.append(('let', t, val.term))
            nv = Val(val.kind, t, owned=val.owned)
        nv.param = getattr(val, 'param', False) and is_ident(val.term)
        env[name] = nv

    def block(self, stmts, env, items, top):
        """-> the returned Val / pair of Vals, or None when control falls off the end"""
        stmts = list(stmts)
        while stmts:
            s = stmts.pop(0)
            if isinstance(s, ast.Expr) and isinstance(s.value, ast.Constant) and isinstance(s.value.value, str):
                continue
            if isinstance(s, ast.Assign):
                if len(s.targets) != 1:
                    fail(s, 'multiple assignment')
                t = s.targets[0]
                if isinstance(t, ast.Name):
                    if isinstance(s.value, (ast.Name, ast.Subscript)):
                        v0 = self.expr(s.value, env)
                        if v0.kind in ('V', 'IV', 'M') and (isinstance(s.value, ast.Name) or isinstance(getattr(s.value, 'slice', None), ast.Slice)):
                            fail(s, 'a second name for an array / a slice view')
                        self.assign(t.id, v0, env, items, s)
                    else:
                        self.assign(t.id, self.expr(s.value, env), env, items, s)
                    continue
                if isinstance(t, ast.Subscript) and isinstance(t.value, ast.Name):
                    z = env.get(t.value.id)
                    if z is None or z.kind != 'V' or not z.owned:
                        fail(s, 'in-place assignment to something this function did not allocate')
                    sl = t.slice
                    if isinstance(sl, ast.Index):
                        sl = sl.value
                    val = self.expr(s.value, env)
                    if isinstance(sl, ast.Slice) and sl.step is None and sl.upper is None and sl.lower is not None and val.kind == 'V':
                        term = 'set_from %s %s %s' % (self.bound(sl.lower, env, 'slice bound'), z.term, par(val.term))
                    elif isinstance(sl, ast.Slice) and sl.step is None and sl.lower is None and int_lit(sl.upper) == -1 and val.kind == 'V':
                        term = 'set_upto_last %s %s' % (z.term, par(val.term))
                    elif int_lit(sl) == -1 and tofloat(val).kind == 'S':
                        term = 'set_last %s %s' % (z.term, par(tofloat(val).term))
                    else:
                        fail(s, 'in-place assignment other than z[k:] = array, z[:-1] = array, z[-1] = scalar')
                    self.assign(t.value.id, Val('V', term, owned=True), env, items, s)
                    continue
                fail(s, 'assignment target')
            if isinstance(s, ast.If):
                c = self.cond(s.test, env)
                if isinstance(c, Static):
                    stmts = list(s.body if c.value else s.orelse) + stmts
                    continue
                if any(isinstance(n, (ast.Return, ast.Assert)) for b in (s.body, s.orelse) for st in b for n in ast.walk(st)):
                    fail(s, 'return / assert under a non-static condition')
                self.merge(s, c, env, items)
                continue
            if isinstance(s, ast.Assert):
                if not top:
                    fail(s, 'assert inside a branch')
                b = self.expr(s.test, env)
                if b.kind != 'B':
                    fail(s, 'assert of a %s' % b.kind)
                items.append(('assert', None, b.term))
                self.has_assert = True
                continue
            if isinstance(s, ast.Return):
                if s.value is None:
                    fail(s, 'bare return')
                if isinstance(s.value, ast.Tuple):
                    return [self.expr(x, env) for x in s.value.elts]
                return self.expr(s.value, env)
            fail(s, 'statement %s' % type(s).__name__)
        return None

    def merge(self, s, c, env, items):
        branches = []
        for taken, body in ((True, s.body), (False, s.orelse)):
            e2 = dict(env)
            if isinstance(c, IsNone):
                kind, pname = PAYLOAD[c.kind]
                e2[c.pyname] = Val('NONE', None) if taken else Val(kind, pname)
            it2 = []
            if self.block(body, e2, it2, top=False) is not None:
                fail(s, 'internal: branch returned')
            branches.append((e2, it2))
        (et, it), (ee, ie) = branches
        # names (re)bound in a branch, in the order of their first store in the source text
        order = []
        for n in ast.walk(s):
            tgt = None
            if isinstance(n, ast.Name) and isinstance(n.ctx, ast.Store):
                tgt = n.id
            elif isinstance(n, ast.Subscript) and isinstance(n.ctx, ast.Store) and isinstance(n.value, ast.Name):
                tgt = n.value.id
            if tgt is not None:
                order.append((n.lineno, n.col_offset, tgt))
        seen = []
        for _, _, n in sorted(order):
            if n not in seen:
                seen.append(n)
        for n in seen:
            a, b = et.get(n), ee.get(n)
            if a is None or b is None or a.kind == 'NONE' or b.kind == 'NONE':
                env.pop(n, None)
                continue
            if a.kind == 'PB' or b.kind == 'PB':
                fail(s, 'a Python bool assigned under a non-static condition')
            if a.kind != b.kind:
                a, b = tofloat(a), tofloat(b)
            if a.kind != b.kind or a.kind not in ('I', 'S', 'V', 'IV'):
                fail(s, '%s has kinds %s / %s after the branches' % (n, a.kind, b.kind))
            t = self.fresh()
            items.append(('let', t, c.wrap(local_lets(it, a.term), local_lets(ie, b.term))))
            env[n] = Val(a.kind, t, owned=a.owned and b.owned)


def default_term(node, kind):
    if not isinstance(node, ast.Constant):
        fail(node, 'default that is not a constant')
    v = node.value
    if kind == 'I' and type(v) is int:
        return zlit(v)
    if kind == 'STR' and isinstance(v, str) and v.isalnum():
        return '"%s"%%string' % v
    if kind == 'OSTR' and (v is None or (isinstance(v, str) and v.isalnum())):
        return 'None' if v is None else '(Some "%s"%%string)' % v
    if kind in PAYLOAD and v is None:
        return 'None'
    fail(node, 'default %r for a %s parameter' % (v, kind))


def render_top(items, final, ind=2):
    sp = ' ' * ind
    if not items:
        return sp + final
    k, n, t = items[0]
    if k == 'let':
        return '%slet %s := %s in\n%s' % (sp, n, t, render_top(items[1:], final, ind))
    return '%sif %s then\n%s\n%selse None' % (sp, t, render_top(items[1:], final, ind + 2), sp)


def translate_function(module, spec, specs):
    fn = module.func(spec['func'])
    names = [a.arg for a in fn.args.args]
    if names != [p[0] for p in spec['params']]:
        raise Unsupported('%s: parameters are %r, expected %r' % (spec['func'], names, [p[0] for p in spec['params']]))
    ctx = HCtx(module, spec, specs)
    env = {}
    for n, kind, cn in spec['params']:
        if n in base.RESERVED or n in BUILTINS or cn in LAMBDA or cn.startswith('t') and cn[1:].isdigit():
            raise Unsupported('parameter named %s' % n)
        env[n] = Val(kind, cn)
        env[n].param = True
    items = []
    r = ctx.block(list(fn.body), env, items, top=True)
    if r is None:
        raise Unsupported('control reaches the end of %s without a return' % spec['func'])
    ret = spec['ret']
    if ret == 'SS':
        if not (isinstance(r, list) and len(r) == 2 and all(tofloat(x).kind == 'S' for x in r)):
            raise Unsupported('%s: result is not a pair of scalars' % spec['func'])
        final = '(%s, %s)' % (tofloat(r[0]).term, tofloat(r[1]).term)
    else:
        if isinstance(r, list) or tofloat(r).kind != ret:
            raise Unsupported('%s: result kind differs from the expected %s' % (spec['func'], ret))
        final = tofloat(r).term
    ty = COQ_TYPES[ret]
    if ctx.has_assert:
        final, ty = 'Some %s' % par(final), 'option (%s)' % ty
    sig = ' '.join('(%s : %s)' % (cn, COQ_TYPES[k]) for _, k, cn in spec['params'])
    pysig = ast.unparse(fn.args) if hasattr(ast, 'unparse') else ', '.join(names)
    text = '(** %s: %s(%s)%s *)\nDefinition %s %s : %s :=\n%s.\n' % (
        spec['file'], spec['func'], pysig, ' -- x0 a number' if spec.get('variant') else '', spec['gen'], sig, ty, render_top(items, final))
    consts = []
    if not spec.get('variant'):
        defaults = dict(zip(names[len(names) - len(fn.args.defaults):], fn.args.defaults))
        for n, kind, _ in spec['params']:
            if n in defaults:
                if kind == 'OPTV':
                    if not (isinstance(defaults[n], ast.Constant) and defaults[n].value is None):
                        fail(defaults[n], 'default of %s is not None' % n)
                    consts.append('Definition %s_default_%s_is_none : bool := true.\n' % (spec['gen'], n))
                else:
                    consts.append('Definition %s_default_%s : %s := %s.\n' % (spec['gen'], n, COQ_TYPES[kind], default_term(defaults[n], kind)))
    return text, consts


HEADER = '''(** GENERATED by translator/py2coq_helpers.py from eqsig/fns/average.py and eqsig/fns/generic.py -- do not edit;
    rewritten on every run.  One definition per source function, generic over [NumOps T]; every assignment of the source is
    one [let tK] (K = its position in the text), an [if] without return binds the names it changes to [if c then .. else ..],
    an [assert c] is [if c then .. else None] (None = the call raises).  Python ints are Z (sizes / slice bounds through
    Z.to_nat), [v[0]] / [v[-1]] are [hd n0 v] / [last v n0] (IndexError on an empty array = the guard of the theorems), a
    str-or-None parameter is an [option string], an array-or-None / int-or-None parameter an option.  The numpy readings are
    in lib/NpList.v and lib/NpHelpers.v.  proofs/P_gen_helpers.v proves every definition equal to the model of
    model/M_helpers.v. *)
From Coq Require Import String.
From Coq Require Import ZArith List Bool.
From EQ Require Import lib.Num lib.NpList lib.NpHelpers.
Import ListNotations.
Local Open Scope num_scope.

Section Generic.
Context {T : Type} `{NumOps T}.
'''


def translate_sources(read):
    """read(relative path) -> source text"""
    mods, defs, consts = {}, [], []
    for spec in SPECS:
        if spec['file'] not in mods:
            m = base.Module(spec['file'], read(spec['file']))
            for b in BUILTINS + ('float',):
                if not builtin_untouched(m, b):
                    raise Unsupported('%s: the module binds %s' % (spec['file'], b))
            mods[spec['file']] = m
        specs = {s['func']: s for s in SPECS if s['file'] == spec['file'] and not s.get('variant')}
        try:
            text, extra = translate_function(mods[spec['file']], spec, specs)
        except Unsupported as e:
            raise Unsupported('%s:%s: %s' % (spec['file'], spec['func'], e))
        defs.append(text)
        consts.extend(extra)
    return HEADER + '\n' + '\n'.join(defs) + 'End Generic.\n\n' + ''.join(consts)


def regenerate(repo=None, out=None):
    """returns True iff the file was rewritten; raises Unsupported / OSError / SyntaxError (fail closed).
    On failure the committed copy is left as it is: the caller reports the broken tie."""
    repo = repo or os.environ.get('EQSIG_REPO', '/repo')
    out = out or OUT
    text = translate_sources(lambda rel: open(os.path.join(repo, rel)).read())
    old = open(out).read() if os.path.exists(out) else None
    if old != text:
        os.makedirs(os.path.dirname(out), exist_ok=True)
        tmp = '%s.%d.tmp' % (out, os.getpid())
        with open(tmp, 'w') as f:
            f.write(text)
        os.replace(tmp, out)
        return True
    return False


def main():
    try:
        ch = regenerate(repo=sys.argv[1] if len(sys.argv) > 1 else None)
    except Exception as e:  # fail closed
        print('py2coq_helpers: translation FAILED: %s: %s' % (type(e).__name__, e))
        return 1
    print('py2coq_helpers: %s %s' % (os.path.relpath(OUT, VERIF), 'rewritten' if ch else 'unchanged'))
    return 0


if __name__ == '__main__':
    sys.exit(main())
