#!/venv/bin/python
"""Fail-closed translator of the eqsig file format statements (property C16)  ->  coq/gen/Gen_c16.v

    eqsig/loader.py  save_values_and_dt(ffp, values, dt, label)   -> gen_save_values_and_dt   (the text written to ffp)
                     save_signal(ffp, signal)                     -> gen_save_signal          (the text written to ffp)
                     load_values_and_dt(ffp)                      -> gen_load_values_and_dt   (t = the text of the file ffp)
                     load_signal(ffp, astype='sig')               -> gen_load_signal  + gen_load_signal_default_astype
                     load_sig(ffp, m=1.0)                         -> gen_load_sig     + gen_load_sig_default_m
                     load_asig(ffp, load_label=False, m=1.0)      -> gen_load_asig    + gen_load_asig_default_load_label / _m
    eqsig/single.py  Signal.__init__ / AccSignal.__init__: only the positional order (values, dt, label) and the default of
                     `label` are read (the label a constructor call without label= gives the object)

NOT translated (Section variables of the generated file; proofs/P_gen_c16.v instantiates them with the model's readers or
takes their contract as a hypothesis): np.genfromtxt (genfromtxt t skip_header delimiter names usecols : gft_res),
str.splitlines() (str_splitlines), str.split() (str_split), float(str) (float_of_str; None = ValueError) and the binary64
product of `array * float` (fmul).  What IS translated is everything around them: the format literals and the order of their
operands, the order of the lines, the separator of the join, what is written to the file, which file text the readers see, the
keyword arguments of genfromtxt and the try / except TypeError fallback, the line and token indices of dt, the unpacking order of
(values, dt), the product with m and its operand order, the label branch, the string comparisons of astype, the class that is
constructed and its arguments.

values (kinds): STR text | LSTR list of text (a list built in the function may be appended to) | NAT len() | FL a float that is
    formatted (sign bit, value) | AFL the array of them | IDX the variable of `for i in range(len(<AFL>))` | OBJW the `signal`
    argument | Q a float read from the file / the factor m | BOOL | SA what genfromtxt returns (unknown dtype, 0-d or 1-d)
    | FA01 the same as float | FA1 a 1-d float array | TUPLE | OBJ a constructed Signal / AccSignal | FR / FW file handles
expressions : string literals; "<fmt>" % x and "<fmt>" % (x, ...) with fmt made of text, %i / %d (operand: len(...)) and
    %.<d>f (operand: FL);  [STR, ...];  len(AFL);  AFL[i] with the loop variable;  signal.values / .dt / .label;
    "<sep>".join(LSTR);  <FR>.read() (once per handle);  STR.splitlines();  STR.split();  LSTR[k] with a literal k >= 0
    (may raise: bound);  float(STR) (may raise: bound);  np.genfromtxt(ffp, skip_header=k, delimiter="..", [names=True,]
    usecols=k);  SA.astype(float);  np.atleast_1d(FA01);  FA1 * Q;  STR == "literal";  load_values_and_dt(ffp) (may raise:
    bound to a pair);  Signal(FA1, Q[, label=STR]) / AccSignal(...)
statements  : docstring;  name = e;  a, b = <pair>;  `for i in range(len(v)): l.append(e)`;  f = open(ffp, "w") / f.write(STR)
    (exactly once) / f.close();  f = open(ffp) ... f.close();  `with open(ffp) as f:`;  `try: x = np.genfromtxt(..)
    except TypeError: x = np.genfromtxt(..)`;  if / elif / else on a BOOL;  save_values_and_dt(ffp, AFL, FL, STR) as a
    statement;  return e.  A function registered as returning an object-or-None may fall off its end (Python None).
Local assignments are substituted into their uses and bound values get canonical names v1, v2, ... in order of evaluation, so a
renamed temporary gives the same text.  Anything outside the whitelist raises `Unsupported`.
"""
import ast, copy, os, re, sys
from fractions import Fraction

HERE = os.path.dirname(os.path.abspath(__file__))
sys.path.insert(0, HERE)
from py2coq_numpy import Unsupported, fail, dotted                     # noqa: E402
from py2coq_durations import builtin_untouched                        # noqa: E402
from py2coq_c06 import par, find_function                             # noqa: E402

VERIF = os.path.dirname(HERE)
OUT = os.path.join(VERIF, 'coq', 'gen', 'Gen_c16.v')
SRC = 'eqsig/loader.py'
SRC_CLS = 'eqsig/single.py'
CLASSES = ('Signal', 'AccSignal')
BUILTINS = ('open', 'float', 'len', 'range', 'TypeError')
SECTION_VARS = ['genfromtxt', 'str_splitlines', 'str_split', 'float_of_str', 'fmul']
CANON = {'t', 'acc', 'i', 'y'}

# function, generated name, python parameters -> kind, binders, kind returned, Coq type, defaults, module functions it may call
SPECS = [
    dict(func='save_values_and_dt', gen='gen_save_values_and_dt',
         params=[('ffp', 'PATH'), ('values', 'AFL'), ('dt', 'FL'), ('label', 'STR')],
         binders=[('values', 'list fl'), ('dt', 'fl'), ('label', 'text')], ret='WRITES', rtype='text', defaults=[], calls=(), sect=False),
    dict(func='save_signal', gen='gen_save_signal', params=[('ffp', 'PATH'), ('signal', 'OBJW')],
         binders=[('signal', 'sigobj')], ret='WRITES', rtype='text', defaults=[], calls=('save_values_and_dt',), sect=False),
    dict(func='load_values_and_dt', gen='gen_load_values_and_dt', params=[('ffp', 'PATH')],
         binders=[('t', 'text')], ret='PAIR', rtype='option (list Q * Q)', defaults=[], calls=(), sect=True),
    dict(func='load_signal', gen='gen_load_signal', params=[('ffp', 'PATH'), ('astype', 'STR')],
         binders=[('t', 'text'), ('astype', 'text')], ret='OPTOBJ', rtype='option (option pyobj)', defaults=[('astype', 'STR')],
         calls=('load_values_and_dt',), sect=True),
    dict(func='load_sig', gen='gen_load_sig', params=[('ffp', 'PATH'), ('m', 'Q')],
         binders=[('t', 'text'), ('m', 'Q')], ret='OBJ', rtype='option pyobj', defaults=[('m', 'Q')],
         calls=('load_values_and_dt',), sect=True),
    dict(func='load_asig', gen='gen_load_asig', params=[('ffp', 'PATH'), ('load_label', 'BOOL'), ('m', 'Q')],
         binders=[('t', 'text'), ('load_label', 'bool'), ('m', 'Q')], ret='OBJ', rtype='option pyobj',
         defaults=[('load_label', 'BOOL'), ('m', 'Q')], calls=('load_values_and_dt',), sect=True),
]
FUNCS = [sp['func'] for sp in SPECS]
RESERVED = {'np', 'numpy', 'True', 'False', 'None'} | set(BUILTINS) | set(CLASSES) | set(FUNCS)
DEFAULT_TYPES = {'STR': 'text', 'Q': 'Q', 'BOOL': 'bool'}


class Val:
    def __init__(self, kind, t=None, items=None, owned=False, state=None, of=None):
        self.kind, self.t, self.items, self.owned, self.state, self.of = kind, t, items, owned, state, of


# ---------------------------------------------------------------- literals
def coq_text(s):
    """Coq term of type [text] for a Python str literal (ASCII only)"""
    if not all(ord(c) < 128 for c in s):
        raise Unsupported('non-ASCII string literal %r' % s)
    runs = []
    for c in s:
        printable = 32 <= ord(c) < 127
        if runs and runs[-1][0] == printable:
            runs[-1][1].append(c)
        else:
            runs.append((printable, [c]))
    pieces = []
    for printable, cs in runs:
        if printable:
            pieces.append('txt "%s"' % ''.join(cs).replace('"', '""'))
        else:
            pieces.append('[%s]' % '; '.join('"%03d"%%char' % ord(c) for c in cs))
    if not pieces:
        return 'txt ""'
    return ' ++ '.join(pieces)


def q_lit(x):
    fr = Fraction(x)
    if fr.denominator == 1:
        return '%d%%Q' % fr.numerator if fr.numerator >= 0 else '(%d)%%Q' % fr.numerator
    return '(%d # %d)%%Q' % (fr.numerator, fr.denominator)


FMT = re.compile(r'%(?:(i|d)|\.(\d+)f|(%))')


def parse_format(node, s):
    """pieces of a %-format literal: ('lit', text) | ('int',) | ('fix', d); anything else is unsupported"""
    pieces, pos = [], 0

    def lit(x):
        if '%' in x:
            fail(node, 'format directive outside %%i, %%d, %%.<d>f in %r' % s)
        if x:
            if pieces and pieces[-1][0] == 'lit':
                pieces[-1] = ('lit', pieces[-1][1] + x)
            else:
                pieces.append(('lit', x))
    for m in FMT.finditer(s):
        lit(s[pos:m.start()])
        pos = m.end()
        if m.group(1):
            pieces.append(('int',))
        elif m.group(2) is not None:
            if len(m.group(2)) > 2:
                fail(node, 'precision of %r' % s)
            pieces.append(('fix', int(m.group(2))))
        else:
            lit_pct = '%'
            if pieces and pieces[-1][0] == 'lit':
                pieces[-1] = ('lit', pieces[-1][1] + lit_pct)
            else:
                pieces.append(('lit', lit_pct))
    lit(s[pos:])
    return pieces


# ---------------------------------------------------------------- module-level checks
def check_module16(tree):
    np_ok = False
    cls_ok = set()
    for st in tree.body:
        if isinstance(st, ast.Import):
            for al in st.names:
                bound = al.asname or al.name.split('.')[0]
                if bound == 'np':
                    if al.name != 'numpy':
                        fail(st, 'np is bound to %s' % al.name)
                    np_ok = True
        elif isinstance(st, ast.ImportFrom):
            for al in st.names:
                bound = al.asname or al.name
                if al.name == '*' or bound == 'np':
                    fail(st, 'module binds %s' % bound)
                if bound in CLASSES:
                    if st.module != 'eqsig.single' or st.level or al.name != bound:
                        fail(st, '%s is not eqsig.single.%s' % (bound, bound))
                    cls_ok.add(bound)
        elif isinstance(st, (ast.FunctionDef, ast.ClassDef)):
            if st.name == 'np':
                fail(st, 'module defines np')
    if not np_ok:
        raise Unsupported('np is not `import numpy as np`')

    class M:
        pass
    m = M()
    m.tree = tree
    for b in BUILTINS:
        if not builtin_untouched(m, b):
            raise Unsupported('the module binds %s' % b)

    def sites(name):
        k = 0
        for n in ast.walk(tree):
            if isinstance(n, (ast.FunctionDef, ast.ClassDef, ast.AsyncFunctionDef)) and n.name == name:
                k += 1
            elif isinstance(n, ast.Name) and isinstance(n.ctx, (ast.Store, ast.Del)) and n.id == name:
                k += 1
            elif isinstance(n, (ast.Import, ast.ImportFrom)):
                for al in n.names:
                    if (al.asname or al.name.split('.')[0]) == name or al.name == '*':
                        k += 1
            elif isinstance(n, (ast.Global, ast.Nonlocal)) and name in n.names:
                k += 1
            elif isinstance(n, ast.arg) and n.arg == name:
                k += 1
        return k
    for name in FUNCS:
        top = [s for s in tree.body if isinstance(s, ast.FunctionDef) and s.name == name]
        if sites(name) != 1 or len(top) != 1:
            raise Unsupported('%s is not bound exactly once by a top-level def' % name)
    for name in CLASSES + ('np',):
        if sites(name) != 1 or (name in CLASSES and name not in cls_ok):
            raise Unsupported('%s is not bound exactly once by the top-level import' % name)


def class_label_defaults(tree):
    """eqsig/single.py: {class: default of the constructor's `label`}; the constructors take (values, dt, label, ...), Signal
    stores `self.label = label`, AccSignal hands `label=label` to Signal.__init__"""
    out = {}
    for cname in CLASSES:
        cl = [s for s in tree.body if isinstance(s, ast.ClassDef) and s.name == cname]
        if len(cl) != 1 or cl[0].decorator_list or cl[0].keywords:
            raise Unsupported('class %s not found exactly once' % cname)
        cl = cl[0]
        bases = [b.id if isinstance(b, ast.Name) else None for b in cl.bases]
        if bases != (['object'] if cname == 'Signal' else ['Signal']):
            raise Unsupported('bases of %s' % cname)
        for n in ast.walk(cl):
            if isinstance(n, ast.FunctionDef) and n.name in ('label', '__setattr__', '__new__', '__init_subclass__'):
                fail(n, '%s defines %s' % (cname, n.name))
            if isinstance(n, ast.Name) and isinstance(n.ctx, ast.Store) and n.id in ('label', '__init__') and not _inside_init(cl, n):
                fail(n, '%s binds %s in its body' % (cname, n.id))
        init = [s for s in cl.body if isinstance(s, ast.FunctionDef) and s.name == '__init__']
        if len(init) != 1 or init[0].decorator_list:
            raise Unsupported('%s.__init__ not found exactly once' % cname)
        init = init[0]
        a = init.args
        if a.vararg or a.kwarg or a.kwonlyargs or getattr(a, 'posonlyargs', []):
            fail(init, '%s.__init__: unsupported signature' % cname)
        names = [x.arg for x in a.args]
        if names[:4] != ['self', 'values', 'dt', 'label']:
            fail(init, '%s.__init__ parameters start with %r' % (cname, names[:4]))
        k = 3 - (len(names) - len(a.defaults))
        if k < 0:
            fail(init, '%s.__init__: label has no default' % cname)
        d = a.defaults[k]
        if not (isinstance(d, ast.Constant) and type(d.value) is str):
            fail(init, '%s.__init__: the default of label is not a string literal' % cname)
        for n in ast.walk(init):
            if isinstance(n, ast.Name) and isinstance(n.ctx, (ast.Store, ast.Del)) and n.id in ('label', 'self', 'super'):
                fail(n, '%s.__init__ re-binds %s' % (cname, n.id))
        stores = [n for n in ast.walk(init) if isinstance(n, ast.Attribute) and isinstance(n.ctx, (ast.Store, ast.Del))
                  and n.attr == 'label']
        if cname == 'Signal':
            ok = [s for s in init.body if isinstance(s, ast.Assign) and len(s.targets) == 1 and s.targets[0] in stores
                  and isinstance(s.targets[0].value, ast.Name) and s.targets[0].value.id == 'self'
                  and isinstance(s.value, ast.Name) and s.value.id == 'label']
            if len(stores) != 1 or len(ok) != 1:
                fail(init, 'Signal.__init__ does not contain exactly `self.label = label`')
        else:
            if stores:
                fail(init, 'AccSignal.__init__ assigns .label')
            sup = []
            for s in init.body:
                c = s.value if isinstance(s, ast.Expr) else None
                if isinstance(c, ast.Call) and isinstance(c.func, ast.Attribute) and c.func.attr == '__init__' \
                        and isinstance(c.func.value, ast.Call) and isinstance(c.func.value.func, ast.Name) and c.func.value.func.id == 'super':
                    sup.append(c)
            if len(sup) != 1:
                fail(init, 'AccSignal.__init__ does not call super().__init__ exactly once')
            c = sup[0]
            kws = {k.arg: k.value for k in c.keywords}
            if not (len(c.args) >= 2 and all(isinstance(x, ast.Name) for x in c.args[:2]) and [x.id for x in c.args[:2]] == ['values', 'dt']
                    and len(c.args) == 2 and isinstance(kws.get('label'), ast.Name) and kws['label'].id == 'label'):
                fail(c, 'AccSignal.__init__: super().__init__(values, dt, label=label, ...) expected')
        out[cname] = d.value
    return out


def _inside_init(cl, node):
    for s in cl.body:
        if isinstance(s, ast.FunctionDef):
            if any(n is node for n in ast.walk(s)):
                return True
    return False


# ---------------------------------------------------------------- one function
class CloseMarker:
    def __init__(self, name, node):
        self.name, self.lineno = name, getattr(node, 'lineno', '?')


class Ctx16:
    def __init__(self, spec, labels):
        self.spec, self.labels = spec, labels
        self.n = 0
        self.pending = []
        self.ffp = spec['params'][0][0]
        self.effect = None                      # the text the function leaves in the file ffp

    # ------------------------------------------------------------ helpers
    def bind(self, node, term, kinds):
        """the evaluation of `term : option _` may raise: bind its value(s) to fresh canonical names"""
        names = []
        for _ in kinds:
            self.n += 1
            names.append('v%d' % self.n)
        pat = names[0] if len(names) == 1 else '(%s)' % ', '.join(names)
        self.pending.append((pat, term))
        vals = [Val(k, nm) for k, nm in zip(kinds, names)]
        return vals[0] if len(vals) == 1 else Val('TUPLE', items=vals)

    def is_ffp(self, e, env):
        return isinstance(e, ast.Name) and e.id == self.ffp and env.get(e.id) is not None and env[e.id].kind == 'PATH'

    def pure(self, node, f):
        """evaluate with no bound (raising) sub-expression allowed"""
        saved, self.pending = self.pending, []
        v = f()
        if self.pending:
            fail(node, 'an expression that may raise inside a loop body')
        self.pending = saved
        return v

    # ------------------------------------------------------------ expressions
    def ev(self, e, env):
        if isinstance(e, ast.Constant):
            if type(e.value) is str:
                return Val('STR', coq_text(e.value), state=e.value)
            fail(e, 'literal %r' % (e.value,))
        if isinstance(e, ast.Name):
            v = env.get(e.id)
            if v is None:
                fail(e, 'unknown name %s' % e.id)
            if v.kind in ('PATH',):
                fail(e, 'the path %s used as a value' % e.id)
            return v
        if isinstance(e, ast.List):
            vs = [self.ev(x, env) for x in e.elts]
            if not vs or any(v.kind != 'STR' for v in vs):
                fail(e, 'list literal of %s' % [v.kind for v in vs])
            return Val('LSTR', '[%s]' % '; '.join(v.t for v in vs), owned=True)
        if isinstance(e, ast.Tuple):
            return Val('TUPLE', items=[self.ev(x, env) for x in e.elts])
        if isinstance(e, ast.BinOp):
            return self.binop(e, env)
        if isinstance(e, ast.Compare):
            if len(e.ops) != 1 or not isinstance(e.ops[0], ast.Eq):
                fail(e, 'comparison other than ==')
            x, y = self.ev(e.left, env), self.ev(e.comparators[0], env)
            if (x.kind, y.kind) != ('STR', 'STR'):
                fail(e, '== on %s, %s' % (x.kind, y.kind))
            return Val('BOOL', 'text_eqb %s %s' % (par(x.t), par(y.t)))
        if isinstance(e, ast.Subscript):
            return self.subscript(e, env)
        if isinstance(e, ast.Attribute):
            v = self.ev(e.value, env)
            if v.kind == 'OBJW' and e.attr in ('values', 'dt', 'label'):
                kind = {'values': 'AFL', 'dt': 'FL', 'label': 'STR'}[e.attr]
                return Val(kind, 's_%s %s' % (e.attr, par(v.t)))
            fail(e, 'attribute .%s of a %s' % (e.attr, v.kind))
        if isinstance(e, ast.Call):
            return self.call(e, env)
        fail(e, 'expression %s' % type(e).__name__)

    def binop(self, e, env):
        if isinstance(e.op, ast.Mod):
            if not (isinstance(e.left, ast.Constant) and type(e.left.value) is str):
                fail(e, '% whose left operand is not a string literal')
            pieces = parse_format(e, e.left.value)
            ops = list(e.right.elts) if isinstance(e.right, ast.Tuple) else [e.right]
            vals = [self.ev(x, env) for x in ops]
            nspec = sum(1 for p in pieces if p[0] != 'lit')
            if nspec != len(vals) or nspec == 0:
                fail(e, 'format %r with %d operand(s)' % (e.left.value, len(vals)))
            out = []
            for p in pieces:
                if p[0] == 'lit':
                    out.append(coq_text(p[1]))
                elif p[0] == 'int':
                    v = vals.pop(0)
                    if v.kind != 'NAT':
                        fail(e, '%%i of a %s' % v.kind)
                    out.append('dec_int (Z.of_nat %s)' % par(v.t))
                else:
                    v = vals.pop(0)
                    if v.kind != 'FL':
                        fail(e, '%%.%df of a %s' % (p[1], v.kind))
                    out.append('fmt_f %d %s' % (p[1], par(v.t)))
            return Val('STR', ' ++ '.join(out))
        if isinstance(e.op, ast.Mult):
            x, y = self.ev(e.left, env), self.ev(e.right, env)
            if (x.kind, y.kind) == ('FA1', 'Q'):
                return Val('FA1', 'map (fun y => fmul y %s) %s' % (par(y.t), par(x.t)))
            if (x.kind, y.kind) == ('Q', 'FA1'):
                return Val('FA1', 'map (fun y => fmul %s y) %s' % (par(x.t), par(y.t)))
            fail(e, '* on %s, %s' % (x.kind, y.kind))
        fail(e, 'operator %s' % type(e.op).__name__)

    def subscript(self, e, env):
        sl = e.slice
        if isinstance(sl, ast.Index):      # python < 3.9
            sl = sl.value
        x = self.ev(e.value, env)
        if x.kind == 'AFL':
            i = self.ev(sl, env) if isinstance(sl, ast.Name) else None
            if i is None or i.kind != 'IDX' or i.of != x.t:
                fail(e, 'array subscript other than the variable of `for .. in range(len(<that array>))`')
            return Val('FL', 'nth %s %s fl0' % (i.t, par(x.t)))
        if x.kind == 'LSTR':
            if not (isinstance(sl, ast.Constant) and type(sl.value) is int and 0 <= sl.value < 1000):
                fail(e, 'list subscript other than a literal k >= 0')
            return self.bind(e, 'nth_error %s %d' % (par(x.t), sl.value), ['STR'])
        fail(e, 'subscript of a %s' % x.kind)

    def call(self, e, env):
        args, kws = e.args, {k.arg: k.value for k in e.keywords}
        if any(isinstance(a, ast.Starred) for a in args) or None in kws or len(kws) != len(e.keywords):
            fail(e, 'star / repeated arguments')
        f = e.func
        if isinstance(f, ast.Attribute) and not (isinstance(f.value, ast.Name) and f.value.id == 'np'):
            # method call on a value
            if isinstance(f.value, ast.Constant) and type(f.value.value) is str and f.attr == 'join':
                if kws or len(args) != 1:
                    fail(e, 'join arguments')
                l = self.ev(args[0], env)
                if l.kind != 'LSTR':
                    fail(e, 'join of a %s' % l.kind)
                return Val('STR', 'str_join %s %s' % (par(coq_text(f.value.value)), par(l.t)))
            v = self.ev(f.value, env)
            if v.kind == 'FR' and f.attr == 'read':
                if args or kws or v.state['closed'] or v.state['read']:
                    fail(e, '.read() with arguments / on a closed handle / a second time')
                v.state['read'] = True
                return Val('STR', 't')
            if v.kind == 'STR' and f.attr in ('splitlines', 'split'):
                if args or kws:
                    fail(e, '.%s() with arguments' % f.attr)
                return Val('LSTR', 'str_%s %s' % (f.attr, par(v.t)))
            if v.kind == 'SA' and f.attr == 'astype':
                if kws or len(args) != 1 or not (isinstance(args[0], ast.Name) and args[0].id == 'float' and 'float' not in env):
                    fail(e, '.astype other than astype(float)')
                return Val('FA01', v.t)
            fail(e, 'method .%s of a %s' % (f.attr, v.kind))
        d = dotted(f)
        if d is None:
            fail(e, 'call of a computed function')
        if d.split('.')[0] in env:
            fail(e, 'call through the local name %s' % d.split('.')[0])
        if d == 'len' and not kws and len(args) == 1:
            v = self.ev(args[0], env)
            if v.kind != 'AFL':
                fail(e, 'len of a %s' % v.kind)
            return Val('NAT', 'List.length %s' % par(v.t), of=v.t)
        if d == 'float' and not kws and len(args) == 1:
            v = self.ev(args[0], env)
            if v.kind != 'STR':
                fail(e, 'float of a %s' % v.kind)
            return self.bind(e, 'float_of_str %s' % par(v.t), ['Q'])
        if d == 'np.genfromtxt':
            if len(args) != 1 or not self.is_ffp(args[0], env):
                fail(e, 'np.genfromtxt of something other than the path parameter')
            if not set(kws) <= {'skip_header', 'delimiter', 'names', 'usecols'} or not {'skip_header', 'delimiter', 'usecols'} <= set(kws):
                fail(e, 'np.genfromtxt keywords %r' % sorted(kws))

            def const(k, ty):
                c = kws[k]
                if not (isinstance(c, ast.Constant) and type(c.value) is ty):
                    fail(e, 'np.genfromtxt %s is not a %s literal' % (k, ty.__name__))
                return c.value
            skip, delim, cols = const('skip_header', int), const('delimiter', str), const('usecols', int)
            names = 'names' in kws and const('names', bool)
            if 'names' in kws and not names:
                fail(e, 'np.genfromtxt names=False')
            if not (0 <= skip < 1000 and 0 <= cols < 1000):
                fail(e, 'np.genfromtxt skip_header / usecols out of range')
            return Val('RES', 'genfromtxt t %d %s %s %d' % (skip, par(coq_text(delim)), 'true' if names else 'false', cols))
        if d == 'np.atleast_1d' and not kws and len(args) == 1:
            v = self.ev(args[0], env)
            if v.kind != 'FA01':
                fail(e, 'np.atleast_1d of a %s' % v.kind)
            return Val('FA1', v.t)
        if d == 'load_values_and_dt' and not kws and len(args) == 1:
            if d not in self.spec['calls'] or not self.is_ffp(args[0], env):
                fail(e, 'call of load_values_and_dt other than on the path parameter')
            return self.bind(e, 'gen_load_values_and_dt t', ['FA1', 'Q'])
        if d in CLASSES:
            if len(args) != 2 or not set(kws) <= {'label'}:
                fail(e, '%s(...) other than (values, dt[, label=...])' % d)
            v, dt = self.ev(args[0], env), self.ev(args[1], env)
            lab = self.ev(kws['label'], env) if 'label' in kws else Val('STR', coq_text(self.labels[d]))
            if (v.kind, dt.kind, lab.kind) != ('FA1', 'Q', 'STR'):
                fail(e, '%s of %s, %s, label %s' % (d, v.kind, dt.kind, lab.kind))
            return Val('OBJ', '{| o_class := %s; o_values := %s; o_dt := %s; o_label := %s |}' % (coq_text(d), v.t, dt.t, lab.t))
        fail(e, 'call of %s' % d)

    def open_call(self, e, env):
        """open(ffp) -> 'r', open(ffp, "w") -> 'w', anything else is not an open call of the accepted shapes"""
        if not (isinstance(e, ast.Call) and isinstance(e.func, ast.Name) and e.func.id == 'open'):
            return None
        if 'open' in env or e.keywords or not e.args or not self.is_ffp(e.args[0], env):
            fail(e, 'open(...) other than of the path parameter')
        if len(e.args) == 1:
            return 'r'
        if len(e.args) == 2 and isinstance(e.args[1], ast.Constant) and e.args[1].value == 'w':
            return 'w'
        fail(e, 'open mode')

    def new_handle(self, node, mode):
        if mode == 'r':
            if self.spec['ret'] == 'WRITES':
                fail(node, 'a writer reads its file')
            return Val('FR', state={'read': False, 'closed': False})
        if self.spec['ret'] != 'WRITES' or self.effect is not None:
            fail(node, 'a reader writes its file / a second write')
        return Val('FW', state={'written': None, 'closed': False})

    # ------------------------------------------------------------ statements
    def assign_name(self, s, name, env, val):
        if name in RESERVED or name in [p for p, _ in self.spec['params']]:
            fail(s, 'assignment to %s' % name)
        old = env.get(name)
        if old is not None and old.kind in ('FR', 'FW') and not old.state['closed']:
            fail(s, 're-binding of the open file handle %s' % name)
        env[name] = val

    def wrap(self, binds, tree):
        for pat, term in reversed(binds):
            tree = ('bind', pat, term, tree)
        return tree

    def finish(self, node, env):
        for k, v in env.items():
            if v.kind in ('FR', 'FW') and not v.state['closed']:
                fail(node, 'the file handle %s is not closed' % k)

    def block(self, stmts, env):
        spec = self.spec
        if not stmts:
            self.finish(None, env)
            if spec['ret'] == 'WRITES':
                if self.effect is None:
                    raise Unsupported('%s writes nothing' % spec['func'])
                return ('ret', self.effect)
            if spec['ret'] == 'OPTOBJ':
                return ('ret', 'Some None')                           # falls off the end: Python None
            raise Unsupported('control reaches the end of %s without a return' % spec['func'])
        s, rest = stmts[0], list(stmts[1:])
        self.pending = []
        if isinstance(s, CloseMarker):
            env[s.name].state['closed'] = True
            return self.block(rest, env)
        if isinstance(s, ast.Expr) and isinstance(s.value, ast.Constant) and isinstance(s.value.value, str):
            return self.block(rest, env)                              # docstring
        if isinstance(s, ast.Assign):
            if len(s.targets) != 1:
                fail(s, 'multiple assignment')
            tg = s.targets[0]
            if isinstance(tg, ast.Name):
                mode = self.open_call(s.value, env)
                if mode:
                    self.assign_name(s, tg.id, env, self.new_handle(s, mode))
                    return self.block(rest, env)
                if isinstance(s.value, ast.Name):
                    src = env.get(s.value.id)
                    if src is not None and (src.owned or src.kind in ('FR', 'FW')):
                        fail(s, 'second name for the list / file handle %s' % s.value.id)
                val = self.ev(s.value, env)
                if val.kind == 'TUPLE':
                    fail(s, 'a tuple bound to one name')
                binds = self.pending
                self.assign_name(s, tg.id, env, val)
                return self.wrap(binds, self.block(rest, env))
            if isinstance(tg, ast.Tuple) and all(isinstance(x, ast.Name) for x in tg.elts):
                val = self.ev(s.value, env)
                names = [x.id for x in tg.elts]
                if val.kind != 'TUPLE' or len(val.items) != len(names) or len(set(names)) != len(names):
                    fail(s, 'unpacking of a %s into %d names' % (val.kind, len(names)))
                binds = self.pending
                for nm, it in zip(names, val.items):
                    self.assign_name(s, nm, env, it)
                return self.wrap(binds, self.block(rest, env))
            fail(s, 'assignment target')
        if isinstance(s, ast.For):
            self.for_append(s, env)
            return self.block(rest, env)
        if isinstance(s, ast.With):
            if len(s.items) != 1 or not isinstance(s.items[0].optional_vars, ast.Name):
                fail(s, 'with statement other than `with open(<path>) as f:`')
            mode = self.open_call(s.items[0].context_expr, env)
            if mode != 'r':
                fail(s, 'with statement other than `with open(<path>) as f:`')
            name = s.items[0].optional_vars.id
            self.assign_name(s, name, env, self.new_handle(s, mode))
            return self.block(list(s.body) + [CloseMarker(name, s)] + rest, env)
        if isinstance(s, ast.Try):
            name, val = self.try_genfromtxt(s, env)
            binds = self.pending
            self.assign_name(s, name, env, val)
            return self.wrap(binds, self.block(rest, env))
        if isinstance(s, ast.If):
            c = self.ev(s.test, env)
            if c.kind != 'BOOL':
                fail(s, 'if on a %s' % c.kind)
            binds = self.pending
            n0, eff0 = self.n, self.effect
            a = self.block(list(s.body) + rest, copy.deepcopy(env))
            self.n, self.effect = n0, eff0
            b = self.block(list(s.orelse) + rest, copy.deepcopy(env))
            return self.wrap(binds, ('if', c.t, a, b))
        if isinstance(s, ast.Expr) and isinstance(s.value, ast.Call):
            self.effect_call(s, s.value, env)
            if self.pending:
                fail(s, 'a call statement whose arguments may raise')
            return self.block(rest, env)
        if isinstance(s, ast.Return):
            if rest and not all(isinstance(x, CloseMarker) for x in rest):
                fail(s, 'statements after return')
            for x in rest:
                env[x.name].state['closed'] = True
            if s.value is None:
                fail(s, 'return without a value')
            v = self.ev(s.value, env)
            binds = self.pending
            self.finish(s, env)
            if spec['ret'] == 'PAIR':
                if v.kind != 'TUPLE' or [x.kind for x in v.items] != ['FA1', 'Q']:
                    fail(s, 'returns %s, expected (1-d float array, float)' % ([x.kind for x in v.items] if v.kind == 'TUPLE' else v.kind))
                term = 'Some (%s, %s)' % (v.items[0].t, v.items[1].t)
            elif spec['ret'] in ('OBJ', 'OPTOBJ'):
                if v.kind != 'OBJ':
                    fail(s, 'returns a %s, expected a constructed object' % v.kind)
                term = 'Some %s' % v.t if spec['ret'] == 'OBJ' else 'Some (Some %s)' % v.t
            else:
                fail(s, 'return in a function that only writes')
            return self.wrap(binds, ('ret', term))
        fail(s, 'statement %s' % type(s).__name__)

    def for_append(self, s, env):
        """for i in range(len(v)): l.append(<STR expression>)"""
        it = s.iter
        if s.orelse or not isinstance(s.target, ast.Name) or len(s.body) != 1:
            fail(s, 'for loop other than `for i in range(len(v)): l.append(e)`')
        if not (isinstance(it, ast.Call) and isinstance(it.func, ast.Name) and it.func.id == 'range' and 'range' not in env
                and not it.keywords and len(it.args) == 1):
            fail(s, 'for loop over something other than range(len(v))')
        n = self.pure(s, lambda: self.ev(it.args[0], env))
        if n.kind != 'NAT' or n.of is None:
            fail(s, 'for loop over something other than range(len(v))')
        b = s.body[0]
        c = b.value if isinstance(b, ast.Expr) else None
        if not (isinstance(c, ast.Call) and isinstance(c.func, ast.Attribute) and c.func.attr == 'append' and isinstance(c.func.value, ast.Name)
                and not c.keywords and len(c.args) == 1):
            fail(s, 'loop body other than l.append(e)')
        lname, ivar = c.func.value.id, s.target.id
        l = env.get(lname)
        if l is None or l.kind != 'LSTR' or not l.owned:
            fail(s, 'append to something that is not a list built in this function')
        if ivar in RESERVED or ivar in env:
            fail(s, 'loop variable %s is already bound' % ivar)
        inner = {k: v for k, v in env.items() if k != lname}
        inner[ivar] = Val('IDX', 'i', of=n.of)
        x = self.pure(s, lambda: self.ev(c.args[0], inner))
        if x.kind != 'STR':
            fail(s, 'append of a %s' % x.kind)
        env[lname] = Val('LSTR', 'fold_left (fun acc i => acc ++ [%s]) (seq 0 %s) %s' % (x.t, par(n.t), par(l.t)), owned=True)

    def try_genfromtxt(self, s, env):
        """try: x = np.genfromtxt(..)  except TypeError: x = np.genfromtxt(..)"""
        msg = 'try statement other than `try: x = np.genfromtxt(..) except TypeError: x = np.genfromtxt(..)`'
        if s.orelse or s.finalbody or len(s.handlers) != 1 or len(s.body) != 1:
            fail(s, msg)
        h = s.handlers[0]
        if h.name is not None or not (isinstance(h.type, ast.Name) and h.type.id == 'TypeError' and 'TypeError' not in env) or len(h.body) != 1:
            fail(s, msg)
        out = []
        for b in (s.body[0], h.body[0]):
            if not (isinstance(b, ast.Assign) and len(b.targets) == 1 and isinstance(b.targets[0], ast.Name)):
                fail(s, msg)
            v = self.pure(b, lambda: self.ev(b.value, env))
            if v.kind != 'RES':
                fail(b, msg)
            out.append((b.targets[0].id, v))
        if out[0][0] != out[1][0]:
            fail(s, 'the two branches of the try statement assign different names')
        term = 'gft_value (try_TypeError %s %s)' % (par(out[0][1].t), par(out[1][1].t))
        return out[0][0], self.bind(s, term, ['SA'])

    def effect_call(self, s, c, env):
        f = c.func
        if isinstance(f, ast.Attribute) and isinstance(f.value, ast.Name) and f.value.id != 'np':
            v = env.get(f.value.id)
            if v is None:
                fail(s, 'unknown name %s' % f.value.id)
            if f.attr == 'close' and v.kind in ('FR', 'FW') and not c.args and not c.keywords and not v.state['closed']:
                if v.kind == 'FW':
                    if v.state['written'] is None:
                        fail(s, 'a file opened for writing is closed without a write')
                    self.effect = v.state['written']
                v.state['closed'] = True
                return
            if f.attr == 'write' and v.kind == 'FW' and not c.keywords and len(c.args) == 1 and not v.state['closed']:
                if v.state['written'] is not None:
                    fail(s, 'a second write')
                x = self.ev(c.args[0], env)
                if x.kind != 'STR':
                    fail(s, 'write of a %s' % x.kind)
                v.state['written'] = x.t
                return
            if f.attr == 'append' and v.kind == 'LSTR' and v.owned and not c.keywords and len(c.args) == 1:
                x = self.ev(c.args[0], {k: w for k, w in env.items() if k != f.value.id})
                if x.kind != 'STR':
                    fail(s, 'append of a %s' % x.kind)
                env[f.value.id] = Val('LSTR', '%s ++ [%s]' % (par(v.t), x.t), owned=True)
                return
            fail(s, 'statement .%s on a %s' % (f.attr, v.kind))
        if isinstance(f, ast.Name) and f.id == 'save_values_and_dt' and f.id in self.spec['calls'] and f.id not in env:
            if c.keywords or len(c.args) != 4 or not self.is_ffp(c.args[0], env) or self.effect is not None:
                fail(s, 'save_values_and_dt(...) other than (path, values, dt, label), once')
            vs = [self.ev(a, env) for a in c.args[1:]]
            if [v.kind for v in vs] != ['AFL', 'FL', 'STR']:
                fail(s, 'save_values_and_dt of %s' % [v.kind for v in vs])
            self.effect = 'gen_save_values_and_dt %s' % ' '.join(par(v.t) for v in vs)
            return
        fail(s, 'call statement')


# ---------------------------------------------------------------- rendering
def render(tree, ind=2):
    sp = ' ' * ind
    if tree[0] == 'ret':
        return sp + tree[1]
    if tree[0] == 'bind':
        return '%smatch %s with\n%s| Some %s =>\n%s\n%s| None => None\n%send' % (sp, tree[2], sp, tree[1], render(tree[3], ind + 2), sp, sp)
    if tree[0] == 'if':
        return '%sif %s then\n%s\n%selse\n%s' % (sp, tree[1], render(tree[2], ind + 2), sp, render(tree[3], ind + 2))
    raise Unsupported('internal: tree %r' % (tree[0],))


def default_term(node, kind):
    if kind == 'STR' and isinstance(node, ast.Constant) and type(node.value) is str:
        return coq_text(node.value)
    if kind == 'BOOL' and isinstance(node, ast.Constant) and type(node.value) is bool:
        return 'true' if node.value else 'false'
    if kind == 'Q' and isinstance(node, ast.Constant) and type(node.value) in (int, float) and node.value == node.value \
            and abs(node.value) < 1e300:
        return q_lit(node.value)
    fail(node, 'default value that is not a %s literal' % kind)


def translate_function(tree, spec, labels):
    fn = find_function(tree, dict(spec, cls=None))
    ctx = Ctx16(spec, labels)
    env = {}
    for p, k in spec['params']:
        if p in RESERVED or p in CANON - {b[0] for b in spec['binders']} or p in SECTION_VARS or re.fullmatch(r'v\d+', p):
            raise Unsupported('parameter named %s' % p)
        env[p] = Val(k, p)
    dnames = [a.arg for a in fn.args.args][len(fn.args.args) - len(fn.args.defaults):]
    if dnames != [d[0] for d in spec['defaults']]:
        raise Unsupported('%s: parameters with a default are %r, expected %r' % (spec['func'], dnames, [d[0] for d in spec['defaults']]))
    body = render(ctx.block(list(fn.body), env))
    sig = ' '.join('(%s : %s)' % b for b in spec['binders'])
    where = '%s: %s(%s)' % (SRC, spec['func'], ast.unparse(fn.args))
    out = '(** %s *)\nDefinition %s %s : %s :=\n%s.\n' % (where, spec['gen'], sig, spec['rtype'], body)
    for (p, k), node in zip(spec['defaults'], fn.args.defaults):
        out += 'Definition %s_default_%s : %s := %s.\n' % (spec['gen'], p, DEFAULT_TYPES[k], default_term(node, k))
    return out


HEADER = '''(** GENERATED by translator/py2coq_c16.py from eqsig/loader.py (save_values_and_dt, save_signal, load_values_and_dt,
    load_signal, load_sig, load_asig) and the constructor signatures of eqsig/single.py -- do not edit; rewritten on every run.
    One definition per source function; temporaries are substituted, bound values are named v1, v2, ... in order of evaluation.
    A writer is the text it leaves in the file ffp; a reader takes [t], the text of the file ffp, and returns [None] when a
    statement raises.  A float that is formatted is [fl] = (sign bit, value); "%.df" -> [fmt_f d] = fmt_fixed_sb, "%i" of a
    len() -> [dec_int]; sep.join -> [str_join sep]; LIST[k] -> [nth_error]; the append loop -> [fold_left] over [seq 0 (length v)]
    (lib/PyText.v, lib/DecFmt.v).  `Signal(v, dt)` / `AccSignal(v, dt, label=l)` -> the record [pyobj] of the class name and the
    constructor arguments (the label default is read from eqsig/single.py).  Falling off the end of load_signal = Python None
    = [Some None].  `.astype(float)` and `np.atleast_1d` are the identity on the list reading of the array (the translator
    insists on both before the array is returned: kinds SA -> FA01 -> FA1).
    Section variables (NOT translated): [genfromtxt t skip_header delimiter names usecols] = np.genfromtxt(ffp, ...) on the file
    text t, [str_splitlines] = str.splitlines(), [str_split] = str.split(), [float_of_str] = float(str) ([None] = ValueError),
    [fmul a b] = the binary64 product a * b.
    proofs/P_gen_c16.v instantiates them with the readers of model/M_loader.v (genfromtxt: by its contract) and proves every
    definition equal to the model. *)
From Coq Require Import ZArith QArith List Bool Ascii String.
From EQ Require Import lib.DecFmt lib.PyText.
Import ListNotations.
'''
SECTION = '''Section Oracles.
Variable genfromtxt : text -> nat -> text -> bool -> nat -> gft_res.
Variable str_splitlines str_split : text -> list text.
Variable float_of_str : text -> option Q.
Variable fmul : Q -> Q -> Q.
'''


def translate_sources(read):
    """read(relative path) -> source text"""
    tree = ast.parse(read(SRC))
    try:
        check_module16(tree)
    except Unsupported as e:
        raise Unsupported('%s: %s' % (SRC, e))
    try:
        labels = class_label_defaults(ast.parse(read(SRC_CLS)))
    except Unsupported as e:
        raise Unsupported('%s: %s' % (SRC_CLS, e))
    plain, sect = [], []
    for spec in SPECS:
        try:
            (sect if spec['sect'] else plain).append(translate_function(tree, spec, labels))
        except Unsupported as e:
            raise Unsupported('%s:%s: %s' % (SRC, spec['func'], e))
    return HEADER + '\n' + '\n'.join(plain) + '\n' + SECTION + '\n' + '\n'.join(sect) + 'End Oracles.\n'


def regenerate(repo=None, out=None):
    """returns True iff the file was rewritten; raises Unsupported / OSError / SyntaxError (fail closed).
    On failure the committed copy is left as it is: the caller reports the broken tie."""
    repo = repo or os.environ.get('EQSIG_REPO', '/repo')
    out = out or OUT
    text = translate_sources(lambda rel: open(os.path.join(repo, rel)).read())
    old = open(out).read() if os.path.exists(out) else None
    if old != text:
        os.makedirs(os.path.dirname(out), exist_ok=True)
        tmp = '%s.%d.tmp' % (out, os.getpid())
        with open(tmp, 'w') as f:
            f.write(text)
        os.replace(tmp, out)
        return True
    return False


def main():
    try:
        ch = regenerate(repo=sys.argv[1] if len(sys.argv) > 1 else None)
    except Exception as e:  # fail closed
        print('py2coq_c16: translation FAILED: %s: %s' % (type(e).__name__, e))
        return 1
    print('py2coq_c16: %s %s' % (os.path.relpath(OUT, VERIF), 'rewritten' if ch else 'unchanged'))
    return 0


if __name__ == '__main__':
    sys.exit(main())
