#!/venv/bin/python
"""Fail-closed translator of the Konno-Ohmachi smoothing and bandwidth statements (property C07)  ->  coq/gen/Gen_c07.v

    eqsig/fns/frequency.py  calc_smooth_fa_spectrum(fa_frequencies, fa_spectrum, smooth_fa_frequencies=None, band=40)
                                                                                   -> gen_smooth_fa (+ gen_smooth_fa_shapes)
                            generate_smooth_fa_spectrum (deprecated alias)         -> gen_smooth_fa_alias (+ .._shapes)
                            calc_smoothing_matrix_konno_1998(fa_frequencies, smooth_fa_frequencies=None, band=40)
                                                                                   -> gen_smoothing_matrix
                            calc_smooth_fa_spectrum_w_custom_matrix(asig, smooth_matrix)
                                                                                   -> gen_smooth_w_matrix (+ .._shapes)
                            get_sig_array_indexes_range(fas1_smooth, ratio=15)     -> gen_sig_idx_range
                            get_sig_freq_range(asig, ratio=15)                     -> gen_sig_freq_range
    eqsig/im.py             calc_bandwidth_freqs / calc_bandwidth_f_min / calc_bandwidth_f_max(asig, ratio=0.707)
                                                                                   -> gen_bandwidth_freqs / _f_min / _f_max

np.sin and np.log10 are NOT translated: they are the Section variables [sin], [log10] of the generated file (instantiated at R
with the real sine and ln x / ln 10 by proofs/P_gen_c07.v).  Everything around them is: the zero-frequency-bin drop, the
argument band * log10(f / fc), the quotient, the exponent, the `amp == 0 -> 1` replacement, the column normalisation, the
weighted sum, the matrix product, max / threshold / np.where / first and last index / the frequency look-up.
The 2-d arrays are read COLUMN BY COLUMN (one column per target frequency fc), see coq/lib/PyRes.v.
coq/proofs/P_gen_c07.v proves every generated definition equal to the model of model/M_smooth.v for ALL inputs, so a changed
source statement changes the generated text and breaks a proof obligation of Prop_C07 on the next run.

Each function body is evaluated symbolically, statement by statement; local assignments are substituted into their uses (a
renamed temporary gives the same text).  Anything outside the whitelist raises `Unsupported` (the tie is broken; the harness
reports it).  Helpers (Unsupported, fail, dotted, literal, Module, par) come from py2coq_numpy / py2coq_c06, unmodified.

values      : S float | N index | V 1-d float array | COL v[:, np.newaxis] | ROW v[np.newaxis, :] | E entry-wise matrix
              (an expression in the row element x and the column's target fc) | C column-form matrix | T1 1-d array over the
              targets | EB entry-wise test | VB element-wise test on a 1-d array | W np.where 1-tuple | IV index array
              | TUP tuple of indices | MP matrix parameter (list of columns) | OPT optional-array parameter | O object parameter
expressions : int / float literals; parameter / earlier assignment names; `o.<attr>` of the object parameter for the
              attributes listed in the spec (inputs of the generated function);
              S (+ - * /) S;  `abs(V)` -> vabs;  `max(V)` -> py_max (PARTIAL: ValueError on an empty array);
              `V[0]` -> py_first (PARTIAL: IndexError);  `V[1:]` -> tl;  `V[:, np.newaxis]`, `V[np.newaxis, :]`;
              COL / ROW -> E `x / fc`;  `np.log10(E)`, `np.sin(E)`;  S * E, E * S;  E / E (same rows and targets);
              `E ** k` (int literal k >= 1) -> npow;  `E == S` -> EB;  `np.where(EB, S | E, S | E)`;
              `np.sum(M, axis=0)` -> T1;  `COL * M` -> vmul per column (+ a shape condition);
              `np.dot(V, MP)` -> nsum (vmul v col) per column (+ a shape condition);
              `V > S`, `V < S` (and mirrored) -> VB;  `np.where(VB)` -> W;  `W[0]` -> IV;  `IV[0]`, `IV[-1]` -> py_first /
              py_last (PARTIAL: IndexError);  `V[N]` -> nth_error (PARTIAL: IndexError);
              `np.take(V, TUP)` of two indices -> [v[i]; v[j]] (PARTIAL: IndexError);
              `f(args)` with f a straight-line plain function of the same module -> inlined (its partial reads included).
              Every PARTIAL read becomes a `match .. with None => PyRaise <exception> | Some k => ..` in Python evaluation order.
statements  : docstring;  `name = e`;  `M /= T1` on a matrix this function created and no other name refers to;
              `if V[0] == 0:` (-> the partial read, then a Gallina `if`);  `if p is None:` on the optional parameter (-> match);
              `return e` | `return e1, e2` | `return g(args)` (tail call of a plain module function, inlined whatever its shape).
"""
import ast, copy, os, sys

HERE = os.path.dirname(os.path.abspath(__file__))
sys.path.insert(0, HERE)
from py2coq_numpy import Unsupported, fail, dotted, is_const, literal, Module, RESERVED as BASE_RESERVED   # noqa: E402
from py2coq_c06 import par                                                                                  # noqa: E402

VERIF = os.path.dirname(HERE)
OUT = os.path.join(VERIF, 'coq', 'gen', 'Gen_c07.v')
FREQ, IM = 'eqsig/fns/frequency.py', 'eqsig/im.py'
X, FC, Y, COLV = 'x', 'fc', 'y', 'col'                      # bound variables of the generated lambdas
KERNELS = {'np.sin': 'sin', 'np.log10': 'log10'}            # the Section variables
RESERVED = set(BASE_RESERVED) | {'IndexError', 'ValueError', 'True', 'False', 'None'}
COQ_RESERVED = {X, FC, Y, COLV, 'sin', 'log10', 'n0', 'n1'}
SMOOTH_ATTRS = {'smooth_fa_spectrum': ('s', 'V'), 'smooth_fa_frequencies': ('freqs', 'V')}

# file, function, generated name, python parameters -> kind, binders (coq name, coq type), attribute inputs, result shape
SPECS = [
    dict(file=FREQ, func='calc_smooth_fa_spectrum', gen='gen_smooth_fa',
         params=[('fa_frequencies', 'V', 'freqs'), ('fa_spectrum', 'V', 'amps'), ('smooth_fa_frequencies', 'OPT', 'targets'),
                 ('band', 'S', 'band')],
         binders=[('band', 'T'), ('freqs', 'list T'), ('amps', 'list T'), ('targets', 'option (list T)')], ret='vec'),
    dict(file=FREQ, func='generate_smooth_fa_spectrum', gen='gen_smooth_fa_alias',
         params=[('smooth_fa_frequencies', 'OPT', 'targets'), ('fa_frequencies', 'V', 'freqs'), ('fa_spectrum', 'V', 'amps'),
                 ('band', 'S', 'band')],
         binders=[('band', 'T'), ('freqs', 'list T'), ('amps', 'list T'), ('targets', 'option (list T)')], ret='vec'),
    dict(file=FREQ, func='calc_smoothing_matrix_konno_1998', gen='gen_smoothing_matrix',
         params=[('fa_frequencies', 'V', 'freqs'), ('smooth_fa_frequencies', 'OPT', 'targets'), ('band', 'S', 'band')],
         binders=[('band', 'T'), ('freqs', 'list T'), ('targets', 'option (list T)')], ret='matrix'),
    dict(file=FREQ, func='calc_smooth_fa_spectrum_w_custom_matrix', gen='gen_smooth_w_matrix',
         params=[('asig', 'O', None), ('smooth_matrix', 'MP', 'cols')], attrs={'fa_spectrum': ('amps', 'V')},
         binders=[('amps', 'list T'), ('cols', 'list (list T)')], ret='vec'),
    dict(file=FREQ, func='get_sig_array_indexes_range', gen='gen_sig_idx_range',
         params=[('fas1_smooth', 'V', 's'), ('ratio', 'S', 'ratio')],
         binders=[('ratio', 'T'), ('s', 'list T')], ret='idxpair'),
    dict(file=FREQ, func='get_sig_freq_range', gen='gen_sig_freq_range',
         params=[('asig', 'O', None), ('ratio', 'S', 'ratio')], attrs=SMOOTH_ATTRS,
         binders=[('ratio', 'T'), ('s', 'list T'), ('freqs', 'list T')], ret='vec'),
    dict(file=IM, func='calc_bandwidth_freqs', gen='gen_bandwidth_freqs',
         params=[('asig', 'O', None), ('ratio', 'S', 'ratio')], attrs=SMOOTH_ATTRS,
         binders=[('ratio', 'T'), ('s', 'list T'), ('freqs', 'list T')], ret='pair'),
    dict(file=IM, func='calc_bandwidth_f_min', gen='gen_bandwidth_f_min',
         params=[('asig', 'O', None), ('ratio', 'S', 'ratio')], attrs=SMOOTH_ATTRS,
         binders=[('ratio', 'T'), ('s', 'list T'), ('freqs', 'list T')], ret='scalar'),
    dict(file=IM, func='calc_bandwidth_f_max', gen='gen_bandwidth_f_max',
         params=[('asig', 'O', None), ('ratio', 'S', 'ratio')], attrs=SMOOTH_ATTRS,
         binders=[('ratio', 'T'), ('s', 'list T'), ('freqs', 'list T')], ret='scalar'),
]
RET_TYPES = {'vec': 'list T', 'matrix': 'list (list T)', 'pair': 'T * T', 'scalar': 'T', 'idxpair': 'nat * nat'}


# ---------------------------------------------------------------- values
class Val:
    """kind + the fields that kind uses (t: term; body / vec / tvec: entry-wise expression, row vector, target vector;
    col / rows: column term, the vector whose length is the number of rows; items: tuple members; state: of an OPT).
    cell = ownership record shared by the names and views of one array"""
    def __init__(self, kind, t=None, owned=False, **kw):
        self.kind, self.t = kind, t
        self.body = self.vec = self.tvec = self.col = self.rows = self.items = self.state = None
        self.__dict__.update(kw)
        self.cell = {'owned': owned, 'refs': 0}


def view(base, val):
    """val shares the memory of base: base may no longer be modified in place"""
    base.cell['refs'] += 1
    val.cell = base.cell
    return val


def is_none(e):
    return isinstance(e, ast.Constant) and e.value is None


def int_lit(e, k=None):
    return isinstance(e, ast.Constant) and type(e.value) is int and (k is None or e.value == k)


def minus_one(e):
    return isinstance(e, ast.UnaryOp) and isinstance(e.op, ast.USub) and int_lit(e.operand, 1)


def full_slice(e):
    return isinstance(e, ast.Slice) and e.lower is None and e.upper is None and e.step is None


def as_col(m):
    """column term (free variable fc) of a matrix value, and the vector whose length is its number of rows"""
    if m.kind == 'E':
        return 'map (fun %s => %s) %s' % (X, m.body, par(m.vec)), m.vec
    if m.kind == 'C':
        return m.col, m.rows
    raise Unsupported('internal: not a matrix')


# ---------------------------------------------------------------- one function
class Ctx:
    def __init__(self, module, spec):
        self.m, self.spec = module, spec
        self.pending = []          # partial reads of the statement being translated: (var, option term, exception)
        self.nvar = 0
        self.coqnames = {b[0] for b in spec['binders']} | {b[0] + "'" for b in spec['binders']} | COQ_RESERVED

    def partial(self, opt_term, exc):
        self.nvar += 1
        v = 'k%d' % self.nvar
        if v in self.coqnames:
            raise Unsupported('bound variable %s clashes with a binder' % v)
        self.pending.append((v, opt_term, exc))
        return v

    def take_pending(self):
        p, self.pending = self.pending, []
        return p

    def need_np(self, node):
        if not self.m.np_ok:
            fail(node, 'np is not `import numpy as np`')

    # ------------------------------------------------------------ expressions
    def ev(self, e, st):
        env = st['env']
        if isinstance(e, ast.Constant):
            return Val('S', literal(e).term)
        if isinstance(e, ast.Name):
            v = env.get(e.id)
            if v is None:
                fail(e, 'unknown name %s' % e.id)
            if v.kind == 'OPT':
                if v.state != 'some':
                    fail(e, '%s used as an array where it is not known to be one' % e.id)
                return view(v, Val('V', v.t + "'"))
            if v.kind == 'O':
                fail(e, 'object parameter %s in expression position' % e.id)
            return v
        if isinstance(e, ast.Attribute):
            if isinstance(e.value, ast.Name) and env.get(e.value.id) is not None and env[e.value.id].kind == 'O':
                a = self.spec.get('attrs', {}).get(e.attr)
                if a is None:
                    fail(e, '%s reads .%s, which is not an input of %s' % (self.spec['func'], e.attr, self.spec['gen']))
                return Val(a[1], a[0])
            fail(e, 'attribute %s' % (dotted(e) or '?'))
        if isinstance(e, ast.BinOp):
            return self.binop(e, st)
        if isinstance(e, ast.Compare):
            return self.compare(e, st)
        if isinstance(e, ast.Subscript):
            return self.subscript(e, st)
        if isinstance(e, ast.Call):
            return self.call(e, st)
        if isinstance(e, ast.Tuple):
            items = [self.ev(x, st) for x in e.elts]
            if len(items) != 2 or len({i.kind for i in items}) != 1 or items[0].kind not in ('N', 'S'):
                fail(e, 'tuple other than a pair of indices / a pair of floats')
            return Val('TUP', items=items)
        fail(e, 'expression %s' % type(e).__name__)

    def binop(self, e, st):
        op = type(e.op)
        if op is ast.Pow:
            x = self.ev(e.left, st)
            if not (int_lit(e.right) and 1 <= e.right.value <= 16):
                fail(e, 'exponent other than a small positive int literal')
            if x.kind == 'E':
                return Val('E', body='npow %s %d' % (par(x.body), e.right.value), vec=x.vec, tvec=x.tvec, owned=True)
            fail(e, 'power of a %s' % x.kind)
        sym = {ast.Add: '+', ast.Sub: '-', ast.Mult: '*', ast.Div: '/'}.get(op)
        if sym is None:
            fail(e, 'binary operator %s' % op.__name__)
        x, y = self.ev(e.left, st), self.ev(e.right, st)
        kk = (x.kind, y.kind)
        if kk == ('S', 'S'):
            return Val('S', '%s %s %s' % (par(x.t), sym, par(y.t)))
        if kk == ('COL', 'ROW') and sym == '/':
            return Val('E', body='%s / %s' % (X, FC), vec=x.t, tvec=y.t, owned=True)
        if kk == ('S', 'E') and sym == '*':
            return Val('E', body='%s * %s' % (par(x.t), par(y.body)), vec=y.vec, tvec=y.tvec, owned=True)
        if kk == ('E', 'S') and sym == '*':
            return Val('E', body='%s * %s' % (par(x.body), par(y.t)), vec=x.vec, tvec=x.tvec, owned=True)
        if kk == ('E', 'E') and sym == '/':
            if (x.vec, x.tvec) != (y.vec, y.tvec):
                fail(e, 'entry-wise quotient of matrices over syntactically different rows / targets')
            return Val('E', body='%s / %s' % (par(x.body), par(y.body)), vec=x.vec, tvec=x.tvec, owned=True)
        if x.kind == 'COL' and y.kind in ('E', 'C') and sym == '*':
            col, rows = as_col(y)
            st['shapes'].append('Nat.eqb (length %s) (length %s)' % (par(x.t), par(rows)))
            return Val('C', col='vmul %s %s' % (par(x.t), par(col)), rows=rows, tvec=y.tvec, owned=True)
        fail(e, 'operator %s on %s, %s' % (sym, x.kind, y.kind))

    def compare(self, e, st):
        if len(e.ops) != 1 or len(e.comparators) != 1:
            fail(e, 'chained comparison')
        x, y = self.ev(e.left, st), self.ev(e.comparators[0], st)
        op = type(e.ops[0])
        kk = (x.kind, y.kind)
        if op is ast.Eq and kk == ('E', 'S'):
            return Val('EB', body='%s =? %s' % (par(x.body), par(y.t)), vec=x.vec, tvec=x.tvec)
        if op is ast.Eq and kk == ('S', 'S'):
            return Val('SB', '%s =? %s' % (par(x.t), par(y.t)))
        # element-wise `vector op scalar`, written with the model's <? (a > b is b <? a)
        forms = {ast.Gt: ('%(s)s <? %(x)s', '%(x)s <? %(s)s'), ast.Lt: ('%(x)s <? %(s)s', '%(s)s <? %(x)s')}
        if op in forms and kk == ('V', 'S'):
            return Val('VB', body=forms[op][0] % {'s': par(y.t), 'x': X}, vec=x.t)
        if op in forms and kk == ('S', 'V'):
            return Val('VB', body=forms[op][1] % {'s': par(x.t), 'x': X}, vec=y.t)
        fail(e, 'comparison %s on %s, %s' % (op.__name__, x.kind, y.kind))

    def is_newaxis(self, e, st):
        if dotted(e) == 'np.newaxis' and 'np' not in st['env']:
            self.need_np(e)
            return True
        return False

    def subscript(self, e, st):
        x = self.ev(e.value, st)
        sl = e.slice
        if isinstance(sl, ast.Index):      # python < 3.9
            sl = sl.value
        if x.kind == 'W':
            if int_lit(sl, 0):
                return Val('IV', x.t)
            fail(e, 'subscript of an np.where result other than [0]')
        if x.kind == 'IV':
            if int_lit(sl, 0):
                return Val('N', self.partial('py_first %s' % par(x.t), 'IndexError'))
            if minus_one(sl):
                return Val('N', self.partial('py_last %s' % par(x.t), 'IndexError'))
            fail(e, 'subscript of an index array other than [0] / [-1]')
        if x.kind != 'V':
            fail(e, 'subscript of a %s' % x.kind)
        if int_lit(sl, 0):
            return Val('S', self.partial('py_first %s' % par(x.t), 'IndexError'))
        if isinstance(sl, ast.Slice):
            if sl.step is None and sl.upper is None and sl.lower is not None and int_lit(sl.lower, 1):
                return view(x, Val('V', 'tl %s' % par(x.t)))
            fail(e, 'slice other than [1:]')
        if isinstance(sl, ast.Tuple) and len(sl.elts) == 2:
            a, b = sl.elts
            if full_slice(a) and self.is_newaxis(b, st):
                return view(x, Val('COL', x.t))
            if full_slice(b) and self.is_newaxis(a, st):
                return view(x, Val('ROW', x.t))
            fail(e, '2-d subscript other than [:, np.newaxis] / [np.newaxis, :]')
        if isinstance(sl, (ast.Constant, ast.UnaryOp, ast.Slice, ast.Tuple)):
            fail(e, 'subscript of a float array other than [0], [1:], [:, np.newaxis], [np.newaxis, :], [<index>]')
        k = self.ev(sl, st)
        if k.kind != 'N':
            fail(e, 'float array indexed by a %s' % k.kind)
        return Val('S', self.partial('nth_error %s %s' % (par(x.t), par(k.t)), 'IndexError'))

    def call(self, e, st):
        env = st['env']
        d = dotted(e.func)
        if d is None:
            fail(e, 'call of a computed function')
        if d.split('.')[0] in env:
            fail(e, 'call through the local name %s' % d.split('.')[0])
        args, kws = e.args, {k.arg: k.value for k in e.keywords}
        if any(isinstance(a, ast.Starred) for a in args) or None in kws:
            fail(e, 'star arguments')
        if d.startswith('np.'):
            self.need_np(e)
        if d == 'abs':
            if len(args) != 1 or kws:
                fail(e, 'abs arguments')
            x = self.ev(args[0], st)
            if x.kind == 'V':
                return Val('V', 'vabs %s' % par(x.t), owned=True)
            if x.kind == 'S':
                return Val('S', 'nabs %s' % par(x.t))
            fail(e, 'abs of a %s' % x.kind)
        if d == 'max':
            if len(args) != 1 or kws:
                fail(e, 'max arguments')
            x = self.ev(args[0], st)
            if x.kind != 'V':
                fail(e, 'max of a %s' % x.kind)
            return Val('S', self.partial('py_max %s' % par(x.t), 'ValueError'))
        if d in KERNELS:
            if len(args) != 1 or kws:
                fail(e, '%s arguments' % d)
            x = self.ev(args[0], st)
            if x.kind == 'E':
                return Val('E', body='%s %s' % (KERNELS[d], par(x.body)), vec=x.vec, tvec=x.tvec, owned=True)
            fail(e, '%s of a %s' % (d, x.kind))
        if d == 'np.where':
            if kws or len(args) not in (1, 3):
                fail(e, 'np.where arguments')
            c = self.ev(args[0], st)
            if len(args) == 1:
                if c.kind != 'VB':
                    fail(e, 'np.where of a %s' % c.kind)
                return Val('W', 'where_idx (fun %s => %s) %s' % (X, c.body, par(c.vec)))
            if c.kind != 'EB':
                fail(e, 'np.where(c, a, b) with c a %s' % c.kind)
            a, b = self.ev(args[1], st), self.ev(args[2], st)
            bodies = []
            for v in (a, b):
                if v.kind == 'S':
                    bodies.append(v.t)
                elif v.kind == 'E' and (v.vec, v.tvec) == (c.vec, c.tvec):
                    bodies.append(v.body)
                else:
                    fail(e, 'np.where branch: a %s (or a matrix over different rows / targets)' % v.kind)
            return Val('E', body='if %s then %s else %s' % (c.body, bodies[0], bodies[1]), vec=c.vec, tvec=c.tvec, owned=True)
        if d == 'np.sum':
            if len(args) != 1 or set(kws) != {'axis'} or not int_lit(kws['axis'], 0):
                fail(e, 'np.sum other than np.sum(<matrix>, axis=0)')
            x = self.ev(args[0], st)
            if x.kind not in ('E', 'C'):
                fail(e, 'np.sum(.., axis=0) of a %s' % x.kind)
            return Val('T1', body='nsum %s' % par(as_col(x)[0]), tvec=x.tvec, owned=True)
        if d == 'np.dot':
            if len(args) != 2 or kws:
                fail(e, 'np.dot arguments')
            x, mp = self.ev(args[0], st), self.ev(args[1], st)
            if (x.kind, mp.kind) != ('V', 'MP'):
                fail(e, 'np.dot of %s, %s' % (x.kind, mp.kind))
            st['shapes'].append('forallb (fun %s => Nat.eqb (length %s) (length %s)) %s' % (COLV, par(x.t), COLV, par(mp.t)))
            return Val('V', 'map (fun %s => nsum (vmul %s %s)) %s' % (COLV, par(x.t), COLV, par(mp.t)), owned=True)
        if d == 'np.take':
            if len(args) != 2 or kws:
                fail(e, 'np.take arguments')
            x, tp = self.ev(args[0], st), self.ev(args[1], st)
            if x.kind != 'V' or tp.kind != 'TUP' or any(i.kind != 'N' for i in tp.items):
                fail(e, 'np.take other than np.take(<array>, <pair of indices>)')
            got = [self.partial('nth_error %s %s' % (par(x.t), par(i.t)), 'IndexError') for i in tp.items]
            return Val('V', '[%s]' % '; '.join(got), owned=True)
        if isinstance(e.func, ast.Name) and e.func.id in self.m.funcs:
            return self.inline(e, st)
        fail(e, 'call of %s' % d)

    # ------------------------------------------------------------ calls of plain module functions
    def bind_args(self, e, st):
        fn = self.m.func(e.func.id, e)
        names = [a.arg for a in fn.args.args]
        if any(isinstance(a, ast.Starred) for a in e.args) or any(k.arg is None for k in e.keywords) or len(e.args) > len(names):
            fail(e, 'call arguments')
        bound = {}
        for n, a in zip(names, e.args):
            bound[n] = self.arg(a, st)
        for k in e.keywords:
            if k.arg not in names or k.arg in bound:
                fail(e, 'keyword argument %s' % k.arg)
            bound[k.arg] = self.arg(k.value, st)
        defaults = dict(zip(names[len(names) - len(fn.args.defaults):], fn.args.defaults))
        for n in names:
            if n in RESERVED:
                fail(fn, 'parameter named %s' % n)
            if n not in bound:
                dflt = defaults.get(n)
                if dflt is None:
                    fail(e, 'missing argument %s' % n)
                if is_none(dflt):
                    bound[n] = Val('OPT', None, state='none')
                elif isinstance(dflt, ast.Constant):
                    bound[n] = Val('S', literal(dflt).term)
                else:
                    fail(dflt, 'default of %s is not a constant' % n)
        env = {}
        for n, v in bound.items():
            if v.kind in ('V', 'MP'):         # the callee sees the caller's array
                v.cell['refs'] += 1
            env[n] = v
        return fn, env

    def arg(self, a, st):
        """an argument may be the object / optional parameter itself (passed on), otherwise an expression"""
        if isinstance(a, ast.Name) and st['env'].get(a.id) is not None and st['env'][a.id].kind in ('O', 'OPT'):
            v = st['env'][a.id]
            if v.kind == 'OPT' and v.state == 'some':
                return self.ev(a, st)
            return v
        v = self.ev(a, st)
        if v.kind not in ('S', 'V', 'MP'):
            fail(a, 'argument of kind %s' % v.kind)
        return v

    def inline(self, e, st):
        """non-tail call: the callee must be straight-line (assignments, then one return); its partial reads join the
        caller's, in evaluation order"""
        if st.get('depth', 0) >= 2:
            fail(e, 'call nesting too deep')
        fn, env = self.bind_args(e, st)
        st2 = {'env': env, 'shapes': st['shapes'], 'depth': st.get('depth', 0) + 1}
        body = [s for s in fn.body if not (isinstance(s, ast.Expr) and isinstance(s.value, ast.Constant) and isinstance(s.value.value, str))]
        for s in body[:-1]:
            if not (isinstance(s, ast.Assign) and len(s.targets) == 1 and isinstance(s.targets[0], ast.Name)):
                fail(s, 'inlined callee is not straight-line')
            self.assign(s, st2)
        if not body or not isinstance(body[-1], ast.Return) or body[-1].value is None:
            fail(e, 'inlined callee does not end with `return e`')
        return self.ev(body[-1].value, st2)

    # ------------------------------------------------------------ statements
    def bind(self, st, name, val, node):
        if name in RESERVED:
            fail(node, 'assignment to %s' % name)
        old = st['env'].get(name)
        if old is not None and old.kind == 'O':
            fail(node, 'assignment to the object parameter %s' % name)
        if old is not None:
            old.cell['refs'] -= 1
        val.cell['refs'] += 1
        st['env'][name] = val

    def assign(self, s, st):
        val = self.ev(s.value, st)
        if val.kind in ('O', 'OPT', 'SB', 'EB', 'VB'):
            fail(s, 'assignment of a %s' % val.kind)
        self.bind(st, s.targets[0].id, val, s)

    def leaf(self, v, st, node):
        ret = self.spec['ret']
        if ret == 'vec' and v.kind == 'V':
            t = v.t
        elif ret == 'vec' and v.kind == 'T1':
            t = 'map (fun %s => %s) %s' % (FC, v.body, par(v.tvec))
        elif ret == 'matrix' and v.kind in ('E', 'C'):
            t = 'map (fun %s => %s) %s' % (FC, as_col(v)[0], par(v.tvec))
        elif ret == 'scalar' and v.kind == 'S':
            t = v.t
        elif ret == 'pair' and v.kind == 'TUP' and v.items[0].kind == 'S':
            t = '(%s, %s)' % (v.items[0].t, v.items[1].t)
        elif ret == 'idxpair' and v.kind == 'TUP' and v.items[0].kind == 'N':
            t = '(%s, %s)' % (v.items[0].t, v.items[1].t)
        else:
            fail(node, 'returned kind %s where %s is expected' % (v.kind, ret))
        return ('leaf', t, list(st['shapes']))

    @staticmethod
    def wrap(binds, tree):
        for v, opt, exc in reversed(binds):
            tree = ('bind', v, opt, exc, tree)
        return tree

    def block(self, stmts, st, depth=0):
        """-> ('leaf', term, shapes) | ('bind', var, option term, exception, tree) | ('if', cond, tree, tree)
              | ('optmatch', name, tree_some, tree_none)"""
        if depth > 10:
            fail(stmts[0] if stmts else None, 'nesting too deep')
        st = copy.deepcopy(st)            # the branches of an `if` must not see each other's bindings / reference counts
        stmts = list(stmts)
        while stmts:
            s = stmts.pop(0)
            if self.pending:
                raise Unsupported('internal: unbound partial expression')
            if isinstance(s, ast.Expr) and isinstance(s.value, ast.Constant) and isinstance(s.value.value, str):
                continue                                                 # docstring
            if isinstance(s, ast.Assign):
                if len(s.targets) != 1 or not isinstance(s.targets[0], ast.Name):
                    fail(s, 'assignment target')
                self.assign(s, st)
                binds = self.take_pending()
                if binds:
                    return self.wrap(binds, self.block(stmts, st, depth + 1))
                continue
            if isinstance(s, ast.AugAssign):
                if not (isinstance(s.op, ast.Div) and isinstance(s.target, ast.Name)):
                    fail(s, 'augmented assignment other than M /= v')
                m = st['env'].get(s.target.id)
                if m is None or m.kind not in ('E', 'C') or not (m.cell['owned'] and m.cell['refs'] == 1):
                    fail(s, 'in-place division of %s, which is not a matrix created here that no other name refers to' % s.target.id)
                d = self.ev(s.value, st)
                if self.pending:
                    fail(s, 'partial read in an in-place statement')
                if d.kind != 'T1' or d.tvec != m.tvec:
                    fail(s, 'in-place division by a %s (or by sums over different targets)' % d.kind)
                col, rows = as_col(m)
                nv = Val('C', col='map (fun %s => %s / %s) %s' % (Y, Y, par(d.body), par(col)), rows=rows, tvec=m.tvec, owned=True)
                self.bind(st, s.target.id, nv, s)
                continue
            if isinstance(s, ast.If):
                t = s.test
                if (isinstance(t, ast.Compare) and len(t.ops) == 1 and isinstance(t.ops[0], ast.Is) and is_none(t.comparators[0])
                        and isinstance(t.left, ast.Name) and st['env'].get(t.left.id) is not None):
                    p = st['env'][t.left.id]
                    if p.kind != 'OPT':
                        fail(s, '`is None` test of %s, which is not the optional parameter' % t.left.id)
                    if p.state == 'none':
                        return self.block(list(s.body) + stmts, st, depth + 1)
                    if p.state == 'some':
                        return self.block(list(s.orelse) + stmts, st, depth + 1)
                    trees = []
                    for state, body in (('some', s.orelse), ('none', s.body)):
                        st2 = copy.deepcopy(st)
                        q = st2['env'][t.left.id]
                        q.state = state
                        trees.append(self.block(list(body) + stmts, st2, depth + 1))
                    return ('optmatch', p.t, trees[0], trees[1])
                c = self.ev(t, st)
                if c.kind != 'SB':
                    fail(s, 'condition other than `<float> == <float>` / `<optional parameter> is None`')
                binds = self.take_pending()
                return self.wrap(binds, ('if', c.t, self.block(list(s.body) + stmts, st, depth + 1),
                                         self.block(list(s.orelse) + stmts, st, depth + 1)))
            if isinstance(s, ast.Return):
                v = s.value
                if v is None:
                    fail(s, 'bare return')
                if isinstance(v, ast.Call) and isinstance(v.func, ast.Name) and v.func.id in self.m.funcs and v.func.id not in st['env']:
                    if st.get('depth', 0) >= 2:
                        fail(s, 'call nesting too deep')
                    fn, env = self.bind_args(v, st)                      # tail call: any shape of callee
                    if self.pending:
                        fail(s, 'partial read in a call argument')
                    return self.block(list(fn.body), {'env': env, 'shapes': st['shapes'], 'depth': st.get('depth', 0) + 1}, depth + 1)
                val = self.ev(v, st)
                return self.wrap(self.take_pending(), self.leaf(val, st, s))
            fail(s, 'statement %s' % type(s).__name__)
        raise Unsupported('control reaches the end of %s without a return' % self.spec['func'])


# ---------------------------------------------------------------- rendering
def render(tree, ind=2):
    sp = ' ' * ind
    k = tree[0]
    if k == 'leaf':
        return '%sPyOk %s' % (sp, par(tree[1]))
    if k == 'bind':
        return '%smatch %s with\n%s| None => PyRaise %s\n%s| Some %s =>\n%s\n%send' % (
            sp, tree[2], sp, tree[3], sp, tree[1], render(tree[4], ind + 2), sp)
    if k == 'if':
        return '%sif %s then\n%s\n%selse\n%s' % (sp, tree[1], render(tree[2], ind + 2), sp, render(tree[3], ind + 2))
    if k == 'optmatch':
        return "%smatch %s with\n%s| Some %s' =>\n%s\n%s| None =>\n%s\n%send" % (
            sp, tree[1], sp, tree[1], render(tree[2], ind + 4), sp, render(tree[3], ind + 4), sp)
    raise Unsupported('internal: tree %r' % (k,))


def has_shapes(tree):
    k = tree[0]
    if k == 'leaf':
        return bool(tree[2])
    if k == 'bind':
        return has_shapes(tree[4])
    return has_shapes(tree[2]) or has_shapes(tree[3])


def render_shapes(tree, ind=2):
    sp = ' ' * ind
    k = tree[0]
    if not has_shapes(tree):
        return sp + 'true'
    if k == 'leaf':
        return sp + ' && '.join(par(s) if len(tree[2]) > 1 else s for s in tree[2])
    if k == 'bind':
        return '%smatch %s with\n%s| None => true\n%s| Some %s =>\n%s\n%send' % (
            sp, tree[2], sp, sp, tree[1], render_shapes(tree[4], ind + 2), sp)
    if k == 'if':
        return '%sif %s then\n%s\n%selse\n%s' % (sp, tree[1], render_shapes(tree[2], ind + 2), sp, render_shapes(tree[3], ind + 2))
    return "%smatch %s with\n%s| Some %s' =>\n%s\n%s| None =>\n%s\n%send" % (
        sp, tree[1], sp, tree[1], render_shapes(tree[2], ind + 4), sp, render_shapes(tree[3], ind + 4), sp)


def translate_function(module, spec):
    fn = module.func(spec['func'])
    names = [a.arg for a in fn.args.args]
    if names != [p[0] for p in spec['params']]:
        raise Unsupported('%s: parameters are %r, expected %r' % (spec['func'], names, [p[0] for p in spec['params']]))
    ctx = Ctx(module, spec)
    env = {}
    for n, k, cname in spec['params']:
        if n in RESERVED:
            raise Unsupported('parameter named %s' % n)
        env[n] = Val('O', n) if k == 'O' else Val(k, cname)
    for b, _ in spec['binders']:
        if b in COQ_RESERVED:
            raise Unsupported('binder name %s clashes with a reserved one' % b)
    tree = ctx.block(list(fn.body), {'env': env, 'shapes': []})
    if ctx.pending:
        raise Unsupported('internal: unbound partial expression')
    sig = ' '.join('(%s : %s)' % b for b in spec['binders'])
    pysig = ast.unparse(fn.args)
    text = '(** %s: %s(%s) *)\nDefinition %s %s : pyres (%s) :=\n%s.\n' % (
        spec['file'], spec['func'], pysig, spec['gen'], sig, RET_TYPES[spec['ret']], render(tree))
    if has_shapes(tree):
        text += ('(** the operand lengths under which the column-wise reading of the broadcast / matrix product above is what NumPy\n'
                 '    computes (where this is false NumPy raises ValueError, or stretches a length-1 axis) *)\n'
                 'Definition %s_shapes %s : bool :=\n%s.\n' % (spec['gen'], sig, render_shapes(tree)))
    # defaults of the python signature: constants of their own (tied by a lemma)
    inside, kinds = [], {p[0]: p[1] for p in spec['params']}
    for n, dflt in zip(names[len(names) - len(fn.args.defaults):], fn.args.defaults):
        if not isinstance(dflt, ast.Constant):
            fail(dflt, 'default of %s is not a constant' % n)
        if kinds[n] == 'OPT':
            if dflt.value is not None:
                fail(dflt, 'default of %s is not None' % n)
            inside.append('Definition %s_default_%s : option (list T) := None.\n' % (spec['gen'], n))
        elif kinds[n] == 'S':
            inside.append('Definition %s_default_%s : T := %s.\n' % (spec['gen'], n, literal(dflt).term))
        else:
            fail(dflt, 'default for the %s parameter %s' % (kinds[n], n))
    return text + ''.join(inside)


HEADER = '''(** GENERATED by translator/py2coq_c07.py from eqsig/fns/frequency.py (calc_smooth_fa_spectrum, generate_smooth_fa_spectrum,
    calc_smoothing_matrix_konno_1998, calc_smooth_fa_spectrum_w_custom_matrix, get_sig_array_indexes_range, get_sig_freq_range)
    and eqsig/im.py (calc_bandwidth_freqs, calc_bandwidth_f_min, calc_bandwidth_f_max) -- do not edit; rewritten on every run.
    One definition per source function, generic over [NumOps T]; temporaries are substituted.
    np.sin / np.log10 are the Section variables [sin], [log10] (proofs/P_gen_c07.v instantiates them at R with the real sine and
    ln x / ln 10; NumPy's nan / -inf for non-positive arguments are outside that reading).
    The 2-d broadcasting is read COLUMN BY COLUMN: a matrix of shape (n_freq, n_target) is the list of its columns, one per
    target frequency [fc]; [x] runs over the Fourier frequencies of a column (readings: lib/PyRes.v).
    A result is [PyOk v] or [PyRaise e]: every partial read ([v[0]], [max(v)], [np.where(..)[0][0]], [v[k]], np.take) is a
    [match] on [py_first] / [py_max] / [py_last] / [nth_error] in Python evaluation order whose [None] branch is the exception.
    Inputs: freqs = fa_frequencies, amps = fa_spectrum (real; a complex spectrum enters through its modulus: abs), targets =
    smooth_fa_frequencies (None | Some array), band, cols = the columns of smooth_matrix, s = .smooth_fa_spectrum,
    freqs (bandwidth functions) = .smooth_fa_frequencies, ratio.
    proofs/P_gen_c07.v proves every definition equal to the model of model/M_smooth.v. *)
From Coq Require Import ZArith List Bool.
From EQ Require Import lib.Num lib.NpList lib.PyVal lib.NpHelpers lib.PyRes.
Import ListNotations.
Local Open Scope num_scope.

Section Generic.
Context {T : Type} `{NumOps T}.
Variable sin log10 : T -> T.
'''


def translate_sources(read):
    """read(relative path) -> source text"""
    mods, defs = {}, []
    for spec in SPECS:
        try:
            if spec['file'] not in mods:
                mods[spec['file']] = Module(spec['file'], read(spec['file']))
            defs.append(translate_function(mods[spec['file']], spec))
        except Unsupported as e:
            raise Unsupported('%s:%s: %s' % (spec['file'], spec['func'], e))
    return HEADER + '\n' + '\n'.join(defs) + 'End Generic.\n'


def regenerate(repo=None, out=None):
    """returns True iff the file was rewritten; raises Unsupported / OSError / SyntaxError (fail closed).
    On failure the committed copy is left as it is: the caller reports the broken tie."""
    repo = repo or os.environ.get('EQSIG_REPO', '/repo')
    out = out or OUT
    text = translate_sources(lambda rel: open(os.path.join(repo, rel)).read())
    old = open(out).read() if os.path.exists(out) else None
    if old != text:
        os.makedirs(os.path.dirname(out), exist_ok=True)
        tmp = '%s.%d.tmp' % (out, os.getpid())
        with open(tmp, 'w') as f:
            f.write(text)
        os.replace(tmp, out)
        return True
    return False


def main():
    try:
        ch = regenerate(repo=sys.argv[1] if len(sys.argv) > 1 else None)
    except Exception as e:  # fail closed
        print('py2coq_c07: translation FAILED: %s: %s' % (type(e).__name__, e))
        return 1
    print('py2coq_c07: %s %s' % (os.path.relpath(OUT, VERIF), 'rewritten' if ch else 'unchanged'))
    return 0


if __name__ == '__main__':
    sys.exit(main())
