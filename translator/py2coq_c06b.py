#!/venv/bin/python
"""Fail-closed translator of the Fourier-moment / bandwidth / dominant-period statements (property C06)  ->  coq/gen/Gen_c06b.v

    eqsig/fns/frequency.py  calc_fourier_moment(asig, n)          -> gen_fourier_moment   : T * T           (a complex number)
                            get_bandwidth_boore_2003(asig)        -> gen_bandwidth_boore  : option (T * T)  (None = nan + nan j)
    eqsig/im.py             max_fa_period(asig)                   -> gen_max_fa_period    : option T        (None = inf / nan)

`asig.fa_spectrum` is the COMPLEX one-sided spectrum: a complex array is two terms (real parts, imaginary parts), a complex
scalar one term of type T * T.  The arithmetic of Python / NumPy on them is read as the textbook formulas on pairs, written out in
the fixed header of the generated file (c_mul, c_scale, c_pow, c_div, np_fdiv, np_trapz): that reading is what is trusted.
NOT translated (Section variables of the generated file): `np.pi` -> pi, `np.abs` of a complex array -> cabs re im (pointwise),
`np.sqrt` of a complex scalar -> csqrt.  coq/proofs/P_gen_c06b.v proves every generated definition equal to the model of
model/M_fourier.v for ALL inputs and every NumOps instance, so a changed operand, index, literal, attribute, keyword or operator
changes the generated text and breaks a proof obligation of Prop_C06_source on the next run.

Each function body is evaluated symbolically, statement by statement; local assignments are substituted into their uses (a
renamed temporary gives the same text).  Anything outside the whitelist raises `Unsupported`.

values      : O the object parameter | NAT the int parameter n (a non-negative int; a float n is outside the model) | I int literal
              | RS real scalar | CS complex scalar | OCS optional complex scalar | ORS optional real scalar | RV real vector
              | CV complex vector | IDX index
expressions : int literals, float literals that are short decimals; names of earlier assignments;
              `o.fa_frequencies`, `o.fa_freqs` -> fr;  `o.fa_spectrum` -> (re, im);  `np.pi` -> pi;
              I * RS, RS * I, RS * RS -> a * b;  (I | RS) * RV -> map (fun x => s * x);  RV * (I | RS) -> map (fun x => x * s);
              RV * RV -> map2 nmul;  RV * CV, CV * RV -> map2 nmul on both parts;  (I | RS) * CS -> c_scale;  CS * CS -> c_mul;
              CS / CS -> c_div (None on the complex zero);  RS / RS -> np_fdiv (None on 0: numpy's inf / nan with a RuntimeWarning);
              RV ** (NAT | I) -> map (fun x => npow x k);  CV ** (NAT | I) -> c_pow pointwise;  CS ** (NAT | I) -> c_pow;
              `np.trapz(RV | CV, x=RV)` -> np_trapz (each part);  `np.abs(CV)` -> map2 cabs re im;  `np.abs(RV)` -> vabs;
              `np.argmax(RV)` -> argmax;  `np.argmin(RV)` -> np_argmin;  `RV[IDX]` -> nth k v n0;
              `np.sqrt(CS)` -> csqrt z;  `np.sqrt(OCS)` -> option_map csqrt z;
              `calc_fourier_moment(o, I)` (the function translated first, same module) -> gen_fourier_moment k fr re im
statements  : docstring;  `name = e`;  `return e` (of the kind the specification expects) as the last statement
"""
import ast, os, sys

HERE = os.path.dirname(os.path.abspath(__file__))
sys.path.insert(0, HERE)
from py2coq_numpy import Unsupported, fail, dotted, literal, zlit       # noqa: E402
from py2coq_c06 import check_module, find_function, par               # noqa: E402

VERIF = os.path.dirname(HERE)
OUT = os.path.join(VERIF, 'coq', 'gen', 'Gen_c06b.v')
RESERVED = {'np', 'numpy', 'int', 'len', 'range', 'abs', 'True', 'False', 'None', 'calc_fourier_moment'}
COQNAMES = {'fr', 're', 'im', 'n', 'pi', 'cabs', 'csqrt', 'x', 'a', 'b'}
OBJ_ATTRS = {'fa_frequencies': ('RV', 'fr', None), 'fa_freqs': ('RV', 'fr', None), 'fa_spectrum': ('CV', 're', 'im')}

SPECS = [
    dict(file='eqsig/fns/frequency.py', cls=None, func='calc_fourier_moment', gen='gen_fourier_moment',
         params=[('asig', 'O'), ('n', 'NAT')], binders='(n : nat) (fr re im : list T)', ret='CS'),
    dict(file='eqsig/fns/frequency.py', cls=None, func='get_bandwidth_boore_2003', gen='gen_bandwidth_boore',
         params=[('asig', 'O')], binders='(fr re im : list T)', ret='OCS'),
    dict(file='eqsig/im.py', cls=None, func='max_fa_period', gen='gen_max_fa_period',
         params=[('asig', 'O')], binders='(fr re im : list T)', ret='ORS'),
]
RET_TYPES = {'CS': 'T * T', 'OCS': 'option (T * T)', 'ORS': 'option T'}
CALLABLE = {'calc_fourier_moment': 'gen_fourier_moment'}               # module-level function -> generated name (same file only)


class Val:
    def __init__(self, kind, t=None, im=None, k=None):
        self.kind, self.t, self.im, self.k = kind, t, im, k


def scalar_of(v):
    """the T-term of an int literal or a real scalar"""
    return zlit(v.k) if v.kind == 'I' else v.t


def exponent_of(e, v):
    if v.kind == 'NAT':
        return v.t
    if v.kind == 'I':
        if v.k < 0 or v.k > 64:
            fail(e, 'exponent %d' % v.k)
        return '%d%%nat' % v.k
    fail(e, 'exponent of kind %s' % v.kind)


class Ctx:
    def __init__(self, spec, translated):
        self.spec, self.translated = spec, translated

    def ev(self, e, env):
        if isinstance(e, ast.Constant):
            v = e.value
            if type(v) is int:
                if abs(v) > 10 ** 9:
                    fail(e, 'integer literal too large')
                return Val('I', k=v)
            if type(v) is float:
                return Val('RS', literal(e).term)
            fail(e, 'literal %r' % (v,))
        if isinstance(e, ast.Name):
            v = env.get(e.id)
            if v is None:
                fail(e, 'unknown name %s' % e.id)
            if v.kind == 'O':
                fail(e, 'the object parameter in expression position')
            return v
        if isinstance(e, ast.Attribute):
            if isinstance(e.value, ast.Name) and env.get(e.value.id) is not None and env[e.value.id].kind == 'O':
                if e.attr not in OBJ_ATTRS:
                    fail(e, 'attribute .%s of the object parameter' % e.attr)
                return Val(*OBJ_ATTRS[e.attr])
            if dotted(e) == 'np.pi' and 'np' not in env:
                return Val('RS', 'pi')
            fail(e, 'attribute %s' % (dotted(e) or '?'))
        if isinstance(e, ast.BinOp):
            return self.binop(e, env)
        if isinstance(e, ast.Subscript):
            x = self.ev(e.value, env)
            sl = e.slice
            if isinstance(sl, ast.Index):      # python < 3.9
                sl = sl.value
            if isinstance(sl, (ast.Slice, ast.Tuple)):
                fail(e, 'subscript other than v[index]')
            k = self.ev(sl, env)
            if (x.kind, k.kind) != ('RV', 'IDX'):
                fail(e, 'subscript %s[%s]' % (x.kind, k.kind))
            return Val('RS', 'nth %s %s n0' % (par(k.t), par(x.t)))
        if isinstance(e, ast.Call):
            return self.call(e, env)
        fail(e, 'expression %s' % type(e).__name__)

    def binop(self, e, env):
        x, y = self.ev(e.left, env), self.ev(e.right, env)
        op, kk = type(e.op), (x.kind, y.kind)
        sc = ('I', 'RS')
        if op is ast.Mult:
            if x.kind in sc and y.kind in sc and kk != ('I', 'I'):
                return Val('RS', '%s * %s' % (par(scalar_of(x)), par(scalar_of(y))))
            if x.kind in sc and y.kind == 'RV':
                return Val('RV', 'map (fun x => %s * x) %s' % (par(scalar_of(x)), par(y.t)))
            if x.kind == 'RV' and y.kind in sc:
                return Val('RV', 'map (fun x => x * %s) %s' % (par(scalar_of(y)), par(x.t)))
            if kk == ('RV', 'RV'):
                return Val('RV', 'map2 nmul %s %s' % (par(x.t), par(y.t)))
            if kk == ('RV', 'CV'):
                return Val('CV', 'map2 nmul %s %s' % (par(x.t), par(y.t)), 'map2 nmul %s %s' % (par(x.t), par(y.im)))
            if kk == ('CV', 'RV'):
                return Val('CV', 'map2 nmul %s %s' % (par(x.t), par(y.t)), 'map2 nmul %s %s' % (par(x.im), par(y.t)))
            if x.kind in sc and y.kind == 'CS':
                return Val('CS', 'c_scale %s %s' % (par(scalar_of(x)), par(y.t)))
            if kk == ('CS', 'CS'):
                return Val('CS', 'c_mul %s %s' % (par(x.t), par(y.t)))
        if op is ast.Div:
            if kk == ('CS', 'CS'):
                return Val('OCS', 'c_div %s %s' % (par(x.t), par(y.t)))
            if kk == ('RS', 'RS'):
                return Val('ORS', 'np_fdiv %s %s' % (par(x.t), par(y.t)))
        if op is ast.Pow and y.kind in ('NAT', 'I'):
            k = exponent_of(e, y)
            if x.kind == 'RV':
                return Val('RV', 'map (fun x => npow x %s) %s' % (k, par(x.t)))
            if x.kind == 'RS':
                return Val('RS', 'npow %s %s' % (par(x.t), k))
            if x.kind == 'CV':
                return Val('CV', 'map2 (fun a b => fst (c_pow (a, b) %s)) %s %s' % (k, par(x.t), par(x.im)),
                           'map2 (fun a b => snd (c_pow (a, b) %s)) %s %s' % (k, par(x.t), par(x.im)))
            if x.kind == 'CS':
                return Val('CS', 'c_pow %s %s' % (par(x.t), k))
        fail(e, 'operator %s on %s, %s' % (op.__name__, x.kind, y.kind))

    def call(self, e, env):
        d = dotted(e.func)
        if d is None:
            fail(e, 'call of a computed function')
        if d.split('.')[0] in env:
            fail(e, 'call through the local name %s' % d.split('.')[0])
        args, kws = e.args, {k.arg: k.value for k in e.keywords}
        if any(isinstance(a, ast.Starred) for a in args) or None in kws or len(kws) != len(e.keywords):
            fail(e, 'star / repeated arguments')

        def one(kinds):
            if len(args) != 1 or kws:
                fail(e, '%s arguments' % d)
            v = self.ev(args[0], env)
            if v.kind not in kinds:
                fail(e, '%s of a %s' % (d, v.kind))
            return v
        if d == 'np.trapz':
            if len(args) != 1 or set(kws) != {'x'}:
                fail(e, 'np.trapz other than np.trapz(y, x=x)')
            y, x = self.ev(args[0], env), self.ev(kws['x'], env)
            if x.kind != 'RV' or y.kind not in ('RV', 'CV'):
                fail(e, 'np.trapz(%s, x=%s)' % (y.kind, x.kind))
            if y.kind == 'RV':
                return Val('RS', 'np_trapz %s %s' % (par(y.t), par(x.t)))
            return Val('CS', '(np_trapz %s %s,\n     np_trapz %s %s)' % (par(y.t), par(x.t), par(y.im), par(x.t)))
        if d == 'np.abs':
            v = one(('CV', 'RV'))
            if v.kind == 'CV':
                return Val('RV', 'map2 cabs %s %s' % (par(v.t), par(v.im)))
            return Val('RV', 'vabs %s' % par(v.t))
        if d == 'np.argmax':
            return Val('IDX', 'argmax %s' % par(one(('RV',)).t))
        if d == 'np.argmin':
            return Val('IDX', 'np_argmin %s' % par(one(('RV',)).t))
        if d == 'np.sqrt':
            v = one(('CS', 'OCS'))
            return Val(v.kind, ('csqrt %s' if v.kind == 'CS' else 'option_map csqrt %s') % par(v.t))
        if d in CALLABLE:
            if d not in self.translated or self.translated[d] != self.spec['file']:
                fail(e, '%s is not a translated function of this module' % d)
            if len(args) != 2 or kws or not (isinstance(args[0], ast.Name) and env.get(args[0].id) is not None and env[args[0].id].kind == 'O'):
                fail(e, '%s arguments other than (the object parameter, exponent)' % d)
            k = self.ev(args[1], env)
            return Val('CS', '%s %s fr re im' % (CALLABLE[d], exponent_of(e, k)))
        fail(e, 'call of %s' % d)

    def block(self, stmts, env):
        env = dict(env)
        params = [p for p, _ in self.spec['params']]
        for i, s in enumerate(stmts):
            if isinstance(s, ast.Expr) and isinstance(s.value, ast.Constant) and isinstance(s.value.value, str):
                continue                                                 # docstring
            if isinstance(s, ast.Assign):
                if len(s.targets) != 1 or not isinstance(s.targets[0], ast.Name):
                    fail(s, 'assignment other than `name = e`')
                name = s.targets[0].id
                if name in RESERVED or name in params:
                    fail(s, 'assignment to %s' % name)
                env[name] = self.ev(s.value, env)
                continue
            if isinstance(s, ast.Return):
                if i != len(stmts) - 1 or s.value is None:
                    fail(s, 'return that is not the last statement / returns nothing')
                v = self.ev(s.value, env)
                if v.kind != self.spec['ret']:
                    fail(s, 'the function returns a %s, expected a %s' % (v.kind, self.spec['ret']))
                return v.t
            fail(s, 'statement %s' % type(s).__name__)
        raise Unsupported('control reaches the end of %s without a return' % self.spec['func'])


def translate_function(tree, spec, translated):
    fn = find_function(tree, spec)
    if fn.args.defaults:
        fail(fn, '%s: default values' % spec['func'])
    env = {}
    for p, k in spec['params']:
        if p in RESERVED or p in COQNAMES - {'n'}:
            raise Unsupported('parameter named %s' % p)
        env[p] = Val(k, p)
    term = Ctx(spec, translated).block(list(fn.body), env)
    where = '%s: %s(%s)' % (spec['file'], spec['func'], ast.unparse(fn.args))
    return '(** %s *)\nDefinition %s %s : %s :=\n  %s.\n' % (where, spec['gen'], spec['binders'], RET_TYPES[spec['ret']], term)


HEADER = '''(** GENERATED by translator/py2coq_c06b.py from eqsig/fns/frequency.py (calc_fourier_moment, get_bandwidth_boore_2003) and
    eqsig/im.py (max_fa_period) -- do not edit; rewritten on every run.
    One definition per source function, generic over [NumOps T]; temporaries are substituted.
    Inputs: fr = asig.fa_frequencies, (re, im) = real / imaginary parts of the COMPLEX array asig.fa_spectrum, n = the int exponent.
    A complex scalar is a pair (re, im); [None] = numpy's nan / inf of a division by zero (RuntimeWarning).
    NOT translated (Section variables): pi = np.pi; [cabs a b] = np.abs(a + b j); [csqrt z] = np.sqrt of a complex scalar.
    The readings of Python / NumPy arithmetic on complex values and of np.trapz(y, x=x) = (diff(x) * (y[1:] + y[:-1]) / 2.0).sum()
    are the fixed definitions below (c_mul .. np_trapz); argmax / diff / nsum / map2 are lib/NpList.v, npow / np_argmin lib/NpHelpers.v.
    proofs/P_gen_c06b.v proves every gen_* definition equal to the model of model/M_fourier.v. *)
From Coq Require Import ZArith List Bool.
From EQ Require Import lib.Num lib.NpList lib.NpHelpers.
Import ListNotations.
Local Open Scope num_scope.

Section Generic.
Context {T : Type} `{NumOps T}.
Variable pi : T.
Variable cabs : T -> T -> T.
Variable csqrt : T * T -> T * T.

(** complex * complex; real * complex; complex ** k for an int k >= 0; complex / complex; float / float *)
Definition c_mul (a b : T * T) : T * T := (fst a * fst b - snd a * snd b, fst a * snd b + snd a * fst b).
Definition c_scale (s : T) (a : T * T) : T * T := (s * fst a, s * snd a).
Fixpoint c_pow (z : T * T) (k : nat) : T * T :=
  match k with O => (n1, n0) | S O => z | S j => c_mul z (c_pow z j) end.
Definition c_div (a b : T * T) : option (T * T) :=
  if (fst b =? n0) && (snd b =? n0) then None
  else Some ((fst a * fst b + snd a * snd b) / (fst b * fst b + snd b * snd b),
             (snd a * fst b - fst a * snd b) / (fst b * fst b + snd b * snd b)).
Definition np_fdiv (a b : T) : option T := if b =? n0 then None else Some (a / b).
Definition np_trapz (y x : list T) : T :=
  nsum (map2 (fun d s => d * s / nofZ 2) (diff x) (map2 nadd (tl y) (removelast y))).
'''


def translate_sources(read):
    """read(relative path) -> source text"""
    trees, translated, defs = {}, {}, []
    for spec in SPECS:
        try:
            if spec['file'] not in trees:
                t = ast.parse(read(spec['file']))
                check_module(t, spec['file'])
                trees[spec['file']] = t
            defs.append(translate_function(trees[spec['file']], spec, translated))
            translated[spec['func']] = spec['file']
        except Unsupported as e:
            raise Unsupported('%s:%s: %s' % (spec['file'], spec['func'], e))
    return HEADER + '\n' + '\n'.join(defs) + 'End Generic.\n'


def regenerate(repo=None, out=None):
    """returns True iff the file was rewritten; raises Unsupported / OSError / SyntaxError (fail closed).
    On failure the committed copy is left as it is: the caller reports the broken tie."""
    repo = repo or os.environ.get('EQSIG_REPO', '/repo')
    out = out or OUT
    text = translate_sources(lambda rel: open(os.path.join(repo, rel)).read())
    old = open(out).read() if os.path.exists(out) else None
    if old != text:
        os.makedirs(os.path.dirname(out), exist_ok=True)
        tmp = '%s.%d.tmp' % (out, os.getpid())
        with open(tmp, 'w') as f:
            f.write(text)
        os.replace(tmp, out)
        return True
    return False


def main():
    try:
        ch = regenerate(repo=sys.argv[1] if len(sys.argv) > 1 else None)
    except Exception as e:  # fail closed
        print('py2coq_c06b: translation FAILED: %s: %s' % (type(e).__name__, e))
        return 1
    print('py2coq_c06b: %s %s' % (os.path.relpath(OUT, VERIF), 'rewritten' if ch else 'unchanged'))
    return 0


if __name__ == '__main__':
    sys.exit(main())
