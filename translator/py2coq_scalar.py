#!/venv/bin/python
"""Fail-closed translator: a straight-line scalar Python function (assignments of arithmetic expressions over its
parameters, np.sqrt/exp/sin/cos, integer powers, float literals; 2x2 `np.array([[..],[..]])` results) -> Coq
definitions over R, one closed `let`-chain per returned scalar.

Used for eqsig/sdof.py:compute_a_and_b (property C01). Anything outside the supported grammar raises
Unsupported, which the harness reports as "translator tie broken".
"""
import ast, sys, os
from fractions import Fraction

FUNCS = {'sqrt': 'sqrt', 'exp': 'exp', 'sin': 'sin', 'cos': 'cos'}


class Unsupported(Exception):
    pass


def num(c):
    if isinstance(c, bool):
        raise Unsupported('bool constant')
    if isinstance(c, int):
        return str(c) if c >= 0 else '(%d)' % c
    if isinstance(c, float):
        fr = Fraction(repr(c))          # the decimal text of the literal, exactly
        if fr.denominator == 1:
            return str(fr.numerator) if fr >= 0 else '(%d)' % fr.numerator
        return '(%d / %d)' % (fr.numerator, fr.denominator)
    raise Unsupported('constant %r' % (c,))


def expr(e, env):
    if isinstance(e, ast.Name):
        if e.id not in env:
            raise Unsupported('unknown name %s' % e.id)
        return e.id
    if isinstance(e, ast.Constant):
        return num(e.value)
    if isinstance(e, ast.UnaryOp) and isinstance(e.op, ast.USub):
        return '(- %s)' % expr(e.operand, env)
    if isinstance(e, ast.BinOp):
        if isinstance(e.op, ast.Pow):
            if isinstance(e.right, ast.Constant) and isinstance(e.right.value, int) and 0 <= e.right.value <= 8:
                return '(%s ^ %d)' % (expr(e.left, env), e.right.value)
            raise Unsupported('power with non-literal or non-integer exponent')
        op = {ast.Add: '+', ast.Sub: '-', ast.Mult: '*', ast.Div: '/'}.get(type(e.op))
        if op is None:
            raise Unsupported('operator %s' % type(e.op).__name__)
        return '(%s %s %s)' % (expr(e.left, env), op, expr(e.right, env))
    if isinstance(e, ast.Call):
        f = e.func
        if isinstance(f, ast.Attribute) and isinstance(f.value, ast.Name) and f.value.id == 'np' and f.attr in FUNCS \
                and len(e.args) == 1 and not e.keywords:
            return '(%s %s)' % (FUNCS[f.attr], expr(e.args[0], env))
        raise Unsupported('call %s' % ast.dump(f))
    raise Unsupported('expression %s' % type(e).__name__)


def matrix(e, env):
    """np.array([[a,b],[c,d]]) -> [[a,b],[c,d]] of Coq expressions, or None"""
    if isinstance(e, ast.Call) and isinstance(e.func, ast.Attribute) and e.func.attr == 'array' \
            and isinstance(e.func.value, ast.Name) and e.func.value.id == 'np' and len(e.args) == 1 \
            and isinstance(e.args[0], ast.List):
        rows = []
        for r in e.args[0].elts:
            if not isinstance(r, ast.List):
                raise Unsupported('np.array argument is not a nested list')
            rows.append([expr(x, env) for x in r.elts])
        return rows
    return None


def translate_function(src, fname, prefix):
    tree = ast.parse(src)
    fn = [n for n in tree.body if isinstance(n, ast.FunctionDef) and n.name == fname]
    if len(fn) != 1:
        raise Unsupported('function %s not found exactly once' % fname)
    fn = fn[0]
    a = fn.args
    if a.vararg or a.kwarg or a.kwonlyargs or a.defaults or a.posonlyargs:
        raise Unsupported('non-plain parameters')
    params = [x.arg for x in a.args]
    env = set(params)
    lets, mats, ret = [], {}, None
    body = fn.body
    if body and isinstance(body[0], ast.Expr) and isinstance(body[0].value, ast.Constant) and isinstance(body[0].value.value, str):
        body = body[1:]
    for st in body:
        if ret is not None:
            raise Unsupported('statement after return')
        if isinstance(st, ast.Assign):
            if len(st.targets) != 1 or not isinstance(st.targets[0], ast.Name):
                raise Unsupported('assignment target')
            name = st.targets[0].id
            m = matrix(st.value, env)
            if m is not None:
                mats[name] = m
                continue
            if name in env or name in mats:
                raise Unsupported('re-assignment of %s' % name)
            lets.append((name, expr(st.value, env)))
            env.add(name)
        elif isinstance(st, ast.Return):
            v = st.value
            names = [v] if isinstance(v, ast.Name) else (v.elts if isinstance(v, ast.Tuple) else None)
            if names is None or not all(isinstance(n, ast.Name) and n.id in mats for n in names):
                raise Unsupported('return value must be matrices built with np.array')
            ret = [n.id for n in names]
        else:
            raise Unsupported('statement %s' % type(st).__name__)
    if ret is None:
        raise Unsupported('no return')
    out = []
    chain = ''.join('  let %s := %s in\n' % (n, e) for n, e in lets)
    args = ' '.join(params)
    for mname in ret:
        for i, row in enumerate(mats[mname]):
            for j, e in enumerate(row):
                out.append('Definition %s_%s%d%d (%s : R) : R :=\n%s  %s.\n' % (prefix, mname, i + 1, j + 1, args, chain, e))
    return params, out


def generate(repo, dest):
    src_path = os.path.join(repo, 'eqsig', 'sdof.py')
    src = open(src_path).read()
    params, defs = translate_function(src, 'compute_a_and_b', 'nj')
    if params != ['xi', 'w', 'dt']:
        raise Unsupported('compute_a_and_b parameters are %r' % (params,))
    if len(defs) != 8:
        raise Unsupported('expected two 2x2 matrices')
    text = ('(** GENERATED by translator/py2coq_scalar.py from eqsig/sdof.py:compute_a_and_b -- do not edit.\n'
            '    One closed expression per matrix entry, temporaries kept as let-bindings with the source names. *)\n'
            'From Coq Require Import Reals.\nLocal Open Scope R_scope.\n\n' + '\n'.join(defs))
    old = open(dest).read() if os.path.exists(dest) else None
    if old != text:
        os.makedirs(os.path.dirname(dest), exist_ok=True)
        open(dest, 'w').write(text)
    return text


if __name__ == '__main__':
    repo = sys.argv[1] if len(sys.argv) > 1 else os.environ.get('EQSIG_REPO', '/repo')
    here = os.path.dirname(os.path.dirname(os.path.abspath(__file__)))
    generate(repo, os.path.join(here, 'coq', 'gen', 'Gen_sdof_coeffs.v'))
    print('Gen_sdof_coeffs.v up to date')


def regenerate(repo=None, out=None):
    """uniform entry point for translator/regen.py: returns True iff the file was rewritten"""
    repo = repo or os.environ.get('EQSIG_REPO', '/repo')
    here = os.path.dirname(os.path.dirname(os.path.abspath(__file__)))
    out = out or os.path.join(here, 'coq', 'gen', 'Gen_sdof_coeffs.v')
    old = open(out).read() if os.path.exists(out) else None
    return generate(repo, out) != old
