#!/venv/bin/python
"""Fail-closed translator of the rotation / cluster-alignment statements (property C18)  ->  coq/gen/Gen_c18.v

    eqsig/multiple.py        combine_at_angle(acc_sig_ns, acc_sig_we, angle)            -> gen_combine_at_angle
                             compute_rotated(acc_sig_ns, acc_sig_we, angle_off_ns=0.0,
                                             parameter=None, func=None, points=100)     -> gen_rotated_guard, gen_rotated_degrees,
                                                                                           gen_rotated_item, gen_compute_rotated
                             Cluster.time_match(self, **kwargs)                         -> gen_tm_default_steps, gen_tm_length_check,
                                                                                           gen_tm_bm, gen_tm_om, gen_tm_init, gen_tm_step1..k,
                                                                                           gen_tm_search, gen_tm_after, gen_tm_iter
                             Cluster.same_start(self, **kwargs)                         -> gen_ss_default_start, gen_ss_default_end,
                                                                                           gen_ss_master_average, gen_ss_iter
    eqsig/fns/time_shift.py  time_indices(npts, dt, start, end, index)  [index is False] -> gen_time_indices
    eqsig/fns/average.py     get_section_average(series, start, end, index)             -> gen_section_average
    eqsig/single.py          Signal.get_section_average  (the forwarding wrapper: its exact shape is checked, nothing generated)

NOT translated (Section variables of the generated file): np.cos, np.sin (cos_, sin_), the constant pi inside np.radians (pi_),
eqsig.im.calc_arias_intensity (arias_; tied by C09), getattr(new_sig, parameter) (getattr_), the user's callable `func`
(a parameter of type signal -> scalar + array).  The outer `for s in range(len(self.signals))` loops of the two Cluster methods
are read as: one generated ITERATION function (of the index s and the values v that signal s holds when it is visited); the
shape of the loop header and of the final `return <the lag variable>` is checked.  `if verbose: print(..)` is skipped (checked
to contain only prints of call-free expressions, attribute reads and signal_by_index(..)).  The `index is not False` branch of
time_indices is checked to be the two plain copies and not translated (Cluster.same_start never takes it).

Every function body is evaluated symbolically, statement by statement; local assignments are substituted into their uses (a
renamed temporary or parameter gives the same text); the names that appear in the generated text are fixed by ROLE (position
of a parameter, kwargs key, the array that is sliced before / inside the signal loop, the compared / the other state variable of
a search loop).  An operand, index, sign, literal or comparison that changes in the source changes the generated text and breaks
an obligation of coq/proofs/P_gen_c18.v.  Anything outside the whitelist below raises `Unsupported`.

values      : S float | Z int | I int literal (becomes Z or S where it is used) | N signal index (nat) | V array | L python list
              | SIG signal object (values, dt; npts = len(values)) | OS float-or-raise | optional parameters | DYN scalar-or-array
expressions : names; int / float literals; S,Z arithmetic (+ - * /; / only on floats); unary minus;
              V * S, V - S -> map;  V + V, V - V -> vadd, vsub;  V ** 2 -> vsq;  L + L -> ++;  [x] * k -> py_rep x k;
              v[a:b] / v[:b] / v[a:] with int bounds -> py_slice;  v[k] with an int literal -> py_get (py_item for the last
              Arias value, whose IndexError is kept);  np.radians, np.cos, np.sin, np.linspace(a, b, n), np.mod(v, m),
              np.sum(v) / sum(v) -> nsum,  np.mean(v) -> np_mean,  min(a, b) / abs(a) on ints,  int(x) on a float -> py_int,
              list(v), np.array(list), AccSignal(values, dt), sig.values / sig.dt / sig.npts,
              self.signal_by_index(k) (k an int literal, self.master_index or the loop index), self.master_index,
              kwargs.get('key', literal), combine_at_angle(..) (the generated definition), time_indices(..), x.get_section_average(start=, end=)
statements  : docstring; name = e; assert (isinstance(x, AccSignal) dropped, comparisons collected into the guard);
              for i in range(len(v)) with an append per path -> map / opt_all;  if / elif / else on comparisons, `x is None`,
              `x is not None`, `x == "literal"`, hasattr(val, "__len__");  raise -> None;  continue;
              for i in range(steps): ...; if e < state: state = e; ind = f(i)   (search loop: a fold with state (ind, err));
              x.reset_values(e);  return.
"""
import ast, copy, os, sys

HERE = os.path.dirname(os.path.abspath(__file__))
VERIF = os.path.dirname(HERE)
OUT = os.path.join(VERIF, 'coq', 'gen', 'Gen_c18.v')
sys.path.insert(0, HERE)
from py2coq_numpy import Unsupported, fail, literal, dotted  # noqa: E402

F_MULT, F_AVG, F_TS, F_SINGLE = 'eqsig/multiple.py', 'eqsig/fns/average.py', 'eqsig/fns/time_shift.py', 'eqsig/single.py'


# ---------------------------------------------------------------- modules
WATCHED = ('np', 'eqsig', 'AccSignal', 'time_indices', 'get_section_average', 'combine_at_angle', 'sum', 'min', 'abs', 'int', 'list',
           'len', 'getattr', 'hasattr', 'isinstance', 'range', 'print')


class Mod:
    """one source file: top-level functions, imports; a watched name may be bound at most once at module level"""
    def __init__(self, path, src):
        self.path, self.tree = path, ast.parse(src)
        self.funcs, count = {}, {}
        for st in self.tree.body:
            bound = []
            if isinstance(st, (ast.FunctionDef, ast.ClassDef, ast.AsyncFunctionDef)):
                bound = [st.name]
                if isinstance(st, ast.FunctionDef):
                    self.funcs[st.name] = st
            elif isinstance(st, ast.Import):
                bound = [al.asname or al.name.split('.')[0] for al in st.names]
            elif isinstance(st, ast.ImportFrom):
                bound = [al.asname or al.name for al in st.names]
                if '*' in bound:
                    raise Unsupported('%s: star import' % path)
            else:
                for n in ast.walk(st):
                    if isinstance(n, ast.Name) and isinstance(n.ctx, (ast.Store, ast.Del)):
                        bound.append(n.id)
                    if isinstance(n, (ast.Import, ast.ImportFrom, ast.FunctionDef, ast.ClassDef, ast.Global)):
                        raise Unsupported('%s: nested binding statement at module level (line %s)' % (path, st.lineno))
            for b in bound:
                count[b] = count.get(b, 0) + 1
        for b, c in count.items():
            if c > 1 and (b in WATCHED or b in self.funcs):
                raise Unsupported('%s: %s is bound %d times at module level' % (path, b, c))
        self.np_ok = imports_of(self).get('np') == ('import', 'numpy', 'numpy')

    def func(self, name, node=None):
        f = self.funcs.get(name)
        if f is None or f.decorator_list:
            raise Unsupported('%s: function %s not found (or decorated)' % (self.path, name))
        return f


def zlit(k):
    """int literal used as a float"""
    if k < 0:
        return '- %s' % pp(zlit(-k))
    return 'n0' if k == 0 else 'n1' if k == 1 else 'nofZ %d' % k


# ---------------------------------------------------------------- values
class Val:
    def __init__(self, kind, term=None, **kw):
        self.kind, self.term = kind, term
        self.__dict__.update(kw)


def zz(k):
    return '%d%%Z' % k if k >= 0 else '(%d)%%Z' % k


def to_s(v, node):
    if v.kind == 'S':
        return v.term
    if v.kind == 'I':
        return zlit(v.term)
    fail(node, 'a %s where a float is expected' % v.kind)


def to_z(v, node):
    if v.kind == 'Z':
        return v.term
    if v.kind == 'I':
        return zz(v.term)
    fail(node, 'a %s where an int is expected' % v.kind)


def sig_whole(v):
    return v.whole if getattr(v, 'whole', None) else '(%s, %s)' % (v.values, v.dt)


def sig_values(v):
    return 'fst (%s)' % v.whole if getattr(v, 'whole', None) else v.values


def sig_dt(v):
    return 'snd (%s)' % v.whole if getattr(v, 'whole', None) else v.dt


def pp(t):
    """parenthesise a term unless it is atomic"""
    t = t.strip()
    if t.replace('_', 'a').replace("'", 'a').isalnum() or (t.endswith('%Z') and t[:-2].isdigit()):
        return t
    if t.startswith('(') and t.endswith(')'):
        d = 0
        for k, c in enumerate(t):
            d += c == '('
            d -= c == ')'
            if d == 0 and k < len(t) - 1:
                break
        else:
            return t
    return '(%s)' % t


# ---------------------------------------------------------------- locating code
def top_function(mod, name):
    return mod.func(name)


def method(mod, cls, name):
    cs = [s for s in mod.tree.body if isinstance(s, ast.ClassDef) and s.name == cls]
    if len(cs) != 1 or cs[0].decorator_list:
        raise Unsupported('%s: class %s not found exactly once' % (mod.path, cls))
    ms = [s for s in cs[0].body if isinstance(s, ast.FunctionDef) and s.name == name]
    if len(ms) != 1 or ms[0].decorator_list:
        raise Unsupported('%s: method %s.%s not found exactly once (undecorated)' % (mod.path, cls, name))
    for s in cs[0].body:       # the accessors the reading relies on
        if isinstance(s, ast.Assign) and any(isinstance(t, ast.Name) and t.id == name for t in s.targets):
            raise Unsupported('%s: %s.%s is re-bound in the class body' % (mod.path, cls, name))
    return ms[0]


def imports_of(mod):
    """bound name -> ('import', dotted module) | ('from', module, name, level)"""
    out = {}
    for st in mod.tree.body:
        if isinstance(st, ast.Import):
            for al in st.names:
                out[al.asname or al.name.split('.')[0]] = ('import', al.name if al.asname else al.name.split('.')[0], al.name)
        elif isinstance(st, ast.ImportFrom):
            for al in st.names:
                out[al.asname or al.name] = ('from', st.module, al.name, st.level)
    return out


def docstring(s):
    return isinstance(s, ast.Expr) and isinstance(s.value, ast.Constant) and isinstance(s.value.value, str)


def plain_args(fn, names=None, n=None):
    a = fn.args
    if a.vararg or a.kwonlyargs or getattr(a, 'posonlyargs', []):
        fail(fn, '%s: unsupported signature' % fn.name)
    got = [x.arg for x in a.args]
    if n is not None and len(got) != n:
        fail(fn, '%s: %d parameters expected' % (fn.name, n))
    return got


def check_print_block(s, env):
    """`if verbose: print(..)+` -- no effect on any value: only prints of names, literals, attribute reads and signal_by_index"""
    if not (isinstance(s.test, ast.Name) and env.get(s.test.id) is not None and env[s.test.id].kind == 'VERB' and not s.orelse):
        return False
    for b in s.body:
        if not (isinstance(b, ast.Expr) and isinstance(b.value, ast.Call) and isinstance(b.value.func, ast.Name)
                and b.value.func.id == 'print' and not b.value.keywords):
            fail(b, 'statement other than print(..) under `if verbose:`')
        for a in b.value.args:
            for n in ast.walk(a):
                if isinstance(n, ast.Call) and not (isinstance(n.func, ast.Attribute) and n.func.attr == 'signal_by_index'):
                    fail(b, 'call inside a verbose print')
                if isinstance(n, (ast.NamedExpr, ast.Lambda, ast.Await, ast.Yield, ast.YieldFrom, ast.Starred)):
                    fail(b, 'expression form inside a verbose print')
    return True


# ---------------------------------------------------------------- expression evaluator
class Ev:
    """symbolic evaluation of expressions of one function; `hooks` are per-function extras"""

    def __init__(self, mods, fname):
        self.mods, self.fname = mods, fname
        self.mod = mods[fname]
        self.mult = mods[F_MULT]
        self.self_name = None          # name of `self` in a Cluster method
        self.cur_index = None          # (loop variable name) of the signal loop: signal_by_index(<it>) is the visited signal
        self.combine_ok = False

    def need_np(self, node):
        if not self.mult_np:
            fail(node, 'np is not `import numpy as np`')

    def expr(self, e, env):
        if isinstance(e, ast.Constant):
            if isinstance(e.value, bool) or e.value is None:
                return Val('CONST', e.value)
            if isinstance(e.value, str):
                return Val('STRLIT', e.value)
            if isinstance(e.value, int):
                if abs(e.value) > 10 ** 9:
                    fail(e, 'integer literal too large')
                return Val('I', e.value)
            return Val('S', literal(e).term)
        if isinstance(e, ast.Name):
            if e.id in env:
                return env[e.id]
            fail(e, 'unknown name %s' % e.id)
        if isinstance(e, ast.UnaryOp) and isinstance(e.op, ast.USub):
            x = self.expr(e.operand, env)
            if x.kind == 'I':
                return Val('I', -x.term)
            if x.kind == 'Z':
                return Val('Z', '(- %s)%%Z' % pp(x.term))
            if x.kind == 'S':
                return Val('S', '- %s' % pp(x.term))
            fail(e, 'unary minus of a %s' % x.kind)
        if isinstance(e, ast.BinOp):
            return self.binop(e, env)
        if isinstance(e, ast.Attribute):
            return self.attribute(e, env)
        if isinstance(e, ast.Subscript):
            return self.subscript(e, env)
        if isinstance(e, ast.Call):
            return self.call(e, env)
        if isinstance(e, ast.List):
            if len(e.elts) == 0:
                return Val('EMPTY')
            if len(e.elts) == 1:
                return Val('L1', to_s(self.expr(e.elts[0], env), e))
            fail(e, 'list display with more than one element')
        fail(e, 'expression %s' % type(e).__name__)

    def binop(self, e, env):
        if isinstance(e.op, ast.Pow):
            x = self.expr(e.left, env)
            if not (isinstance(e.right, ast.Constant) and type(e.right.value) is int and e.right.value == 2):
                fail(e, 'exponent other than the literal 2')
            if x.kind == 'V':
                return Val('V', 'vsq %s' % pp(x.term))
            if x.kind == 'S':
                return Val('S', '%s * %s' % (pp(x.term), pp(x.term)))
            fail(e, 'power of a %s' % x.kind)
        sym = {ast.Add: '+', ast.Sub: '-', ast.Mult: '*', ast.Div: '/'}.get(type(e.op))
        if sym is None:
            fail(e, 'binary operator %s' % type(e.op).__name__)
        x, y = self.expr(e.left, env), self.expr(e.right, env)
        kx, ky = x.kind, y.kind
        if kx == 'I' and ky == 'I':
            fail(e, 'arithmetic on two int literals')
        if {kx, ky} <= {'Z', 'I'}:
            if sym == '/':
                fail(e, 'true division of ints')
            return Val('Z', '(%s %s %s)%%Z' % (pp(to_z(x, e)), sym, pp(to_z(y, e))))
        if {kx, ky} <= {'S', 'I'}:
            return Val('S', '%s %s %s' % (pp(to_s(x, e)), sym, pp(to_s(y, e))))
        if kx == 'V' and ky in ('S', 'I'):
            if sym in ('*', '-', '/', '+'):
                return Val('V', 'map (fun x => x %s %s) %s' % (sym, pp(to_s(y, e)), pp(x.term)))
        if kx == 'V' and ky == 'V':
            name = {'+': 'vadd', '-': 'vsub', '*': 'vmul'}.get(sym)
            if name is None:
                fail(e, 'vector / vector')
            return Val('V', '%s %s %s' % (name, pp(x.term), pp(y.term)))
        if kx == 'L' and ky == 'L' and sym == '+':
            return Val('L', '%s ++ %s' % (pp(x.term), pp(y.term)))
        if kx == 'L1' and ky in ('Z', 'I') and sym == '*':
            return Val('L', 'py_rep %s %s' % (pp(x.term), pp(to_z(y, e))))
        fail(e, 'operands of %s: %s, %s' % (sym, kx, ky))

    def attribute(self, e, env):
        if isinstance(e.value, ast.Name) and e.value.id == self.self_name:
            if e.attr == 'master_index':
                return Val('N', 'master')
            fail(e, 'attribute self.%s' % e.attr)
        x = self.expr(e.value, env)
        if x.kind == 'SIG':
            if e.attr == 'values':
                return Val('V', sig_values(x), of_signal=True)
            if e.attr == 'dt':
                return Val('S', sig_dt(x))
            if e.attr == 'npts':
                return Val('Z', 'Z.of_nat (length %s)' % pp(sig_values(x)))
        fail(e, 'attribute .%s of a %s' % (e.attr, x.kind))

    def bound(self, b, env, node):
        if b is None:
            return 'None'
        return 'Some %s' % pp(to_z(self.expr(b, env), node))

    def subscript(self, e, env):
        x = self.expr(e.value, env)
        sl = e.slice
        if x.kind == 'IDXV':
            fail(e, 'subscript of the loop index')
        if x.kind not in ('V', 'L'):
            fail(e, 'subscript of a %s' % x.kind)
        if isinstance(sl, ast.Slice):
            if sl.step is not None:
                fail(e, 'slice with a step')
            r = Val('V', 'py_slice %s %s %s' % (pp(self.bound(sl.lower, env, e)), pp(self.bound(sl.upper, env, e)), pp(x.term)))
            r.slice_of_signal = bool(getattr(x, 'of_signal', False))
            return r
        if isinstance(sl, ast.Name) and env.get(sl.id) is not None and env[sl.id].kind == 'IDX':
            if env[sl.id].term != x.term:
                fail(e, 'the loop index subscripts an array other than the one whose length is the range')
            return Val('S', 'd')
        k = self.expr(sl, env)
        if k.kind == 'I':
            return Val('S', 'py_get %s %s' % (pp(x.term), pp(zz(k.term))), item=(x.term, k.term))
        fail(e, 'subscript other than a slice or an int literal')

    def call(self, e, env):
        f = e.func
        args, kws = e.args, {k.arg: k.value for k in e.keywords}
        if any(isinstance(a, ast.Starred) for a in args) or None in kws:
            fail(e, 'star arguments')
        d = dotted(f)

        def pos(n):
            if len(args) != n or kws:
                fail(e, '%s: %d positional arguments expected' % (d, n))
            return [self.expr(a, env) for a in args]
        if d is not None and d.startswith('np.'):
            if not self.mod.np_ok or 'np' in env:
                fail(e, 'np is not `import numpy as np`')
            if d == 'np.radians':
                x, = pos(1)
                return Val('S', 'np_radians pi_ %s' % pp(to_s(x, e)))
            if d in ('np.cos', 'np.sin'):
                x, = pos(1)
                return Val('S', '%s_ %s' % (d[3:], pp(to_s(x, e))))
            if d == 'np.linspace':
                a, b, n = pos(3)
                return Val('V', 'np_linspace %s %s (Z.to_nat %s)' % (pp(to_s(a, e)), pp(to_s(b, e)), pp(to_z(n, e))))
            if d == 'np.mod':
                x, m = pos(2)
                if x.kind != 'V':
                    fail(e, 'np.mod of a %s' % x.kind)
                return Val('V', 'map (fun x => np_mod x %s) %s' % (pp(to_s(m, e)), pp(x.term)))
            if d == 'np.sum':
                x, = pos(1)
                if x.kind != 'V':
                    fail(e, 'np.sum of a %s' % x.kind)
                return Val('S', 'nsum %s' % pp(x.term))
            if d == 'np.mean':
                x, = pos(1)
                if x.kind != 'V':
                    fail(e, 'np.mean of a %s' % x.kind)
                return Val('S', 'np_mean %s' % pp(x.term))
            if d == 'np.array':
                x, = pos(1)
                if x.kind in ('V', 'L', 'ACC'):
                    return Val('V' if x.kind != 'ACC' else 'ACCV', x.term)
                fail(e, 'np.array of a %s' % x.kind)
            fail(e, 'call of %s' % d)
        if isinstance(f, ast.Name) and f.id not in env:
            if f.id in ('sum', 'min', 'abs', 'int', 'list', 'len', 'getattr', 'hasattr', 'isinstance', 'print', 'range'):
                if f.id in self.mods[self.fname].funcs or f.id in imports_of(self.mods[self.fname]):
                    fail(e, 'builtin %s is re-bound in the module' % f.id)
            if f.id == 'sum':
                x, = pos(1)
                if x.kind != 'V':
                    fail(e, 'sum of a %s' % x.kind)
                return Val('S', 'nsum %s' % pp(x.term))
            if f.id == 'min':
                a, b = pos(2)
                return Val('Z', 'Z.min %s %s' % (pp(to_z(a, e)), pp(to_z(b, e))))
            if f.id == 'abs':
                a, = pos(1)
                return Val('Z', 'Z.abs %s' % pp(to_z(a, e)))
            if f.id == 'int':
                a, = pos(1)
                if a.kind != 'S':
                    fail(e, 'int() of a %s' % a.kind)
                return Val('Z', 'py_int (%s)%%num' % a.term)
            if f.id == 'list':
                a, = pos(1)
                if a.kind not in ('V', 'L'):
                    fail(e, 'list() of a %s' % a.kind)
                return Val('L', a.term)
            if f.id == 'len':
                a, = pos(1)
                if a.kind not in ('V', 'L'):
                    fail(e, 'len() of a %s' % a.kind)
                return Val('Z', 'Z.of_nat (length %s)' % pp(a.term))
            if f.id == 'getattr':
                a, b = pos(2)
                if a.kind != 'SIG' or b.kind != 'STR':
                    fail(e, 'getattr other than getattr(<signal>, <the string parameter>)')
                return Val('S', 'getattr_ %s %s' % (pp(sig_whole(a)), b.term))
            if f.id == 'AccSignal':
                if imports_of(self.mult).get('AccSignal') != ('from', 'eqsig.single', 'AccSignal', 0) or self.fname != F_MULT:
                    fail(e, 'AccSignal is not imported from eqsig.single')
                a, b = pos(2)
                if a.kind != 'V' or b.kind != 'S':
                    fail(e, 'AccSignal(values, dt) operands')
                return Val('SIG', values=a.term, dt=b.term)
            if f.id == 'combine_at_angle' and self.fname == F_MULT and self.combine_ok:
                a, b, c = pos(3)
                if a.kind != 'SIG' or b.kind != 'SIG' or getattr(a, 'whole', None) or getattr(b, 'whole', None):
                    fail(e, 'combine_at_angle operands')
                return Val('SIG', whole='gen_combine_at_angle %s %s %s %s %s' % (pp(a.values), pp(a.dt), pp(b.values), pp(b.dt), pp(to_s(c, e))))
            fail(e, 'call of %s' % f.id)
        if isinstance(f, ast.Name) and env[f.id].kind == 'FUN':
            a, = pos(1)
            if a.kind != 'SIG':
                fail(e, 'the callable is applied to a %s' % a.kind)
            return Val('DYN', '%s %s' % (env[f.id].term, pp(sig_whole(a))))
        if d == 'eqsig.im.calc_arias_intensity' and self.fname == F_MULT:
            imp = imports_of(self.mult)
            if imp.get('eqsig') != ('import', 'eqsig', 'eqsig.im'):
                fail(e, 'eqsig.im is not imported')
            if 'eqsig' in env:
                fail(e, 'eqsig is a local name')
            a, = pos(1)
            if a.kind != 'SIG':
                fail(e, 'calc_arias_intensity of a %s' % a.kind)
            return Val('V', 'arias_ %s' % pp(sig_whole(a)), partial_item=True)
        if isinstance(f, ast.Attribute):
            if isinstance(f.value, ast.Name) and f.value.id == self.self_name and f.attr == 'signal_by_index':
                if len(args) != 1 or kws:
                    fail(e, 'signal_by_index arguments')
                a = args[0]
                if isinstance(a, ast.Name) and a.id == self.cur_index:
                    return Val('SIG', values='v', dt='dt', current=True)
                k = self.expr(a, env)
                if k.kind == 'I' and k.term >= 0:
                    return Val('SIG', values='nth %d sigs []' % k.term, dt='dt')
                if k.kind == 'N' and k.term == 'master':
                    return Val('SIG', values='nth master sigs []', dt='dt')
                fail(e, 'signal_by_index of something other than an int literal, self.master_index or the loop index')
            if f.attr == 'get' and isinstance(f.value, ast.Name) and env.get(f.value.id) is not None and env[f.value.id].kind == 'KWARGS':
                if len(args) != 2 or kws or not (isinstance(args[0], ast.Constant) and isinstance(args[0].value, str)) \
                        or not isinstance(args[1], ast.Constant):
                    fail(e, 'kwargs.get other than kwargs.get("key", literal)')
                return Val('KW', args[0].value, default=args[1])
            if f.attr == 'get_section_average':
                x = self.expr(f.value, env)
                if x.kind != 'SIG' or args or set(kws) != {'start', 'end'}:
                    fail(e, 'get_section_average other than <signal>.get_section_average(start=.., end=..)')
                a, b = self.expr(kws['start'], env), self.expr(kws['end'], env)
                return Val('OS', 'gen_section_average %s %s %s %s' % (pp(sig_values(x)), pp(sig_dt(x)), pp(to_s(a, e)), pp(to_s(b, e))))
        fail(e, 'call of %s' % (d or '?'))

    # ------------------------------------------------------------ conditions
    def compare(self, t, env):
        """comparison of numbers -> Coq bool term"""
        if not (isinstance(t, ast.Compare) and len(t.ops) == 1):
            fail(t, 'condition other than one comparison')
        x, y, op = self.expr(t.left, env), self.expr(t.comparators[0], env), type(t.ops[0])
        kx, ky = x.kind, y.kind
        if {kx, ky} <= {'Z', 'I'} and (kx, ky) != ('I', 'I'):
            a, b = pp(to_z(x, t)), pp(to_z(y, t))
            m = {ast.Lt: '(%s <? %s)%%Z', ast.Gt: '(%s >? %s)%%Z', ast.LtE: '(%s <=? %s)%%Z', ast.GtE: '(%s >=? %s)%%Z',
                 ast.Eq: '(%s =? %s)%%Z', ast.NotEq: 'negb (%s =? %s)%%Z'}.get(op)
            if m is None:
                fail(t, 'comparison operator')
            return m % (a, b)
        if {kx, ky} <= {'S', 'I'} and (kx, ky) != ('I', 'I'):
            a, b = pp(to_s(x, t)), pp(to_s(y, t))
            if op in (ast.Lt, ast.LtE, ast.Eq):
                return {ast.Lt: '(%s <? %s)%%num', ast.LtE: '(%s <=? %s)%%num', ast.Eq: '(%s =? %s)%%num'}[op] % (a, b)
            if op in (ast.Gt, ast.GtE):
                return {ast.Gt: '(%s <? %s)%%num', ast.GtE: '(%s <=? %s)%%num'}[op] % (b, a)
            if op is ast.NotEq:
                return 'negb (%s =? %s)%%num' % (a, b)
            fail(t, 'comparison operator')
        if kx == 'N' and ky == 'N':
            if op is ast.NotEq:
                return 'negb (Nat.eqb %s %s)' % (x.term, y.term)
            if op is ast.Eq:
                return 'Nat.eqb %s %s' % (x.term, y.term)
            fail(t, 'comparison of signal indices other than == / !=')
        fail(t, 'comparison of %s with %s' % (kx, ky))


def none_test(t, env):
    """`x is None` / `x is not None` on an optional parameter -> (name, True if the test holds when x is None)"""
    if isinstance(t, ast.Compare) and len(t.ops) == 1 and isinstance(t.ops[0], (ast.Is, ast.IsNot)) and isinstance(t.left, ast.Name) \
            and isinstance(t.comparators[0], ast.Constant) and t.comparators[0].value is None:
        v = env.get(t.left.id)
        if v is not None and v.kind in ('OPTSTR', 'OPTFUN'):
            return t.left.id, isinstance(t.ops[0], ast.Is)
    return None


def narrow(env, name, none):
    env = dict(env)
    v = env[name]
    if none:
        env[name] = Val('NONE')
    else:
        env[name] = Val('STR' if v.kind == 'OPTSTR' else 'FUN', v.term + "'")
    return env


# ---------------------------------------------------------------- combine_at_angle / compute_rotated
def straight_line(ev, stmts, env):
    """docstring, `name = e`, `return e` -> the returned value"""
    env = dict(env)
    for s in stmts:
        if docstring(s):
            continue
        if isinstance(s, ast.Assign) and len(s.targets) == 1 and isinstance(s.targets[0], ast.Name):
            env[s.targets[0].id] = ev.expr(s.value, env)
            continue
        if isinstance(s, ast.Return) and s.value is not None and s is stmts[-1]:
            return ev.expr(s.value, env)
        fail(s, 'statement %s' % type(s).__name__)
    raise Unsupported('control reaches the end without a return')


SIGB = '(ns : list T) (dt_ns : T) (we : list T) (dt_we : T)'
SIGA = 'ns dt_ns we dt_we'


def tr_combine(mods):
    m = mods[F_MULT]
    fn = top_function(m, 'combine_at_angle')
    p = plain_args(fn, n=3)
    if fn.args.defaults or fn.args.kwarg:
        fail(fn, 'combine_at_angle: unexpected defaults')
    ev = Ev(mods, F_MULT)
    env = {p[0]: Val('SIG', values='ns', dt='dt_ns'), p[1]: Val('SIG', values='we', dt='dt_we'), p[2]: Val('S', 'angle')}
    r = straight_line(ev, fn.body, env)
    if r.kind != 'SIG' or getattr(r, 'whole', None):
        fail(fn, 'combine_at_angle does not return a new AccSignal')
    return ('(** eqsig/multiple.py: combine_at_angle(%s) -- (values, dt) of the returned AccSignal *)\n'
            'Definition gen_combine_at_angle %s (angle : T) : list T * T :=\n  (%s,\n   %s).\n') % (', '.join(p), SIGB, r.values, r.dt)


def render_item(t, ind):
    sp = ' ' * ind
    k = t[0]
    if k == 'some':
        return '%sSome %s' % (sp, pp(t[1]))
    if k == 'opt':
        return sp + t[1]
    if k == 'none':
        return '%sNone' % sp
    if k == 'if':
        return '%sif %s then\n%s\n%selse\n%s' % (sp, t[1], render_item(t[2], ind + 2), sp, render_item(t[3], ind + 2))
    if k == 'match_opt':
        return '%smatch %s with\n%s| Some %s =>\n%s\n%s| None =>\n%s\n%send' % (
            sp, t[1], sp, t[2], render_item(t[3], ind + 4), sp, render_item(t[4], ind + 4), sp)
    if k == 'match_sum':
        return '%smatch %s with\n%s| inr %s =>\n%s\n%s| inl %s =>\n%s\n%send' % (
            sp, t[1], sp, t[2], render_item(t[3], ind + 4), sp, t[2], render_item(t[4], ind + 4), sp)
    raise Unsupported('internal: tree node %s' % k)


def item_block(ev, stmts, env, acc, depth=0):
    """body of the angle loop -> tree whose leaves are the appended value (one append per path) or a raise"""
    if depth > 8:
        fail(stmts[0], 'nesting too deep')
    env = dict(env)
    stmts = list(stmts)
    while stmts:
        s = stmts.pop(0)
        if isinstance(s, ast.Assign) and len(s.targets) == 1 and isinstance(s.targets[0], ast.Name):
            if s.targets[0].id == acc or env.get(s.targets[0].id) is not None and env[s.targets[0].id].kind in ('IDX', 'OPTSTR', 'OPTFUN', 'STR', 'FUN', 'NONE'):
                fail(s, 'assignment to a loop / optional name')
            env[s.targets[0].id] = ev.expr(s.value, env)
            continue
        if isinstance(s, ast.Assert) and none_test(s.test, env) is not None:
            name, holds_if_none = none_test(s.test, env)
            v = env[name]
            if v.kind == 'NONE' or v.kind in ('STR', 'FUN'):
                fail(s, 'assert on an already decided optional')
            rest = item_block(ev, stmts, narrow(env, name, holds_if_none), acc, depth + 1)
            if holds_if_none:
                return ('match_opt', v.term, '_', ('none',), rest)
            return ('match_opt', v.term, v.term + "'", rest, ('none',))
        if isinstance(s, ast.If):
            nt = none_test(s.test, env)
            if nt is not None:
                name, holds_if_none = nt
                v = env[name]
                if v.kind not in ('OPTSTR', 'OPTFUN'):
                    fail(s, 'None test on an already decided optional')
                a = item_block(ev, list(s.body) + stmts, narrow(env, name, holds_if_none), acc, depth + 1)
                b = item_block(ev, list(s.orelse) + stmts, narrow(env, name, not holds_if_none), acc, depth + 1)
                some, none = (b, a) if holds_if_none else (a, b)
                return ('match_opt', v.term, v.term + "'", some, none)
            t = s.test
            if isinstance(t, ast.Compare) and len(t.ops) == 1 and isinstance(t.ops[0], ast.Eq) and isinstance(t.left, ast.Name) \
                    and env.get(t.left.id) is not None and env[t.left.id].kind == 'OPTSTR' \
                    and isinstance(t.comparators[0], ast.Constant) and isinstance(t.comparators[0].value, str):
                lit = t.comparators[0].value
                if not lit.replace('_', 'a').isalnum():
                    fail(t, 'string literal')
                c = 'py_opt_streq %s "%s"%%string' % (env[t.left.id].term, lit)
                return ('if', c, item_block(ev, list(s.body) + stmts, env, acc, depth + 1),
                        item_block(ev, list(s.orelse) + stmts, env, acc, depth + 1))
            if isinstance(t, ast.Call) and isinstance(t.func, ast.Name) and t.func.id == 'hasattr' and 'hasattr' not in env \
                    and len(t.args) == 2 and not t.keywords and isinstance(t.args[0], ast.Name) \
                    and isinstance(t.args[1], ast.Constant) and t.args[1].value == '__len__':
                v = env.get(t.args[0].id)
                if v is None or v.kind != 'DYN':
                    fail(t, 'hasattr(.., "__len__") on something other than the result of the callable')
                ea, eb = dict(env), dict(env)
                ea[t.args[0].id] = Val('V', 'val', partial_item=True)
                eb[t.args[0].id] = Val('S', 'val')
                return ('match_sum', v.term, 'val', item_block(ev, list(s.body) + stmts, ea, acc, depth + 1),
                        item_block(ev, list(s.orelse) + stmts, eb, acc, depth + 1))
            fail(s, 'condition in the angle loop')
        if isinstance(s, ast.Raise):
            return ('none',)
        if isinstance(s, ast.Expr) and isinstance(s.value, ast.Call) and isinstance(s.value.func, ast.Attribute) \
                and s.value.func.attr == 'append' and isinstance(s.value.func.value, ast.Name) and s.value.func.value.id == acc \
                and len(s.value.args) == 1 and not s.value.keywords:
            if stmts:
                fail(stmts[0], 'statement after the append')
            a = s.value.args[0]
            # v[-1] of an array that may be empty: keep the IndexError
            if isinstance(a, ast.Subscript):
                base = ev.expr(a.value, env)
                k = ev.expr(a.slice, env) if not isinstance(a.slice, ast.Slice) else None
                if base.kind == 'V' and getattr(base, 'partial_item', False) and k is not None and k.kind == 'I':
                    return ('opt', 'py_item %s %s' % (pp(base.term), pp(zz(k.term))))
            return ('some', to_s(ev.expr(a, env), s))
        fail(s, 'statement %s in the angle loop' % type(s).__name__)
    raise Unsupported('a path through the angle loop appends nothing')


def tr_rotated(mods):
    m = mods[F_MULT]
    fn = top_function(m, 'compute_rotated')
    p = plain_args(fn, n=6)
    if fn.args.kwarg or len(fn.args.defaults) != 4:
        fail(fn, 'compute_rotated: signature')
    d_off, d_par, d_fun, d_pts = fn.args.defaults
    for dflt in (d_par, d_fun):
        if not (isinstance(dflt, ast.Constant) and dflt.value is None):
            fail(dflt, 'default of an optional parameter is not None')
    ev = Ev(mods, F_MULT)
    ev.combine_ok = True
    d_off_t, d_pts_t = to_s(ev.expr(d_off, {}), d_off), to_z(ev.expr(d_pts, {}), d_pts)
    env = {p[0]: Val('SIG', values='ns', dt='dt_ns'), p[1]: Val('SIG', values='we', dt='dt_we'), p[2]: Val('S', 'angle_off_ns'),
           p[3]: Val('OPTSTR', 'parameter'), p[4]: Val('OPTFUN', 'func'), p[5]: Val('Z', 'points')}
    guards = []
    stmts = list(fn.body)
    out = None
    while stmts:
        s = stmts.pop(0)
        if docstring(s):
            continue
        if isinstance(s, ast.Assert):
            t = s.test
            if s.msg is not None and any(isinstance(n, (ast.Call, ast.NamedExpr)) for n in ast.walk(s.msg)):
                fail(s, 'assert message with a call')
            if isinstance(t, ast.Call) and isinstance(t.func, ast.Name) and t.func.id == 'isinstance' and len(t.args) == 2 \
                    and not t.keywords and isinstance(t.args[0], ast.Name) and env.get(t.args[0].id) is not None \
                    and env[t.args[0].id].kind == 'SIG' and isinstance(t.args[1], ast.Name) and t.args[1].id == 'AccSignal':
                continue                                     # the type of the input
            guards.append(ev.compare(t, env))
            continue
        if isinstance(s, ast.Assign) and len(s.targets) == 1 and isinstance(s.targets[0], ast.Name):
            v = ev.expr(s.value, env)
            if v.kind == 'EMPTY':
                v = Val('ACC0')
            env[s.targets[0].id] = v
            continue
        if isinstance(s, ast.For):
            it = s.iter
            if s.orelse or not isinstance(s.target, ast.Name) or not (
                    isinstance(it, ast.Call) and isinstance(it.func, ast.Name) and it.func.id == 'range' and len(it.args) == 1
                    and not it.keywords and isinstance(it.args[0], ast.Call) and isinstance(it.args[0].func, ast.Name)
                    and it.args[0].func.id == 'len' and len(it.args[0].args) == 1 and not it.args[0].keywords):
                fail(s, 'loop other than `for i in range(len(v))`')
            vec = ev.expr(it.args[0].args[0], env)
            if vec.kind != 'V':
                fail(s, 'range(len(..)) of a %s' % vec.kind)
            accs = [n for n, v in env.items() if v.kind == 'ACC0']
            if len(accs) != 1 or out is not None:
                fail(s, 'the angle loop needs exactly one empty list to append to')
            lenv = dict(env)
            lenv[s.target.id] = Val('IDX', vec.term)
            tree = item_block(ev, s.body, lenv, accs[0])
            env[accs[0]] = Val('ACC', 'pvalues')
            out = (vec.term, tree)
            continue
        if isinstance(s, ast.Return) and not stmts:
            if out is None or not (isinstance(s.value, ast.Tuple) and len(s.value.elts) == 2):
                fail(s, 'return other than the pair after the loop')
            a, b = ev.expr(s.value.elts[0], env), ev.expr(s.value.elts[1], env)
            if a.kind != 'V' or b.kind != 'ACCV':
                fail(s, 'return other than (array, np.array(<the appended list>))')
            degs = 'gen_rotated_degrees angle_off_ns points'
            first = degs if a.term == out[0] else a.term
            txt = '(** eqsig/multiple.py: compute_rotated(%s)\n    defaults: angle_off_ns = %s, points = %s *)\n' % (', '.join(p), d_off_t, d_pts_t)
            txt += 'Definition gen_rotated_guard %s : bool :=\n  %s.\n' % (SIGB, ' && '.join(pp(g) for g in guards) if guards else 'true')
            txt += 'Definition gen_rotated_degrees (angle_off_ns : T) (points : Z) : list T :=\n  %s.\n' % out[0]
            optb = '(parameter : option string) (func : option (list T * T -> T + list T))'
            txt += 'Definition gen_rotated_item %s %s (d : T) : option T :=\n%s.\n' % (optb, SIGB, render_item(out[1], 2))
            txt += ('Definition gen_compute_rotated %s %s (angle_off_ns : T) (points : Z) : option (list T * list T) :=\n'
                    '  if gen_rotated_guard %s then\n'
                    '    match opt_all (map (gen_rotated_item parameter func %s) (%s)) with\n'
                    '    | Some pvalues => Some (%s, %s)\n    | None => None\n    end\n  else None.\n') % (optb, SIGB, SIGA, SIGA, degs, first, b.term)
            return txt
        fail(s, 'statement %s' % type(s).__name__)
    raise Unsupported('compute_rotated: no return')


# ---------------------------------------------------------------- Cluster methods
def kwargs_prelude(ev, fn, stmts, roles):
    """`name = kwargs.get('key', literal)` lines -> env; roles: key -> Val factory; returns (env, defaults)"""
    a = fn.args
    if len(a.args) != 1 or a.vararg or a.kwonlyargs or a.defaults or a.kwarg is None or getattr(a, 'posonlyargs', []):
        fail(fn, '%s: signature other than (self, **kwargs)' % fn.name)
    ev.self_name = a.args[0].arg
    env = {a.kwarg.arg: Val('KWARGS')}
    defaults = {}
    while stmts and (docstring(stmts[0]) or (isinstance(stmts[0], ast.Assign) and isinstance(stmts[0].value, ast.Call)
                                            and isinstance(stmts[0].value.func, ast.Attribute) and stmts[0].value.func.attr == 'get')):
        s = stmts.pop(0)
        if docstring(s):
            continue
        if len(s.targets) != 1 or not isinstance(s.targets[0], ast.Name):
            fail(s, 'kwargs.get target')
        kw = ev.expr(s.value, env)
        if kw.kind != 'KW':
            fail(s, 'kwargs.get')
        if kw.term in defaults:
            fail(s, 'kwargs key read twice')
        defaults[kw.term] = kw.default
        env[s.targets[0].id] = roles[kw.term]() if kw.term in roles else Val('UNUSED')
    return env, defaults


def signal_loop(ev, s, env):
    it = s.iter
    ok = (not s.orelse and isinstance(s.target, ast.Name) and isinstance(it, ast.Call) and isinstance(it.func, ast.Name)
          and it.func.id == 'range' and 'range' not in env and len(it.args) == 1 and not it.keywords
          and isinstance(it.args[0], ast.Call) and isinstance(it.args[0].func, ast.Name) and it.args[0].func.id == 'len'
          and len(it.args[0].args) == 1 and not it.args[0].keywords and dotted(it.args[0].args[0]) == '%s.signals' % ev.self_name)
    if not ok:
        fail(s, 'signal loop other than `for s in range(len(self.signals))`')
    return s.target.id


def render_tm(t, ind):
    sp = ' ' * ind
    if t[0] == 'if':
        return '%sif %s then\n%s\n%selse\n%s' % (sp, t[1], render_tm(t[2], ind + 2), sp, render_tm(t[3], ind + 2))
    if t[0] == 'leaf':
        return sp + t[1]
    raise Unsupported('internal: tree node')


class TimeMatch:
    def __init__(self, mods):
        self.mods = mods
        self.ev = Ev(mods, F_MULT)
        self.defs = []
        self.steps = []          # texts of the search steps
        self.state = None        # (ind name, err name)
        self.after = None

    def search_loop(self, s, env):
        """for i in range(steps): temporaries; [if verbose: ..]; if e < err: err = e; ind = f(i)"""
        ev = self.ev
        it = s.iter
        if s.orelse or not isinstance(s.target, ast.Name) or not (isinstance(it, ast.Call) and isinstance(it.func, ast.Name)
                                                                   and it.func.id == 'range' and len(it.args) == 1 and not it.keywords):
            fail(s, 'search loop other than `for i in range(n)`')
        n = ev.expr(it.args[0], env)
        if n.kind != 'Z' or n.term != 'steps':
            fail(s, 'search loop whose range is not the `steps` option')
        lenv = dict(env)
        lenv[s.target.id] = Val('Z', 'i')
        body = list(s.body)
        upd = None
        while body:
            b = body.pop(0)
            if isinstance(b, ast.Assign) and len(b.targets) == 1 and isinstance(b.targets[0], ast.Name):
                if b.targets[0].id == s.target.id:
                    fail(b, 'assignment to the loop variable')
                lenv[b.targets[0].id] = ev.expr(b.value, lenv)
                continue
            if isinstance(b, ast.If) and check_print_block(b, lenv):
                continue
            if isinstance(b, ast.If) and not body and not b.orelse:
                upd = b
                continue
            fail(b, 'statement %s in a search loop' % type(b).__name__)
        if upd is None:
            fail(s, 'search loop without the update')
        t = upd.test
        if not (isinstance(t, ast.Compare) and len(t.ops) == 1 and isinstance(t.comparators[0], ast.Name)):
            fail(t, 'update condition other than `<candidate> < <state>`')
        err_name = t.comparators[0].id
        cand = ev.expr(t.left, lenv)
        if cand.kind != 'S' or env.get(err_name) is None or env[err_name].kind != 'S':
            fail(t, 'update condition operands')
        senv = dict(lenv)
        senv[err_name] = Val('S', 'snd st')
        cond = ev.compare(t, senv)
        assigned = {}
        for b in upd.body:
            if not (isinstance(b, ast.Assign) and len(b.targets) == 1 and isinstance(b.targets[0], ast.Name)) or b.targets[0].id in assigned:
                fail(b, 'update body other than two assignments')
            assigned[b.targets[0].id] = ev.expr(b.value, lenv)
        if len(assigned) != 2 or err_name not in assigned:
            fail(upd, 'update body must assign the compared state and the index')
        ind_name = [k for k in assigned if k != err_name][0]
        if self.state is None:
            self.state = (ind_name, err_name)
        elif self.state != (ind_name, err_name):
            fail(upd, 'search loops with different state variables')
        new_err = assigned[err_name]
        if new_err.kind != 'S':
            fail(upd, 'the new error is a %s' % new_err.kind)
        new_ind = to_z(assigned[ind_name], upd)
        k = len(self.steps) + 1
        self.steps.append('Definition gen_tm_step%d (steps : Z) (bm om : list T) (st : Z * T) (i : Z) : Z * T :=\n'
                          '  if %s\n  then (%s,\n        %s)\n  else st.\n' % (k, cond, new_ind, new_err.term))
        if env.get(ind_name) is None:
            fail(upd, 'the index state is not initialised before the loop')
        if k == 1:
            self.init = (to_z(env[ind_name], s), to_s(env[err_name], s))
        return ind_name, err_name

    def block(self, stmts, env, phase, depth=0):
        """iteration body -> tree with leaves (reset option, lag option).  phase: 'pre' before the search loops, 'post' after"""
        ev = self.ev
        if depth > 8:
            fail(stmts[0], 'nesting too deep')
        env = dict(env)
        stmts = list(stmts)
        reset = None
        while stmts:
            s = stmts.pop(0)
            if isinstance(s, ast.Assign) and len(s.targets) == 1 and isinstance(s.targets[0], ast.Name):
                name = s.targets[0].id
                if env.get(name) is not None and env[name].kind in ('N', 'VERB', 'KWARGS', 'UNUSED', 'SETSTEP') or name == ev.cur_index:
                    fail(s, 'assignment to %s' % name)
                v = ev.expr(s.value, env)
                if v.kind == 'V' and getattr(v, 'slice_of_signal', False):
                    if phase['om'] is not None or phase['searched']:
                        fail(s, 'a second slice of signal values inside the loop')
                    phase['om'] = v.term
                    if any(d.startswith('Definition gen_tm_om') for d in self.defs):
                        fail(s, 'two paths slice the visited signal')
                    self.defs.append('Definition gen_tm_om (sigs : list (list T)) (v : list T) : list T :=\n  %s.\n' % v.term)
                    v = Val('V', 'om')
                env[name] = v
                continue
            if isinstance(s, ast.If) and check_print_block(s, env):
                continue
            if isinstance(s, ast.For):
                if phase['om'] is None or phase['after']:
                    fail(s, 'search loop in an unexpected place')
                ind, err = self.search_loop(s, env)
                phase['searched'] = True
                if not (stmts and isinstance(stmts[0], ast.For)):
                    # last search loop: from here on the state is the result of the fold
                    env[ind], env[err] = Val('Z', 'min_ind'), Val('S', 'min_diff')
                    phase['after'] = True
                    sub = self.block(stmts, env, phase, depth + 1)
                    self.after = sub
                    return ('leaf', 'SEARCH')
                else:
                    # between two search loops nothing else may happen: the state flows from one fold to the next
                    continue
            if isinstance(s, ast.If):
                c = ev.compare(s.test, env)
                a = self.block(list(s.body) + stmts, env, dict(phase), depth + 1)
                b = self.block(list(s.orelse) + stmts, env, dict(phase), depth + 1)
                return ('if', c, a, b)
            if isinstance(s, ast.Continue):
                return ('leaf', 'None') if phase['after'] else ('leaf', '(None, None)')
            if isinstance(s, ast.Expr) and isinstance(s.value, ast.Call) and isinstance(s.value.func, ast.Attribute) \
                    and s.value.func.attr == 'reset_values' and len(s.value.args) == 1 and not s.value.keywords:
                tgt = ev.expr(s.value.func.value, env)
                if tgt.kind != 'SIG' or not getattr(tgt, 'current', False) or not phase['after'] or reset is not None:
                    fail(s, 'reset_values other than once, on the visited signal, after the search')
                v = ev.expr(s.value.args[0], env)
                if v.kind not in ('L', 'V'):
                    fail(s, 'reset_values of a %s' % v.kind)
                reset = v.term
                continue
            fail(s, 'statement %s in the signal loop' % type(s).__name__)
        if phase['after']:
            return ('leaf', 'Some %s' % pp(reset) if reset is not None else 'None')
        fail(None, 'a path through the signal loop ends before the search')

    def run(self):
        m = self.mods[F_MULT]
        fn = method(m, 'Cluster', 'time_match')
        sbi = method(m, 'Cluster', 'signal_by_index')
        expect = "key_value_pair = list(self.signals.items())[index]\nreturn key_value_pair[1]"
        if ast.dump(ast.parse(expect).body[0]) != ast.dump(sbi.body[0]) or ast.dump(ast.parse('def f():\n return key_value_pair[1]').body[0].body[0]) != ast.dump(sbi.body[1]) \
                or len(sbi.body) != 2 or [a.arg for a in sbi.args.args] != ['self', 'index']:
            fail(sbi, 'Cluster.signal_by_index is not the plain accessor')
        ev = self.ev
        stmts = list(fn.body)
        env, defaults = kwargs_prelude(ev, fn, stmts, {'steps': lambda: Val('Z', 'steps'), 'verbose': lambda: Val('VERB'),
                                                      'set_step': lambda: Val('SETSTEP')})
        if 'steps' not in defaults or 'set_step' not in defaults or not (isinstance(defaults['set_step'].value, bool) and defaults['set_step'].value is False):
            fail(fn, 'time_match: options steps / set_step (default False)')
        d_steps = to_z(ev.expr(defaults['steps'], {}), fn)
        if len(stmts) != 2 or not isinstance(stmts[0], ast.If) or not isinstance(stmts[1], ast.Return):
            fail(fn, 'time_match: body other than options; if set_step is False: ..; return <lag>')
        top, ret = stmts
        t = top.test
        if top.orelse or not (isinstance(t, ast.Compare) and len(t.ops) == 1 and isinstance(t.ops[0], ast.Is) and isinstance(t.left, ast.Name)
                              and env.get(t.left.id) is not None and env[t.left.id].kind == 'SETSTEP'
                              and isinstance(t.comparators[0], ast.Constant) and t.comparators[0].value is False):
            fail(top, 'time_match: guard other than `if set_step is False:` without else')
        # statements before the signal loop
        body = list(top.body)
        bm_term = None
        loop = None
        while body:
            s = body.pop(0)
            if isinstance(s, ast.If) and check_print_block(s, env):
                continue
            if isinstance(s, ast.Assign) and len(s.targets) == 1 and isinstance(s.targets[0], ast.Name):
                v = ev.expr(s.value, env)
                if v.kind == 'Z' and v.term.startswith('Z.min') and not any(d.startswith('Definition gen_tm_length_check') for d in self.defs):
                    self.defs.append('Definition gen_tm_length_check (sigs : list (list T)) : Z :=\n  %s.\n' % v.term)
                    v = Val('Z', 'gen_tm_length_check sigs')
                elif v.kind == 'V' and getattr(v, 'slice_of_signal', False) and bm_term is None:
                    bm_term = v.term
                    self.defs.append('Definition gen_tm_bm (master : nat) (sigs : list (list T)) : list T :=\n  %s.\n' % v.term)
                    v = Val('V', 'bm')
                else:
                    fail(s, 'assignment before the signal loop other than the common length and the master slice')
                env[s.targets[0].id] = v
                continue
            if isinstance(s, ast.For) and not body:
                loop = s
                continue
            fail(s, 'statement %s before / after the signal loop' % type(s).__name__)
        if loop is None or bm_term is None:
            fail(top, 'time_match: master slice and signal loop expected')
        ev.cur_index = signal_loop(ev, loop, env)
        env[ev.cur_index] = Val('N', 's')
        phase = {'om': None, 'searched': False, 'after': False}
        tree = self.block(loop.body, env, phase)
        if self.after is None or self.state is None:
            fail(loop, 'time_match: no search loop')
        if not (isinstance(ret.value, ast.Name) and ret.value.id == self.state[0]):
            fail(ret, 'time_match returns something other than the index state of the search')
        k = len(self.steps)
        search = 'gen_tm_init steps bm om'
        for j in range(1, k + 1):
            search = 'fold_left (gen_tm_step%d steps bm om) (py_range steps) (%s)' % (j, search)
        call = 'gen_tm_search steps (gen_tm_bm master sigs) (gen_tm_om sigs v)'
        leaf = '(gen_tm_after (fst (%s)) (gen_tm_om sigs v), Some (fst (%s)))' % (call, call)

        def subst(t):
            if t[0] == 'if':
                return ('if', t[1], subst(t[2]), subst(t[3]))
            return ('leaf', leaf if t[1] == 'SEARCH' else t[1])
        txt = '(** eqsig/multiple.py: Cluster.time_match(self, **kwargs)   [set_step is False]\n    default: steps = %s *)\n' % d_steps
        txt += 'Definition gen_tm_default_steps : Z := %s.\n' % d_steps
        txt += ''.join(self.defs)
        txt += 'Definition gen_tm_init (steps : Z) (bm om : list T) : Z * T :=\n  (%s,\n   %s).\n' % self.init
        txt += ''.join(self.steps)
        txt += 'Definition gen_tm_search (steps : Z) (bm om : list T) : Z * T :=\n  %s.\n' % search
        txt += ('(** after the search: [Some m] = slave_signal.reset_values(m), [None] = continue *)\n'
                'Definition gen_tm_after (min_ind : Z) (om : list T) : option (list T) :=\n%s.\n') % render_tm(self.after, 2)
        txt += ('(** one pass of `for s in range(len(self.signals))` on signal s holding v: (new values if reset, lag assigned to the returned variable) *)\n'
                'Definition gen_tm_iter (steps : Z) (master : nat) (sigs : list (list T)) (s : nat) (v : list T) : option (list T) * option Z :=\n%s.\n') % render_tm(subst(tree), 2)
        return txt


def tr_time_indices(mods):
    m = mods[F_TS]
    fn = top_function(m, 'time_indices')
    p = plain_args(fn, n=5)
    if fn.args.defaults or fn.args.kwarg:
        fail(fn, 'time_indices: signature')
    ev = Ev(mods, F_TS)
    env = {p[0]: Val('Z', 'npts'), p[1]: Val('S', 'dt'), p[2]: Val('S', 'start'), p[3]: Val('S', 'end_'), p[4]: Val('INDEXFLAG')}
    stmts = [s for s in fn.body if not docstring(s)]
    if len(stmts) != 3 or not isinstance(stmts[0], ast.If) or not isinstance(stmts[1], ast.If) or not isinstance(stmts[2], ast.Return):
        fail(fn, 'time_indices: body other than if index is False / if e_index > npts: raise / return')
    top, chk, ret = stmts
    t = top.test
    if not (isinstance(t, ast.Compare) and len(t.ops) == 1 and isinstance(t.ops[0], ast.Is) and isinstance(t.left, ast.Name) and t.left.id == p[4]
            and isinstance(t.comparators[0], ast.Constant) and t.comparators[0].value is False):
        fail(top, 'time_indices: first test other than `index is False`')
    # the other branch: two plain copies of start / end into the returned names (not translated)
    if not (isinstance(ret.value, ast.Tuple) and len(ret.value.elts) == 2 and all(isinstance(x, ast.Name) for x in ret.value.elts)):
        fail(ret, 'time_indices: return other than a pair of names')
    rs, re_ = ret.value.elts[0].id, ret.value.elts[1].id
    copies = {}
    for s in top.orelse:
        if not (isinstance(s, ast.Assign) and len(s.targets) == 1 and isinstance(s.targets[0], ast.Name) and isinstance(s.value, ast.Name)):
            fail(s, 'time_indices: index branch other than plain copies')
        copies[s.targets[0].id] = s.value.id
    if copies != {rs: p[2], re_: p[3]} or len(top.orelse) != 2:
        fail(top, 'time_indices: index branch other than s_index = start; e_index = end')

    def branch(stmts, env):
        env = dict(env)
        for s in stmts:
            if isinstance(s, ast.Assign) and len(s.targets) == 1 and isinstance(s.targets[0], ast.Name):
                v = ev.expr(s.value, env)
                if v.kind == 'S':               # a float stored into an index variable: used as an int
                    v = Val('Z', 'py_int (%s)%%num' % v.term)
                if v.kind not in ('Z', 'I'):
                    fail(s, 'index assignment of a %s' % v.kind)
                env[s.targets[0].id] = Val('Z', to_z(v, s))
                continue
            if isinstance(s, ast.If) and not any(isinstance(n, (ast.Return, ast.Raise, ast.For, ast.While)) for n in ast.walk(s)):
                c = ev.compare(s.test, env)
                ea, eb = branch(s.body, env), branch(s.orelse, env)
                for k in set(ea) | set(eb):
                    va, vb = ea.get(k), eb.get(k)
                    if va is None or vb is None:
                        fail(s, 'a name assigned in one branch only')
                    if va is env.get(k) and vb is env.get(k):
                        continue
                    if va.kind != 'Z' or vb.kind != 'Z':
                        fail(s, 'branches assign a non-index')
                    env[k] = Val('Z', 'if %s then %s else %s' % (c, va.term, vb.term)) if va.term != vb.term else va
                continue
            fail(s, 'time_indices: statement %s' % type(s).__name__)
        return env
    env = branch(top.body, env)
    if chk.orelse or len(chk.body) != 1 or not isinstance(chk.body[0], ast.Raise):
        fail(chk, 'time_indices: the length check is not `if ..: raise ..`')
    c = ev.compare(chk.test, env)
    a, b = to_z(ev.expr(ret.value.elts[0], env), ret), to_z(ev.expr(ret.value.elts[1], env), ret)
    return ('(** eqsig/fns/time_shift.py: time_indices(%s)   [index is False]; None = SignalProcessingWarning raised *)\n'
            'Definition gen_time_indices (npts : Z) (dt start end_ : T) : option (Z * Z) :=\n'
            '  if %s then None\n  else Some (%s,\n             %s).\n') % (', '.join(p), c, a, b)


def tr_section_average(mods):
    m = mods[F_AVG]
    imp = imports_of(m)
    if imp.get('time_indices') != ('from', 'time_shift', 'time_indices', 1) or not m.np_ok or 'time_indices' in m.funcs:
        raise Unsupported('%s: time_indices is not `from .time_shift import time_indices` / numpy is not np' % F_AVG)
    fn = top_function(m, 'get_section_average')
    p = plain_args(fn, n=4)
    dfl = fn.args.defaults
    if fn.args.kwarg or len(dfl) != 3 or not (isinstance(dfl[2], ast.Constant) and dfl[2].value is False):
        fail(fn, 'get_section_average: signature (index=False expected)')
    ev = Ev(mods, F_AVG)
    env = {p[0]: Val('SIG', values='v', dt='dt'), p[1]: Val('S', 'start'), p[2]: Val('S', 'end_'), p[3]: Val('INDEXFLAG')}
    stmts = [s for s in fn.body if not docstring(s)]
    s0 = stmts[0]
    ok = (isinstance(s0, ast.Assign) and len(s0.targets) == 1 and isinstance(s0.targets[0], ast.Tuple) and len(s0.targets[0].elts) == 2
          and all(isinstance(x, ast.Name) for x in s0.targets[0].elts) and isinstance(s0.value, ast.Call)
          and isinstance(s0.value.func, ast.Name) and s0.value.func.id == 'time_indices' and len(s0.value.args) == 5 and not s0.value.keywords
          and isinstance(s0.value.args[4], ast.Name) and s0.value.args[4].id == p[3])
    if not ok:
        fail(s0, 'get_section_average: first statement other than `a, b = time_indices(.., .., .., .., index)`')
    a0, a1, a2, a3 = [ev.expr(x, env) for x in s0.value.args[:4]]
    call = 'gen_time_indices %s %s %s %s' % (pp(to_z(a0, s0)), pp(to_s(a1, s0)), pp(to_s(a2, s0)), pp(to_s(a3, s0)))
    n0_, n1_ = [x.id for x in s0.targets[0].elts]
    if n0_ == n1_:
        fail(s0, 'the two indices have the same name')
    env[n0_], env[n1_] = Val('Z', 'lo'), Val('Z', 'hi')
    r = straight_line(ev, stmts[1:], env)
    return ('(** eqsig/fns/average.py: get_section_average(%s)   [index is False]; None = the exception of time_indices *)\n'
            'Definition gen_section_average (v : list T) (dt start end_ : T) : option T :=\n'
            '  match %s with\n  | Some (lo, hi) => Some %s\n  | None => None\n  end.\n') % (', '.join(p), call, pp(to_s(r, fn)))


def check_signal_wrapper(mods):
    m = mods[F_SINGLE]
    if imports_of(m).get('get_section_average') != ('from', 'eqsig.fns.average', 'get_section_average', 0) or 'get_section_average' in m.funcs:
        raise Unsupported('%s: get_section_average is not imported from eqsig.fns.average' % F_SINGLE)
    fn = method(m, 'Signal', 'get_section_average')
    exp = ast.parse('def get_section_average(self, start=0, end=-1, index=False):\n'
                    '    return get_section_average(self, start=start, end=end, index=index)').body[0]
    body = [s for s in fn.body if not docstring(s)]
    if ast.dump(fn.args) != ast.dump(exp.args) or len(body) != 1 or ast.dump(body[0]) != ast.dump(exp.body[0]):
        fail(fn, 'Signal.get_section_average is not the forwarding wrapper (self, start=0, end=-1, index=False)')
    # AccSignal must not override it
    for s in m.tree.body:
        if isinstance(s, ast.ClassDef) and s.name != 'Signal':
            for b in ast.walk(s):
                if isinstance(b, ast.FunctionDef) and b.name in ('get_section_average', 'reset_values') or \
                        isinstance(b, ast.Name) and isinstance(b.ctx, ast.Store) and b.id in ('get_section_average', 'reset_values'):
                    fail(b, 'a subclass overrides %s' % getattr(b, 'name', getattr(b, 'id', '?')))


def render_ss(t, ind):
    sp = ' ' * ind
    if t[0] == 'if':
        return '%sif %s then\n%s\n%selse\n%s' % (sp, t[1], render_ss(t[2], ind + 2), sp, render_ss(t[3], ind + 2))
    if t[0] == 'bind':
        return '%smatch %s with\n%s| Some %s =>\n%s\n%s| None => None\n%send' % (sp, t[1], sp, t[2], render_ss(t[3], ind + 4), sp, sp)
    return sp + t[1]


def tr_same_start(mods):
    m = mods[F_MULT]
    fn = method(m, 'Cluster', 'same_start')
    ev = Ev(mods, F_MULT)
    stmts = list(fn.body)
    env, defaults = kwargs_prelude(ev, fn, stmts, {'start': lambda: Val('S', 'start'), 'end': lambda: Val('S', 'end_'), 'verbose': lambda: Val('VERB')})
    if 'start' not in defaults or 'end' not in defaults:
        fail(fn, 'same_start: options start / end')
    d_start, d_end = to_s(ev.expr(defaults['start'], {}), fn), to_s(ev.expr(defaults['end'], {}), fn)
    if len(stmts) != 2 or not isinstance(stmts[1], ast.For):
        fail(fn, 'same_start: body other than options; master average; signal loop')
    s0, loop = stmts
    if not (isinstance(s0, ast.Assign) and len(s0.targets) == 1 and isinstance(s0.targets[0], ast.Name)):
        fail(s0, 'same_start: master average assignment')
    ma = ev.expr(s0.value, env)
    if ma.kind != 'OS':
        fail(s0, 'same_start: the master average is not a section average')
    env[s0.targets[0].id] = Val('S', 'master_average')
    ev.cur_index = signal_loop(ev, loop, env)
    env[ev.cur_index] = Val('N', 'i')
    counter = [0]

    def block(stmts, env, reset, depth=0):
        env = dict(env)
        stmts = list(stmts)
        while stmts:
            s = stmts.pop(0)
            if isinstance(s, ast.Assign) and len(s.targets) == 1 and isinstance(s.targets[0], ast.Name):
                name = s.targets[0].id
                if env.get(name) is not None and env[name].kind in ('N', 'VERB', 'KWARGS', 'UNUSED') or name == ev.cur_index:
                    fail(s, 'assignment to %s' % name)
                v = ev.expr(s.value, env)
                if v.kind == 'OS':
                    counter[0] += 1
                    nm = 'average%d' % counter[0]
                    env[name] = Val('S', nm)
                    return ('bind', v.term, nm, block(stmts, env, reset, depth + 1))
                env[name] = v
                continue
            if isinstance(s, ast.If) and check_print_block(s, env):
                continue
            if isinstance(s, ast.If):
                c = ev.compare(s.test, env)
                return ('if', c, block(list(s.body) + stmts, env, reset, depth + 1), block(list(s.orelse) + stmts, env, reset, depth + 1))
            if isinstance(s, ast.Continue):
                break
            if isinstance(s, ast.Expr) and isinstance(s.value, ast.Call) and isinstance(s.value.func, ast.Attribute) \
                    and s.value.func.attr == 'reset_values' and len(s.value.args) == 1 and not s.value.keywords:
                tgt = ev.expr(s.value.func.value, env)
                if tgt.kind != 'SIG' or not getattr(tgt, 'current', False) or reset is not None:
                    fail(s, 'reset_values other than once, on the visited signal')
                v = ev.expr(s.value.args[0], env)
                if v.kind not in ('L', 'V'):
                    fail(s, 'reset_values of a %s' % v.kind)
                reset = v.term
                continue
            fail(s, 'statement %s in the signal loop' % type(s).__name__)
        return ('leaf', 'Some (Some %s)' % pp(reset) if reset is not None else 'Some None')
    tree = block(loop.body, env, None)
    txt = '(** eqsig/multiple.py: Cluster.same_start(self, **kwargs)\n    defaults: start = %s, end = %s *)\n' % (d_start, d_end)
    txt += 'Definition gen_ss_default_start : T := %s.\nDefinition gen_ss_default_end : T := %s.\n' % (d_start, d_end)
    txt += '(** None = the exception of time_indices *)\n'
    txt += 'Definition gen_ss_master_average (master : nat) (dt start end_ : T) (sigs : list (list T)) : option T :=\n  %s.\n' % ma.term
    txt += ('(** one pass of the signal loop on signal i holding v: None = exception, Some None = untouched, Some (Some m) = reset_values(m) *)\n'
            'Definition gen_ss_iter (master : nat) (dt start end_ master_average : T) (i : nat) (v : list T) : option (option (list T)) :=\n%s.\n') % render_ss(tree, 2)
    return txt


HEADER = '''(** GENERATED by translator/py2coq_c18.py from eqsig/multiple.py (combine_at_angle, compute_rotated, Cluster.time_match,
    Cluster.same_start), eqsig/fns/time_shift.py (time_indices) and eqsig/fns/average.py (get_section_average) -- do not edit;
    rewritten on every run.  Generic over [NumOps T]; temporaries are substituted; names are fixed by role.
    Section variables (NOT translated): [cos_], [sin_] = np.cos, np.sin; [pi_] = the constant inside np.radians;
    [arias_ (values, dt)] = eqsig.im.calc_arias_intensity(sig); [getattr_ (values, dt) name] = getattr(sig, name).
    Inputs: ns, we / dt_ns, dt_we = values and time steps of the two components; sigs = the values of the cluster's signals in
    order, dt = their common time step, master = self.master_index, v = the values held by the visited signal;
    parameter / func = the optional arguments (None = None), func returns a scalar (inl) or an array (inr).
    A signal object is the pair (values, dt); its npts is the length of its values.  [option] results: None = the call raises.
    The readings of slices, items, range, linspace, mod, int(), mean are in lib/PySeq.v; vadd / vsub / vsq / nsum in lib/NpList.v.
    proofs/P_gen_c18.v proves every definition equal to the corresponding piece of model/M_multiple.v for all inputs. *)
From Coq Require Import String ZArith List Bool.
From EQ Require Import lib.Num lib.NpList lib.PySeq.
Import ListNotations.
Local Open Scope num_scope.

Section Generic.
Context {T : Type} `{NumOps T}.
Variable cos_ sin_ : T -> T.
Variable pi_ : T.
Variable arias_ : list T * T -> list T.
Variable getattr_ : list T * T -> string -> T.
'''


def translate_sources(read):
    mods = {}
    for f in (F_MULT, F_AVG, F_TS, F_SINGLE):
        try:
            mods[f] = Mod(f, read(f))
        except Unsupported as e:
            raise Unsupported('%s: %s' % (f, e))
    parts = []
    for name, f in (('combine_at_angle', tr_combine), ('compute_rotated', tr_rotated), ('Cluster.time_match', lambda m: TimeMatch(m).run()),
                    ('time_indices', tr_time_indices), ('get_section_average', tr_section_average),
                    ('Signal.get_section_average', lambda m: check_signal_wrapper(m) or ''), ('Cluster.same_start', tr_same_start)):
        try:
            parts.append(f(mods))
        except Unsupported as e:
            raise Unsupported('%s: %s' % (name, e))
    return HEADER + '\n' + '\n'.join(p for p in parts if p) + 'End Generic.\n'


def regenerate(repo=None, out=None):
    """returns True iff the file was rewritten; raises Unsupported / OSError / SyntaxError (fail closed).
    On failure the committed copy is left as it is: the caller reports the broken tie."""
    repo = repo or os.environ.get('EQSIG_REPO', '/repo')
    out = out or OUT
    text = translate_sources(lambda rel: open(os.path.join(repo, rel)).read())
    old = open(out).read() if os.path.exists(out) else None
    if old != text:
        os.makedirs(os.path.dirname(out), exist_ok=True)
        with open(out, 'w') as f:
            f.write(text)
        return True
    return False


def main():
    try:
        ch = regenerate(repo=sys.argv[1] if len(sys.argv) > 1 else None)
    except Exception as e:  # fail closed
        print('py2coq_c18: translation FAILED: %s: %s' % (type(e).__name__, e))
        return 1
    print('py2coq_c18: %s %s' % (os.path.relpath(OUT, VERIF), 'rewritten' if ch else 'unchanged'))
    return 0


if __name__ == '__main__':
    sys.exit(main())
