#!/venv/bin/python
"""Fail-closed translator of NumPy vector expressions:
    eqsig/displacements.py, eqsig/im.py  ->  coq/gen/Gen_quadrature.v          (properties C08, C09)

Every function of SPECS becomes one Gallina definition, generic over `NumOps T` (lib/Num.v), built from the list
primitives of lib/NpList.v.  coq/proofs/P_gen_quadrature.v proves each generated definition equal to the hand-written
model (model/M_displacements.v, model/M_im.v) for ALL inputs, so a changed source statement changes the generated term
and breaks a proof obligation of Prop_C08 / Prop_C09 on the next run.

Local assignments are substituted into their uses (a renamed temporary gives the same text).  Anything outside the
whitelist below raises `Unsupported` (= the tie is broken; the harness reports it).

values      : S scalar | V vector (with a symbolic length and an ownership flag) | B boolean | object parameter
expressions : parameter / earlier assignment names;
              attribute reads `p.values`, `p.dt`, `p.velocity` of an object parameter -> inputs a, dt, v of the
              generated function (the spec of each function lists the inputs it may read);
              int / float literals (floats as the exact decimal rational of their repr; 0 -> n0, 1 -> n1, k -> nofZ k,
              p/q -> (p) / (q));  `np.pi` -> an extra first parameter `pi`;
              S (+ - * /) S;  S * V -> scale S V;  V * S -> map (fun x => x * S) V;  V / S -> map (fun x => x / S) V;
              V (* + -) V of syntactically equal length -> vmul / vadd / vsub;
              `e ** 2` -> vsq / e * e;   `abs(e)`, `np.abs(e)` -> vabs / nabs;   unary minus -> vopp / nopp;
              `np.cumsum(V)` -> cumsum;  `cumulative_trapezoid(V, dx=S, initial=0)` (name bound by
              `from scipy.integrate import cumulative_trapezoid`, or `scipy.integrate.cumulative_trapezoid`) -> cumtrapz S V;
              `np.diff(V)` -> diff;  `np.insert(V, 0, S)` -> S :: V;  `V[0]` -> hd n0 V;  `V[:-1]` -> removelast V;
              `V[1:]` -> tl V;  `max(S, S)`/`min(S, S)` -> nmax/nmin;  `max(V)`/`min(V)` -> amax/amin;
              `np.zeros(len(V) + 1)` -> n0 :: map (fun _ => n0) V  (only as the right-hand side of an assignment);
              `f(args)` with f another plain function of the same module -> inlined.
statements  : docstring; `from scipy.integrate import cumulative_trapezoid`; `name = e`;
              `z[1:] = e` where z is the still untouched, unaliased np.zeros(len(V) + 1) and e has the length of V
              -> z := n0 :: e;   `np.cumsum(z, out=z)` on an owned, unaliased array -> z := cumsum z;
              `if b:` / `if not b:` / `if b is False:` / `if b is True:` on a boolean parameter -> Gallina `if`;
              `return e` / `return e1, e2`.
In-place statements are accepted only on arrays that this function created and that no other name (or slice view)
refers to; parameters and attribute reads are never modified.
"""
import ast, copy, os, sys
from fractions import Fraction

HERE = os.path.dirname(os.path.abspath(__file__))
VERIF = os.path.dirname(HERE)
OUT = os.path.join(VERIF, 'coq', 'gen', 'Gen_quadrature.v')

# attribute of an AccSignal-like object parameter -> (input name of the generated function, kind)
ATTRS = {'values': ('a', 'V'), 'dt': ('dt', 'S'), 'velocity': ('v', 'V')}

# file, python function, generated name, kinds of the python parameters, binders of the generated definition
# (a binder is (coq name, kind, python parameter or attribute input it stands for)), shape of the result
SPECS = [
    dict(file='eqsig/displacements.py', func='calc_velo_and_disp_from_accel_arr', gen='gen_velo_disp',
         params={'acceleration': 'V', 'dt': 'S', 'trap': 'B'},
         binders=[('trap', 'B', 'trap'), ('dt', 'S', 'dt'), ('a', 'V', 'acceleration')], ret='VV'),
    dict(file='eqsig/displacements.py', func='velocity_and_displacement_from_acceleration', gen='gen_velo_disp_alias',
         params={'acceleration': 'V', 'dt': 'S', 'trap': 'B'},
         binders=[('trap', 'B', 'trap'), ('dt', 'S', 'dt'), ('a', 'V', 'acceleration')], ret='VV'),
    dict(file='eqsig/im.py', func='calc_peak', gen='gen_calc_peak', params={'motion': 'V'},
         binders=[('m', 'V', 'motion')], ret='S'),
    dict(file='eqsig/im.py', func='calc_arias_intensity', gen='gen_arias', params={'acc_sig': 'O'},
         binders=[('dt', 'S', '.dt'), ('a', 'V', '.values')], ret='V'),
    dict(file='eqsig/im.py', func='calc_cav', gen='gen_cav', params={'acc_sig': 'O'},
         binders=[('dt', 'S', '.dt'), ('a', 'V', '.values')], ret='V'),
    dict(file='eqsig/im.py', func='calc_isv', gen='gen_isv', params={'acc_sig': 'O'},
         binders=[('dt', 'S', '.dt'), ('v', 'V', '.velocity')], ret='V'),
    dict(file='eqsig/im.py', func='calc_integral_of_abs_velocity', gen='gen_int_abs_vel', params={'asig': 'O'},
         binders=[('dt', 'S', '.dt'), ('v', 'V', '.velocity')], ret='V'),
    dict(file='eqsig/im.py', func='calc_cumulative_abs_displacement', gen='gen_cum_abs_disp', params={'asig': 'O'},
         binders=[('dt', 'S', '.dt'), ('v', 'V', '.velocity')], ret='V'),
    dict(file='eqsig/im.py', func='calc_integral_of_abs_acceleration', gen='gen_int_abs_acc', params={'asig': 'O'},
         binders=[('dt', 'S', '.dt'), ('a', 'V', '.values')], ret='V'),
    dict(file='eqsig/im.py', func='calc_unit_kinetic_energy', gen='gen_unit_ke', params={'acc_signal': 'O'},
         binders=[('v', 'V', '.velocity')], ret='V'),
]

RESERVED = {'np', 'numpy', 'scipy', 'abs', 'max', 'min', 'len', 'cumulative_trapezoid'}
LAMBDA_VAR = 'x'


class Unsupported(Exception):
    pass


def fail(node, msg):
    raise Unsupported('%s (line %s)' % (msg, getattr(node, 'lineno', '?')))


# ---------------------------------------------------------------- values
class S:           # scalar
    def __init__(self, term):
        self.term = term


class B:           # boolean
    def __init__(self, term):
        self.term = term


class O:           # object parameter (AccSignal): only attribute reads
    def __init__(self, name):
        self.name = name


class V:           # vector; length = (base, offset) or None when not tracked; cell = shared mutable ownership record
    def __init__(self, term, length=None, owned=False, zeros=False):
        self.term, self.length, self.zeros = term, length, zeros
        self.cell = {'owned': owned, 'refs': 0}


def zlit(k):
    if k == 0:
        return 'n0'
    if k == 1:
        return 'n1'
    return 'nofZ %d' % k if k > 0 else 'nofZ (%d)' % k


def par(t):
    return t if t.replace('_', 'a').isalnum() else '(%s)' % t


def literal(node):
    v = node.value
    if isinstance(v, bool) or not isinstance(v, (int, float)):
        fail(node, 'literal %r' % (v,))
    if isinstance(v, int):
        if abs(v) > 10 ** 9:
            fail(node, 'integer literal too large')
        return S(zlit(v))
    fr = Fraction(repr(v))
    if float(fr) != v or fr.denominator > 10 ** 12 or abs(fr.numerator) > 10 ** 15:
        fail(node, 'float literal %r is not a short decimal' % v)
    if fr.denominator == 1:
        return S(zlit(fr.numerator))
    return S('%s / %s' % (par(zlit(fr.numerator)), par(zlit(fr.denominator))))


def is_const(node, value):
    return isinstance(node, ast.Constant) and not isinstance(node.value, bool) and isinstance(node.value, (int, float)) and node.value == value


def dotted(node):
    """a.b.c -> 'a.b.c' for plain names, else None"""
    parts = []
    while isinstance(node, ast.Attribute):
        parts.append(node.attr)
        node = node.value
    if isinstance(node, ast.Name):
        parts.append(node.id)
        return '.'.join(reversed(parts))
    return None


# ---------------------------------------------------------------- one module
class Module:
    def __init__(self, path, src):
        self.path = path
        self.tree = ast.parse(src)
        self.funcs = {}
        self.np_ok = False
        self.scipy_ok = False
        self.ct_global = False
        seen, stored = set(), set()
        for st in self.tree.body:
            if isinstance(st, ast.FunctionDef):
                if st.name in RESERVED:
                    fail(st, 'module defines %s' % st.name)
                if st.name in seen:
                    self.funcs[st.name] = None       # defined twice: ambiguous, unusable
                else:
                    self.funcs[st.name] = st
                seen.add(st.name)
            elif isinstance(st, ast.Import):
                for al in st.names:
                    bound = al.asname or al.name.split('.')[0]
                    if bound in ('np', 'numpy'):
                        if al.name != 'numpy':
                            fail(st, '%s is bound to %s' % (bound, al.name))
                        self.np_ok = self.np_ok or bound == 'np'
                    elif bound == 'scipy':
                        if al.name.split('.')[0] != 'scipy' or al.asname not in (None, 'scipy'):
                            fail(st, 'scipy is bound to %s' % al.name)
                        self.scipy_ok = self.scipy_ok or al.name == 'scipy.integrate'
                    elif bound in RESERVED:
                        fail(st, 'module binds %s' % bound)
            elif isinstance(st, ast.ImportFrom):
                for al in st.names:
                    bound = al.asname or al.name
                    if bound == 'cumulative_trapezoid':
                        if st.module != 'scipy.integrate' or al.name != 'cumulative_trapezoid' or st.level:
                            fail(st, 'cumulative_trapezoid is bound to %s.%s' % (st.module, al.name))
                        self.ct_global = True
                    elif bound in RESERVED or al.name == '*':
                        fail(st, 'module binds %s' % bound)
            else:
                for n in ast.walk(st):
                    if isinstance(n, ast.Name) and isinstance(n.ctx, (ast.Store, ast.Del)) and n.id in RESERVED:
                        fail(st, 'module assigns %s' % n.id)
                    if isinstance(n, ast.Name) and isinstance(n.ctx, (ast.Store, ast.Del)):
                        stored.add(n.id)             # a function name re-bound at module level is unusable
                    if isinstance(n, (ast.Import, ast.ImportFrom, ast.FunctionDef, ast.ClassDef)) and n is not st:
                        fail(st, 'nested binding statement at module level')
                if isinstance(st, ast.ClassDef) and st.name in RESERVED:
                    fail(st, 'module defines %s' % st.name)
                if isinstance(st, ast.ClassDef):
                    stored.add(st.name)
        for n in stored:
            if n in self.funcs:
                self.funcs[n] = None

    def func(self, name, node=None):
        f = self.funcs.get(name)
        if f is None:
            fail(node, 'function %s not found (or defined twice) in %s' % (name, self.path))
        if f.decorator_list:
            fail(f, '%s is decorated' % name)
        a = f.args
        if a.vararg or a.kwarg or a.kwonlyargs or getattr(a, 'posonlyargs', []):
            fail(f, '%s: unsupported signature' % name)
        return f


class Ctx:
    """translation of one top-level function (helpers are inlined into it)"""
    def __init__(self, module, spec):
        self.m, self.spec = module, spec
        self.used_pi = False
        self.used_inputs = set()
        self.allowed = {b[2]: b for b in spec['binders']}

    # ------------------------------------------------------------ expressions
    def attr_input(self, node, attr):
        if attr not in ATTRS:
            fail(node, 'attribute .%s of an object parameter' % attr)
        key = '.' + attr
        if key not in self.allowed:
            fail(node, '%s reads .%s, which is not an input of %s' % (self.spec['func'], attr, self.spec['gen']))
        name, kind, _ = self.allowed[key]
        self.used_inputs.add(name)
        return S(name) if kind == 'S' else V(name, length=(name, 0))

    def expr(self, e, fr):
        """fr = frame: {'env': name -> value, 'ct_local': bool}"""
        env = fr['env']
        if isinstance(e, ast.Constant):
            return literal(e)
        if isinstance(e, ast.Name):
            if e.id in env:
                return env[e.id]
            fail(e, 'unknown name %s' % e.id)
        if isinstance(e, ast.Attribute):
            d = dotted(e)
            if d in ('np.pi', 'numpy.pi'):
                self.need_np(e, d)
                self.used_pi = True
                return S('pi')
            if isinstance(e.value, ast.Name) and isinstance(env.get(e.value.id), O):
                return self.attr_input(e, e.attr)
            fail(e, 'attribute %s' % (d or '?'))
        if isinstance(e, ast.UnaryOp):
            x = self.expr(e.operand, fr)
            if isinstance(e.op, ast.USub):
                if isinstance(x, S):
                    return S('- %s' % par(x.term))
                if isinstance(x, V):
                    return V('vopp %s' % par(x.term), x.length, owned=True)
            fail(e, 'unary operator')
        if isinstance(e, ast.BinOp):
            return self.binop(e, fr)
        if isinstance(e, ast.Subscript):
            return self.subscript(e, fr)
        if isinstance(e, ast.Call):
            return self.call(e, fr)
        fail(e, 'expression %s' % type(e).__name__)

    def need_np(self, node, d):
        root = d.split('.')[0]
        if root == 'np' and not self.m.np_ok:
            fail(node, 'np is not `import numpy as np`')
        if root == 'numpy':
            fail(node, 'numpy.* spelled out is not in the whitelist')

    def binop(self, e, fr):
        if isinstance(e.op, ast.Pow):
            x = self.expr(e.left, fr)
            if not (isinstance(e.right, ast.Constant) and type(e.right.value) is int and e.right.value == 2):
                fail(e, 'exponent other than the literal 2')
            if isinstance(x, S):
                return S('%s * %s' % (par(x.term), par(x.term)))
            if isinstance(x, V):
                return V('vsq %s' % par(x.term), x.length, owned=True)
            fail(e, 'power of a non-number')
        ops = {ast.Add: ('+', 'vadd'), ast.Sub: ('-', 'vsub'), ast.Mult: ('*', 'vmul'), ast.Div: ('/', None)}
        for k, (sym, vname) in ops.items():
            if isinstance(e.op, k):
                break
        else:
            fail(e, 'binary operator %s' % type(e.op).__name__)
        x, y = self.expr(e.left, fr), self.expr(e.right, fr)
        if isinstance(x, S) and isinstance(y, S):
            return S('%s %s %s' % (par(x.term), sym, par(y.term)))
        if isinstance(x, V) and isinstance(y, S):
            if sym in ('*', '/'):
                return V('map (fun %s => %s %s %s) %s' % (LAMBDA_VAR, LAMBDA_VAR, sym, par(y.term), par(x.term)), x.length, owned=True)
            fail(e, 'vector %s scalar' % sym)
        if isinstance(x, S) and isinstance(y, V):
            if sym == '*':
                return V('scale %s %s' % (par(x.term), par(y.term)), y.length, owned=True)
            fail(e, 'scalar %s vector' % sym)
        if isinstance(x, V) and isinstance(y, V):
            if vname is None:
                fail(e, 'vector / vector')
            if x.length is None or x.length != y.length:
                fail(e, 'element-wise operation on vectors whose lengths are not syntactically equal')
            return V('%s %s %s' % (vname, par(x.term), par(y.term)), x.length, owned=True)
        fail(e, 'operands of %s' % sym)

    def subscript(self, e, fr):
        x = self.expr(e.value, fr)
        if not isinstance(x, V):
            fail(e, 'subscript of a non-vector')
        sl = e.slice
        if isinstance(sl, ast.Index):      # python < 3.9
            sl = sl.value
        if is_const(sl, 0) and type(sl.value) is int:
            return S('hd n0 %s' % par(x.term))
        if isinstance(sl, ast.Slice) and sl.step is None:
            lo, hi = sl.lower, sl.upper
            if lo is None and isinstance(hi, ast.UnaryOp) and isinstance(hi.op, ast.USub) and is_const(hi.operand, 1) and type(hi.operand.value) is int:
                r = V('removelast %s' % par(x.term), None)
            elif hi is None and lo is not None and is_const(lo, 1) and type(lo.value) is int:
                r = V('tl %s' % par(x.term), None)
            else:
                fail(e, 'slice other than [:-1] / [1:]')
            x.cell['refs'] += 1            # a view: the base array may no longer be modified in place
            r.cell = x.cell
            return r
        fail(e, 'subscript other than [0], [:-1], [1:]')

    def call(self, e, fr):
        f = e.func
        d = dotted(f)
        if d is None:
            fail(e, 'call of a computed function')
        args, kws = e.args, {k.arg: k.value for k in e.keywords}
        if any(isinstance(a, ast.Starred) for a in args) or None in kws:
            fail(e, 'star arguments')
        # builtins
        if d == 'abs' or d == 'np.abs':
            if d == 'np.abs':
                self.need_np(e, d)
            if len(args) != 1 or kws:
                fail(e, 'abs arguments')
            x = self.expr(args[0], fr)
            if isinstance(x, S):
                return S('nabs %s' % par(x.term))
            if isinstance(x, V):
                return V('vabs %s' % par(x.term), x.length, owned=True)
            fail(e, 'abs of a non-number')
        if d in ('max', 'min'):
            if kws:
                fail(e, '%s keywords' % d)
            xs = [self.expr(a, fr) for a in args]
            if len(xs) == 1 and isinstance(xs[0], V):
                return S('a%s %s' % (d, par(xs[0].term)))
            if len(xs) == 2 and all(isinstance(x, S) for x in xs):
                return S('n%s %s %s' % (d, par(xs[0].term), par(xs[1].term)))
            fail(e, '%s arguments' % d)
        if d == 'np.cumsum':
            self.need_np(e, d)
            if len(args) != 1 or kws:
                fail(e, 'np.cumsum arguments (the out= form is a statement)')
            x = self.expr(args[0], fr)
            if not isinstance(x, V):
                fail(e, 'np.cumsum of a non-vector')
            return V('cumsum %s' % par(x.term), x.length, owned=True)
        if d == 'np.diff':
            self.need_np(e, d)
            if len(args) != 1 or kws:
                fail(e, 'np.diff arguments')
            x = self.expr(args[0], fr)
            if not isinstance(x, V):
                fail(e, 'np.diff of a non-vector')
            return V('diff %s' % par(x.term), None, owned=True)
        if d == 'np.insert':
            self.need_np(e, d)
            if len(args) != 3 or kws or not (is_const(args[1], 0) and type(args[1].value) is int):
                fail(e, 'np.insert other than np.insert(v, 0, s)')
            x, s = self.expr(args[0], fr), self.expr(args[2], fr)
            if not isinstance(x, V) or not isinstance(s, S):
                fail(e, 'np.insert operands')
            ln = (x.length[0], x.length[1] + 1) if x.length else None
            return V('%s :: %s' % (par(s.term), par(x.term)), ln, owned=True)
        if d in ('cumulative_trapezoid', 'scipy.integrate.cumulative_trapezoid'):
            if d == 'cumulative_trapezoid':
                if not (fr['ct_local'] or self.m.ct_global):
                    fail(e, 'cumulative_trapezoid is not imported from scipy.integrate')
            elif not self.m.scipy_ok:
                fail(e, 'scipy.integrate is not imported')
            if len(args) != 1 or set(kws) != {'dx', 'initial'}:
                fail(e, 'cumulative_trapezoid must be called as (y, dx=.., initial=0)')
            if not is_const(kws['initial'], 0):
                fail(e, 'cumulative_trapezoid: initial is not 0')
            y, dx = self.expr(args[0], fr), self.expr(kws['dx'], fr)
            if not isinstance(y, V) or not isinstance(dx, S):
                fail(e, 'cumulative_trapezoid operands')
            return V('cumtrapz %s %s' % (par(dx.term), par(y.term)), y.length, owned=True)
        if d == 'np.zeros':
            fail(e, 'np.zeros is only accepted as `name = np.zeros(len(v) + 1)`')
        # another plain function of the same module: inline (straight-line result only)
        if isinstance(f, ast.Name) and f.id in self.m.funcs and f.id not in fr['env']:
            tree = self.inline(e, fr)
            if tree[0] != 'ret':
                fail(e, 'inlined call with a branching result in expression position')
            return tree[1]
        fail(e, 'call of %s' % d)

    def zeros(self, e, fr):
        """np.zeros(len(v) + 1)"""
        if not (isinstance(e, ast.Call) and dotted(e.func) == 'np.zeros' and len(e.args) == 1 and not e.keywords):
            return None
        self.need_np(e, 'np.zeros')
        a = e.args[0]
        ok = (isinstance(a, ast.BinOp) and isinstance(a.op, ast.Add) and is_const(a.right, 1) and type(a.right.value) is int
              and isinstance(a.left, ast.Call) and dotted(a.left.func) == 'len' and len(a.left.args) == 1 and not a.left.keywords)
        if not ok:
            fail(e, 'np.zeros argument other than len(v) + 1')
        x = self.expr(a.left.args[0], fr)
        if not isinstance(x, V) or x.length is None:
            fail(e, 'len of a non-vector / untracked length')
        return V('n0 :: map (fun _ => n0) %s' % par(x.term), (x.length[0], x.length[1] + 1), owned=True, zeros=True)

    def inline(self, e, fr):
        if fr.get('depth', 0) >= 3:
            fail(e, 'call nesting too deep')
        fn = self.m.func(e.func.id, e)
        names = [a.arg for a in fn.args.args]
        bound = {}
        if len(e.args) > len(names):
            fail(e, 'too many arguments')
        for n, a in zip(names, e.args):
            bound[n] = self.expr(a, fr)
        for k in e.keywords:
            if k.arg not in names or k.arg in bound:
                fail(e, 'keyword argument %s' % k.arg)
            bound[k.arg] = self.expr(k.value, fr)
        if set(bound) != set(names):
            fail(e, 'call relies on default arguments')
        env = {}
        for n, v in bound.items():
            if n in RESERVED:
                fail(fn, 'parameter named %s' % n)
            if isinstance(v, V):            # the callee sees the caller's array: never modifiable there
                v.cell['refs'] += 1
            env[n] = v
        return self.block(list(fn.body), {'env': env, 'ct_local': False, 'depth': fr.get('depth', 0) + 1})

    # ------------------------------------------------------------ statements
    def cond(self, t, fr):
        env = fr['env']

        def bname(n):
            if isinstance(n, ast.Name) and isinstance(env.get(n.id), B):
                return env[n.id].term
            return None
        if bname(t):
            return bname(t)
        if isinstance(t, ast.UnaryOp) and isinstance(t.op, ast.Not) and bname(t.operand):
            return 'negb %s' % bname(t.operand)
        if isinstance(t, ast.Compare) and len(t.ops) == 1 and isinstance(t.ops[0], ast.Is) and bname(t.left):
            c = t.comparators[0]
            if isinstance(c, ast.Constant) and c.value is True:
                return bname(t.left)
            if isinstance(c, ast.Constant) and c.value is False:
                return 'negb %s' % bname(t.left)
        fail(t, 'condition other than b / not b / b is True / b is False on a boolean parameter')

    def bind(self, fr, name, val, node):
        if name in RESERVED:
            fail(node, 'assignment to %s' % name)
        env = fr['env']
        old = env.get(name)
        if isinstance(old, (B, O)):
            fail(node, 'assignment to the boolean / object parameter %s' % name)
        if isinstance(old, V):
            old.cell['refs'] -= 1
        if isinstance(val, V):
            val.cell['refs'] += 1
        env[name] = val

    def exclusive(self, v):
        return isinstance(v, V) and v.cell['owned'] and v.cell['refs'] == 1

    def block(self, stmts, fr, depth=0):
        """-> ('ret', value) | ('ret2', v1, v2) | ('if', cond, tree, tree)"""
        if depth > 8:
            fail(stmts[0] if stmts else None, 'nesting too deep')
        # private copy of the frame (sharing between names preserved): the branches of an `if` and an inlined callee
        # must not see each other's rebinding / reference counts
        fr = {'env': copy.deepcopy(fr['env']), 'ct_local': fr['ct_local'], 'depth': fr.get('depth', 0)}
        stmts = list(stmts)
        while stmts:
            s = stmts.pop(0)
            if isinstance(s, ast.Expr):
                v = s.value
                if isinstance(v, ast.Constant) and isinstance(v.value, str):
                    continue                                             # docstring
                if isinstance(v, ast.Call) and dotted(v.func) == 'np.cumsum':
                    self.need_np(v, 'np.cumsum')
                    kws = {k.arg: k.value for k in v.keywords}
                    if (len(v.args) == 1 and set(kws) == {'out'} and isinstance(v.args[0], ast.Name)
                            and isinstance(kws['out'], ast.Name) and kws['out'].id == v.args[0].id):
                        x = fr['env'].get(v.args[0].id)
                        if not self.exclusive(x):
                            fail(s, 'in-place cumsum on an array that is a parameter, a view or aliased')
                        nv = V('cumsum %s' % par(x.term), x.length, owned=True)
                        self.bind(fr, v.args[0].id, nv, s)
                        continue
                    fail(s, 'np.cumsum statement other than np.cumsum(z, out=z)')
                fail(s, 'expression statement')
            if isinstance(s, ast.ImportFrom):
                if (s.module == 'scipy.integrate' and not s.level and len(s.names) == 1
                        and s.names[0].name == 'cumulative_trapezoid' and s.names[0].asname is None):
                    fr['ct_local'] = True
                    continue
                fail(s, 'import other than `from scipy.integrate import cumulative_trapezoid`')
            if isinstance(s, ast.Assign):
                if len(s.targets) != 1:
                    fail(s, 'multiple assignment')
                t = s.targets[0]
                if isinstance(t, ast.Name):
                    z = self.zeros(s.value, fr)
                    val = z if z is not None else self.expr(s.value, fr)
                    if isinstance(val, (B, O)):
                        fail(s, 'copy of a boolean / object parameter')
                    self.bind(fr, t.id, val, s)
                    continue
                if isinstance(t, ast.Subscript) and isinstance(t.value, ast.Name):
                    sl = t.slice
                    if isinstance(sl, ast.Index):
                        sl = sl.value
                    if not (isinstance(sl, ast.Slice) and sl.step is None and sl.upper is None and sl.lower is not None
                            and is_const(sl.lower, 1) and type(sl.lower.value) is int):
                        fail(s, 'slice assignment other than z[1:] = e')
                    z = fr['env'].get(t.value.id)
                    if not (self.exclusive(z) and z.zeros):
                        fail(s, 'z[1:] = e where z is not the untouched, unaliased np.zeros(len(v) + 1)')
                    val = self.expr(s.value, fr)
                    if not isinstance(val, V) or val.length is None or (val.length[0], val.length[1] + 1) != z.length:
                        fail(s, 'z[1:] = e where the length of e is not syntactically len(z) - 1')
                    nv = V('n0 :: %s' % par(val.term), z.length, owned=True)
                    self.bind(fr, t.value.id, nv, s)
                    continue
                fail(s, 'assignment target')
            if isinstance(s, ast.If):
                c = self.cond(s.test, fr)
                return ('if', c, self.block(list(s.body) + stmts, fr, depth + 1), self.block(list(s.orelse) + stmts, fr, depth + 1))
            if isinstance(s, ast.Return):
                v = s.value
                if v is None:
                    fail(s, 'bare return')
                if isinstance(v, ast.Tuple):
                    if len(v.elts) != 2:
                        fail(s, 'tuple of other than 2 results')
                    return ('ret2', self.expr(v.elts[0], fr), self.expr(v.elts[1], fr))
                if isinstance(v, ast.Call) and isinstance(v.func, ast.Name) and v.func.id in self.m.funcs and v.func.id not in fr['env']:
                    return self.inline(v, fr)                            # tail call: any result shape
                return ('ret', self.expr(v, fr))
            fail(s, 'statement %s' % type(s).__name__)
        raise Unsupported('control reaches the end of %s without a return' % self.spec['func'])


def render(tree, shape, ind=2):
    sp = ' ' * ind
    if tree[0] == 'if':
        return '%sif %s then\n%s\n%selse\n%s' % (sp, tree[1], render(tree[2], shape, ind + 2), sp, render(tree[3], shape, ind + 2))
    if tree[0] == 'ret2':
        if shape != 'VV' or not all(isinstance(x, V) for x in tree[1:]):
            raise Unsupported('result is not the expected pair of vectors')
        return '%s(%s,\n%s %s)' % (sp, tree[1].term, sp, tree[2].term)
    kind = {'S': S, 'V': V}.get(shape)
    if kind is None or not isinstance(tree[1], kind):
        raise Unsupported('result kind differs from the expected %s' % shape)
    return sp + tree[1].term


COQ_TYPES = {'S': 'T', 'V': 'list T', 'B': 'bool', 'VV': 'list T * list T'}


def translate_function(module, spec):
    fn = module.func(spec['func'])
    names = [a.arg for a in fn.args.args]
    if names != list(spec['params']):
        raise Unsupported('%s: parameters are %r, expected %r' % (spec['func'], names, list(spec['params'])))
    ctx = Ctx(module, spec)
    env = {}
    byparam = {b[2]: b for b in spec['binders'] if not b[2].startswith('.')}
    for n in names:
        k = spec['params'][n]
        if k == 'O':
            env[n] = O(n)
        else:
            cname = byparam[n][0]
            env[n] = {'S': S(cname), 'B': B(cname)}[k] if k != 'V' else V(cname, length=(cname, 0))
    coqnames = [b[0] for b in spec['binders']]
    if LAMBDA_VAR in coqnames or 'pi' in coqnames:
        raise Unsupported('binder name clashes with a reserved one')
    tree = ctx.block(list(fn.body), {'env': env, 'ct_local': False})
    body = render(tree, spec['ret'])
    binders = ([('pi', 'S')] if ctx.used_pi else []) + [(b[0], b[1]) for b in spec['binders']]
    sig = ' '.join('(%s : %s)' % (n, COQ_TYPES[k]) for n, k in binders)
    # defaults of the python signature (boolean ones become constants of their own, tied by a lemma)
    extra = []
    defaults = dict(zip(names[len(names) - len(fn.args.defaults):], fn.args.defaults))
    for n, dflt in defaults.items():
        if spec['params'][n] == 'B':
            if not (isinstance(dflt, ast.Constant) and isinstance(dflt.value, bool)):
                fail(dflt, 'default of %s is not True/False' % n)
            extra.append('Definition %s_default_%s : bool := %s.\n' % (spec['gen'], n, 'true' if dflt.value else 'false'))
        elif not isinstance(dflt, ast.Constant):
            fail(dflt, 'default of %s is not a constant' % n)
    pysig = ast.unparse(fn.args) if hasattr(ast, 'unparse') else ', '.join(names)
    text = '(** %s: %s(%s) *)\nDefinition %s %s : %s :=\n%s.\n' % (spec['file'], spec['func'], pysig, spec['gen'], sig, COQ_TYPES[spec['ret']], body)
    return text, extra


HEADER = '''(** GENERATED by translator/py2coq_numpy.py from eqsig/displacements.py and eqsig/im.py -- do not edit;
    rewritten on every run.  One definition per source function, generic over [NumOps T]; temporaries are substituted.
    Inputs: a = the record (.values / acceleration), dt = the time step, v = the object's .velocity series,
    pi = np.pi, trap = the integration-rule flag.  proofs/P_gen_quadrature.v proves every definition equal to the model. *)
From Coq Require Import ZArith List Bool.
From EQ Require Import lib.Num lib.NpList.
Import ListNotations.
Local Open Scope num_scope.

Section Generic.
Context {T : Type} `{NumOps T}.
'''


def translate_sources(read):
    """read(relative path) -> source text"""
    mods = {}
    defs, consts = [], []
    for spec in SPECS:
        if spec['file'] not in mods:
            mods[spec['file']] = Module(spec['file'], read(spec['file']))
        try:
            text, extra = translate_function(mods[spec['file']], spec)
        except Unsupported as e:
            raise Unsupported('%s:%s: %s' % (spec['file'], spec['func'], e))
        defs.append(text)
        consts.extend(extra)
    return HEADER + '\n' + '\n'.join(defs) + 'End Generic.\n' + ('\n' + '\n'.join(consts) if consts else '')


def regenerate(repo=None, out=None):
    """returns True iff the file was rewritten; raises Unsupported / OSError / SyntaxError (fail closed).
    On failure the committed copy is left as it is: the caller reports the broken tie."""
    repo = repo or os.environ.get('EQSIG_REPO', '/repo')
    out = out or OUT
    text = translate_sources(lambda rel: open(os.path.join(repo, rel)).read())
    old = open(out).read() if os.path.exists(out) else None
    if old != text:
        os.makedirs(os.path.dirname(out), exist_ok=True)
        with open(out, 'w') as f:
            f.write(text)
        return True
    return False


def main():
    try:
        ch = regenerate(repo=sys.argv[1] if len(sys.argv) > 1 else None)
    except Exception as e:  # fail closed
        print('py2coq_numpy: translation FAILED: %s: %s' % (type(e).__name__, e))
        return 1
    print('py2coq_numpy: %s %s' % (os.path.relpath(OUT, VERIF), 'rewritten' if ch else 'unchanged'))
    return 0


if __name__ == '__main__':
    sys.exit(main())
