#!/venv/bin/python
"""Fail-closed translator of the spectrum-layer functions of property C03 that had only a hand-written model:
    eqsig/sdof.py : absmax, response_series, calc_resp_uke_spectrum, calc_input_energy_spectrum
    eqsig/im.py   : calc_asi, calc_vsi                                               ->  coq/gen/Gen_c03.v

Every function becomes Gallina definitions, generic over `NumOps T` (lib/Num.v), built from the list primitives of
lib/NpList.v.  coq/proofs/P_gen_c03.v proves each generated definition equal to the hand-written model
(model/M_spectra.v) for ALL inputs, so a changed source statement changes the generated term and breaks a proof obligation
of props/Prop_C03_source.v on the next run.

The expression grammar is the one of translator/py2coq_numpy.py (imported, not modified: literals as exact decimals, scalar /
vector arithmetic, `** 2`, abs, max, np.diff, `name = e` substituted into its uses so that a renamed temporary gives the same
text, `if b:` on a boolean parameter) extended by exactly the shapes these functions use.  Everything else raises
`Unsupported` (= the tie is broken; the harness reports it).

Two layers per function.
 (1) WIRING (calc_* functions), recognised structurally, in this order:
       docstring;
       any number of `if <p> is None: <p> = <d> [else: <p> = <e>]` on a parameter <p> whose signature default is None
            -> `let p' := match p with None => <d> | Some p => <e> end`      (<e> = p when there is no else)
            <d>, <e> :  `<obj>.response_times` -> the input response_times;  `np.array(<p>)` -> as_array p;  <p>;
                        `np.arange(l1, l2, l3)` of three literals -> arange l1 l2 l3 (arange is an INPUT function: the float
                        semantics of np.arange is not modelled);  a float literal
       a parameter with a literal signature default (`xi=0.05`) -> `let xi' := match xi with None => 1/20 | Some p => p end`
            (None = argument omitted); a boolean default (`series=False`) -> a constant `gen_.._default_series`;
       `n0, n1, n2 = <callee>(args)`  with <callee> = `response_series` (same module, itself translated: gen_response_series)
            or `sdof.pseudo_response_spectra` (`from eqsig import sdof`; signature read from eqsig/sdof.py): the arguments
            (`<obj>.values`, `<obj>.dt`, the resolved parameters; positional or keyword) are placed in the order of the
            CALLEE's signature; the callee is an INPUT function of the generated definition; the three results are
            named r0, r1, r2 by POSITION (so a swapped `resp_u`/`resp_v` changes which r_i the body uses);
       the rest of the body goes to layer (2).
 (2) BODY, one ROW of the 2-d response arrays (sdof.py, mode 'rows': `<obj>.values` broadcasts against each row, `axis=1` and
     np.diff's default last axis run along the row) or the whole 1-d spectrum (im.py, mode 'whole'):
       the base grammar, plus  `np.sum(V, axis=1)` -> nsum;  `np.cumsum(V, axis=1)` -> cumsum;
       `cumulative_trapezoid(V)` with NO keyword (n-1 values, dx = 1.0) -> tl (cumtrapz n1 V);
       `V.max(axis)` / `V.min(axis)` with `axis` the axis parameter (default None) -> amax V / amin V  (absmax: one row);
       `x > y` -> y <? x, `x < y` -> x <? y, `x >= y` -> y <=? x, `x <= y` -> x <=? y  on scalars;
       `np.where(c, x, y)` on scalars -> if c then x else y.
     Each result of the body must use exactly one of r0, r1, r2; it becomes `gen_<f>_row` / `gen_<f>_of_spectrum` with that row as its last
     argument, and the wiring definition maps it over (mode 'rows') or applies it to (mode 'whole') that r_i.  An `if b:` on a
     boolean parameter gives one body definition per branch (`.._if_b`, `.._ifnot_b`) and an `if b then inl .. else inr ..`
     in the wiring definition.
A function defined more than once at module level (calc_vsi is defined twice in im.py) is accepted only under the spec flag
`last=True`: the LAST definition is translated (the one Python binds), and the number of definitions is written to the
generated comment; a module-level re-binding of the name by anything else is rejected.
"""
import ast, os, re, sys

HERE = os.path.dirname(os.path.abspath(__file__))
sys.path.insert(0, HERE)
import py2coq_numpy as base                                                     # noqa: E402
from py2coq_numpy import Unsupported, fail, S, B, O, V, par, dotted, literal    # noqa: E402

VERIF = os.path.dirname(HERE)
OUT = os.path.join(VERIF, 'coq', 'gen', 'Gen_c03.v')
SDOF, IM = 'eqsig/sdof.py', 'eqsig/im.py'
X = base.LAMBDA_VAR
ROWS = ('r0', 'r1', 'r2')
M3 = 'list (list T) * list (list T) * list (list T)'
V3 = 'list T * list T * list T'

# kinds of python parameters: O object (AccSignal), OP optional periods (default None), OS optional scalar, B boolean,
# V vector, AX axis
SPECS = [
    dict(kind='row', file=SDOF, func='absmax', gen='gen_absmax', params={'a': 'V', 'axis': 'AX'}),
    dict(kind='pass', file=SDOF, func='response_series', gen='gen_response_series',
         params=['motion', 'dt', 'periods', 'xi'], callee='nigam_and_jennings_response', callee_params=['acc', 'dt', 'periods', 'xi']),
    dict(kind='wiring', file=SDOF, func='calc_resp_uke_spectrum', gen='gen_resp_uke', wgen='gen_calc_resp_uke_spectrum', mode='rows',
         params={'acc_signal': 'O', 'periods': 'OP', 'xi': 'OS'},
         callee=('local', 'response_series'), callee_params=['motion', 'dt', 'periods', 'xi'], callee_binder='nj'),
    dict(kind='wiring', file=SDOF, func='calc_input_energy_spectrum', gen='gen_input_energy', wgen='gen_calc_input_energy_spectrum', mode='rows',
         params={'acc_signal': 'O', 'periods': 'OP', 'xi': 'OS', 'series': 'B'},
         callee=('local', 'response_series'), callee_params=['motion', 'dt', 'periods', 'xi'], callee_binder='nj'),
    dict(kind='wiring', file=IM, func='calc_asi', gen='gen_asi', wgen='gen_calc_asi', mode='whole',
         params={'asig': 'O', 'xi': 'OS', 'periods': 'OP'},
         callee=('sdof', 'pseudo_response_spectra'), callee_params=['motion', 'dt', 'periods', 'xi'], callee_binder='prs'),
    dict(kind='wiring', file=IM, func='calc_vsi', gen='gen_vsi', wgen='gen_calc_vsi', mode='whole', last=True,
         params={'asig': 'O', 'xi': 'OS', 'periods': 'OP'},
         callee=('sdof', 'pseudo_response_spectra'), callee_params=['motion', 'dt', 'periods', 'xi'], callee_binder='prs'),
]
# roles of the callee's positions (checked against its signature) -> Coq type
CALLEE_TYPES = ['list T', 'T', 'list T', 'T']


class C:           # scalar comparison
    def __init__(self, term):
        self.term = term


class AX:          # the axis parameter of absmax
    pass


def is_none(n):
    return isinstance(n, ast.Constant) and n.value is None


def strip_doc(body):
    if body and isinstance(body[0], ast.Expr) and isinstance(body[0].value, ast.Constant) and isinstance(body[0].value.value, str):
        return list(body[1:])
    return list(body)


# ---------------------------------------------------------------- module-level lookups
def top_function(module, name, last=False, sig_only=False):
    """the module-level FunctionDef `name` (the last one when last=True) and the number of its definitions; any other
    module-level binding of the name is rejected (sig_only: a callee of which only the signature is read)"""
    defs = [st for st in module.tree.body if isinstance(st, ast.FunctionDef) and st.name == name]
    for st in module.tree.body:
        if isinstance(st, ast.FunctionDef):
            continue
        if isinstance(st, ast.ClassDef) and st.name == name:
            fail(st, '%s is re-bound by a class' % name)
        if isinstance(st, (ast.Import, ast.ImportFrom)):
            for al in st.names:
                if (al.asname or al.name.split('.')[0]) == name:
                    fail(st, '%s is re-bound by an import' % name)
            continue
        for n in ast.walk(st):
            if isinstance(n, ast.Name) and isinstance(n.ctx, (ast.Store, ast.Del)) and n.id == name:
                fail(st, '%s is re-bound at module level' % name)
    if not defs:
        raise Unsupported('function %s not found in %s' % (name, module.path))
    if len(defs) > 1 and not last:
        raise Unsupported('function %s is defined %d times in %s' % (name, len(defs), module.path))
    fn = defs[-1]
    if fn.decorator_list:
        fail(fn, '%s is decorated' % name)
    a = fn.args
    if a.vararg or a.kwarg or a.kwonlyargs or getattr(a, 'posonlyargs', []) or a.kw_defaults:
        fail(fn, '%s: unsupported signature' % name)
    for n in ([] if sig_only else ast.walk(fn)):
        if isinstance(n, (ast.AugAssign, ast.While, ast.For, ast.Try, ast.With, ast.Global, ast.Nonlocal, ast.Lambda,
                          ast.NamedExpr, ast.Delete, ast.Yield, ast.YieldFrom, ast.Await, ast.FunctionDef, ast.ClassDef)) and n is not fn:
            fail(n, '%s: statement kind %s is not accepted' % (name, type(n).__name__))
    return fn, len(defs)


def sdof_binding_ok(module):
    """`sdof` is bound exactly once at module level, by `from eqsig import sdof`"""
    n = 0
    for st in module.tree.body:
        if isinstance(st, ast.ImportFrom):
            for al in st.names:
                if (al.asname or al.name) == 'sdof':
                    if st.module != 'eqsig' or al.name != 'sdof' or st.level:
                        fail(st, 'sdof is bound to %s.%s' % (st.module, al.name))
                    n += 1
        elif isinstance(st, ast.Import):
            for al in st.names:
                if (al.asname or al.name.split('.')[0]) == 'sdof':
                    fail(st, 'sdof is bound by an import statement')
        elif isinstance(st, (ast.FunctionDef, ast.ClassDef)):
            if st.name == 'sdof':
                fail(st, 'sdof is re-defined')
        else:
            for x in ast.walk(st):
                if isinstance(x, ast.Name) and isinstance(x.ctx, (ast.Store, ast.Del)) and x.id == 'sdof':
                    fail(st, 'sdof is assigned at module level')
    return n == 1


def param_names(fn):
    return [a.arg for a in fn.args.args]


def defaults_of(fn):
    names = param_names(fn)
    d = fn.args.defaults
    return dict(zip(names[len(names) - len(d):], d))


def pysig(fn):
    return ast.unparse(fn.args)


# ---------------------------------------------------------------- body grammar (layer 2)
class C3Ctx(base.Ctx):
    def __init__(self, module, spec):
        base.Ctx.__init__(self, module, dict(func=spec['func'], gen=spec['gen'], binders=[]))
        self.c3 = spec

    def attr_input(self, node, attr):
        if attr == 'values':
            return V('values', length=('n', 0))
        if attr == 'dt':
            return S('dt')
        fail(node, 'attribute .%s of the object parameter in the body' % attr)

    def expr(self, e, fr):
        if isinstance(e, ast.Compare):
            if len(e.ops) != 1 or len(e.comparators) != 1:
                fail(e, 'chained comparison')
            x, y = self.expr(e.left, fr), self.expr(e.comparators[0], fr)
            if not (isinstance(x, S) and isinstance(y, S)):
                fail(e, 'comparison of non-scalars')
            op = e.ops[0]
            if isinstance(op, ast.Gt):
                return C('%s <? %s' % (par(y.term), par(x.term)))
            if isinstance(op, ast.Lt):
                return C('%s <? %s' % (par(x.term), par(y.term)))
            if isinstance(op, ast.GtE):
                return C('%s <=? %s' % (par(y.term), par(x.term)))
            if isinstance(op, ast.LtE):
                return C('%s <=? %s' % (par(x.term), par(y.term)))
            fail(e, 'comparison operator %s' % type(op).__name__)
        r = base.Ctx.expr(self, e, fr)
        if isinstance(r, AX):
            fail(e, 'the axis parameter used as a value')
        return r

    def call(self, e, fr):
        f = e.func
        args, kws = e.args, {k.arg: k.value for k in e.keywords}
        if any(isinstance(a, ast.Starred) for a in args) or None in kws:
            fail(e, 'star arguments')
        # V.max(axis) / V.min(axis)
        if isinstance(f, ast.Attribute) and f.attr in ('max', 'min') and isinstance(f.value, ast.Name) \
                and isinstance(fr['env'].get(f.value.id), V):
            if kws or len(args) != 1 or not (isinstance(args[0], ast.Name) and isinstance(fr['env'].get(args[0].id), AX)):
                fail(e, '.%s() must be called with the axis parameter as its only argument' % f.attr)
            return S('a%s %s' % (f.attr, par(fr['env'][f.value.id].term)))
        d = dotted(f)
        if d in ('np.sum', 'np.cumsum') and set(kws) == {'axis'}:
            self.need_np(e, d)
            ax = kws['axis']
            if len(args) != 1 or not (isinstance(ax, ast.Constant) and type(ax.value) is int and ax.value == 1):
                fail(e, '%s must be called as (v, axis=1)' % d)
            if self.c3.get('mode') != 'rows':
                fail(e, '%s(axis=1) outside the row reading' % d)
            x = self.expr(args[0], fr)
            if not isinstance(x, V):
                fail(e, '%s of a non-vector' % d)
            if d == 'np.sum':
                return S('nsum %s' % par(x.term))
            return V('cumsum %s' % par(x.term), x.length, owned=True)
        if d == 'cumulative_trapezoid' and not kws:
            if not (fr['ct_local'] or self.m.ct_global):
                fail(e, 'cumulative_trapezoid is not imported from scipy.integrate')
            if len(args) != 1:
                fail(e, 'cumulative_trapezoid arguments')
            y = self.expr(args[0], fr)
            if not isinstance(y, V):
                fail(e, 'cumulative_trapezoid of a non-vector')
            return V('tl (cumtrapz n1 %s)' % par(y.term), None, owned=True)
        if d == 'np.where':
            self.need_np(e, d)
            if kws or len(args) != 3:
                fail(e, 'np.where arguments')
            c, x, y = (self.expr(a, fr) for a in args)
            if not (isinstance(c, C) and isinstance(x, S) and isinstance(y, S)):
                fail(e, 'np.where other than (scalar comparison, scalar, scalar)')
            return S('if %s then %s else %s' % (c.term, x.term, y.term))
        r = base.Ctx.call(self, e, fr)
        return r

    def inline(self, e, fr):
        fail(e, 'call of another function of the module in the body')


def leaves(tree):
    """-> [(path, value)] with path = () | (('if', b),) | (('ifnot', b),)"""
    if tree[0] == 'ret':
        return [((), tree[1])]
    if tree[0] == 'if':
        c = tree[1]
        if not re.fullmatch(r'[A-Za-z_][A-Za-z_0-9]*', c):
            raise Unsupported('branch on `%s`: only `if <boolean parameter>:` is accepted' % c)
        a, b = tree[2], tree[3]
        if a[0] != 'ret' or b[0] != 'ret':
            raise Unsupported('nested branches')
        return [((('if', c),), a[1]), ((('ifnot', c),), b[1])]
    raise Unsupported('result shape %s' % tree[0])


def used_tokens(term):
    return set(re.findall(r"[A-Za-z_][A-Za-z_0-9']*", term))


# ---------------------------------------------------------------- translation of one function
def translate_row(module, spec):
    """absmax: one row"""
    fn, ndefs = top_function(module, spec['func'])
    if param_names(fn) != list(spec['params']):
        raise Unsupported('%s: parameters are %r' % (spec['func'], param_names(fn)))
    dfl = defaults_of(fn)
    if set(dfl) != {'axis'} or not is_none(dfl['axis']):
        raise Unsupported('%s: the signature must be (a, axis=None)' % spec['func'])
    ctx = C3Ctx(module, spec)
    env = {'a': V('a', length=('a', 0)), 'axis': AX()}
    tree = ctx.block(strip_doc(fn.body), {'env': env, 'ct_local': False})
    if tree[0] != 'ret' or not isinstance(tree[1], S):
        raise Unsupported('%s: result is not one scalar' % spec['func'])
    return ('(** %s: %s(%s), read on ONE row: `a.max(axis)`/`a.min(axis)` are the max/min of that row *)\n'
            'Definition %s (a : list T) : T :=\n  %s.\n' % (spec['file'], spec['func'], pysig(fn), spec['gen'], tree[1].term))


def translate_pass(module, spec):
    """response_series: passes its parameters through to nigam_and_jennings_response"""
    fn, ndefs = top_function(module, spec['func'])
    names = param_names(fn)
    if names != spec['params'] or fn.args.defaults:
        raise Unsupported('%s: parameters are %r' % (spec['func'], names))
    callee, _ = top_function(module, spec['callee'], sig_only=True)
    if param_names(callee) != spec['callee_params'] or callee.args.defaults:
        raise Unsupported('%s: parameters are %r' % (spec['callee'], param_names(callee)))
    body = strip_doc(fn.body)
    if len(body) != 1 or not isinstance(body[0], ast.Return) or not isinstance(body[0].value, ast.Call):
        raise Unsupported('%s: body other than `return %s(...)`' % (spec['func'], spec['callee']))
    call = body[0].value
    if not (isinstance(call.func, ast.Name) and call.func.id == spec['callee']):
        fail(call, 'callee other than %s' % spec['callee'])
    placed = place_args(call, spec['callee_params'], lambda a: a.id if isinstance(a, ast.Name) and a.id in names else fail(a, 'argument other than a parameter'))
    tys = 'ABCD'
    binders = ' '.join('(%s : %s)' % (n, t) for n, t in zip(names, tys))
    return ('(** %s: %s(%s) -> %s(%s) *)\n'
            'Definition %s {A B C D E : Type} (%s : A -> B -> C -> D -> E) %s : E :=\n  %s %s.\n'
            % (spec['file'], spec['func'], pysig(fn), spec['callee'], pysig(callee), spec['gen'], spec['callee'], binders,
               spec['callee'], ' '.join(placed)))


def place_args(call, callee_params, tr):
    """arguments of `call` in the order of the callee's signature (positional, then keywords by name)"""
    if any(isinstance(a, ast.Starred) for a in call.args) or any(k.arg is None for k in call.keywords):
        fail(call, 'star arguments')
    if len(call.args) > len(callee_params):
        fail(call, 'too many arguments')
    slot = {}
    for n, a in zip(callee_params, call.args):
        slot[n] = tr(a)
    for k in call.keywords:
        if k.arg not in callee_params or k.arg in slot:
            fail(call, 'keyword argument %s' % k.arg)
        slot[k.arg] = tr(k.value)
    if set(slot) != set(callee_params):
        fail(call, 'call relies on default arguments of the callee')
    return [slot[n] for n in callee_params]


def translate_wiring(mods, read, spec):
    module = mods[spec['file']]
    fn, ndefs = top_function(module, spec['func'], last=spec.get('last', False))
    names = param_names(fn)
    if names != list(spec['params']):
        raise Unsupported('%s: parameters are %r, expected %r' % (spec['func'], names, list(spec['params'])))
    kinds = spec['params']
    dfl = defaults_of(fn)
    obj = [n for n in names if kinds[n] == 'O']
    if len(obj) != 1 or obj[0] in dfl:
        raise Unsupported('%s: exactly one object parameter without default expected' % spec['func'])
    obj = obj[0]
    gen = spec['gen']
    consts, lets = [], []
    binders = []               # extra inputs: response_times, arange
    state = {}                 # optional parameter -> 'opt' (still an option) | ('val', term)
    for n in names:
        k = kinds[n]
        if k == 'O':
            continue
        if n not in dfl:
            raise Unsupported('%s: parameter %s has no default' % (spec['func'], n))
        d = dfl[n]
        if k == 'B':
            if not (isinstance(d, ast.Constant) and isinstance(d.value, bool)):
                fail(d, 'default of %s is not True/False' % n)
            consts.append('Definition %s_default_%s : bool := %s.\n' % (spec['wgen'], n, 'true' if d.value else 'false'))
        elif k in ('OP', 'OS'):
            if is_none(d):
                state[n] = 'opt'
            elif k == 'OS' and isinstance(d, ast.Constant) and not isinstance(d.value, bool) and isinstance(d.value, (int, float)):
                lets.append("let %s' := match %s with None => %s | Some p => p end in" % (n, n, literal(d).term))
                state[n] = ('val', "%s'" % n)
            else:
                fail(d, 'default of %s is neither None nor a number' % n)
        else:
            raise Unsupported('parameter kind %s' % k)

    def dexpr(e, n, inner):
        """right-hand side of `<n> = e` in an `if <n> is None` statement; inner = term of <n> itself or None"""
        k = kinds[n]
        if isinstance(e, ast.Name) and e.id == n and inner:
            return inner
        if k == 'OS' and isinstance(e, ast.Constant):
            return literal(e).term
        if k == 'OP' and isinstance(e, ast.Attribute) and isinstance(e.value, ast.Name) and e.value.id == obj and e.attr == 'response_times':
            if 'response_times' not in binders:
                binders.append('response_times')
            return 'response_times'
        if k == 'OP' and isinstance(e, ast.Call) and dotted(e.func) == 'np.array':
            if not module.np_ok:
                fail(e, 'np is not `import numpy as np`')
            if len(e.args) != 1 or e.keywords:
                fail(e, 'np.array arguments')
            return 'as_array %s' % par(dexpr(e.args[0], n, inner))
        if k == 'OP' and isinstance(e, ast.Call) and dotted(e.func) == 'np.arange':
            if not module.np_ok:
                fail(e, 'np is not `import numpy as np`')
            if len(e.args) != 3 or e.keywords or not all(isinstance(a, ast.Constant) for a in e.args):
                fail(e, 'np.arange other than three literals')
            if 'arange' not in binders:
                binders.append('arange')
            return 'arange %s' % ' '.join(par(literal(a).term) for a in e.args)
        fail(e, 'default expression for %s' % n)

    def assign_to(stmts, n, inner):
        if len(stmts) != 1 or not isinstance(stmts[0], ast.Assign) or len(stmts[0].targets) != 1:
            fail(stmts[0] if stmts else fn, 'branch of `if %s is None` other than one assignment' % n)
        t = stmts[0].targets[0]
        if not (isinstance(t, ast.Name) and t.id == n):
            fail(stmts[0], 'assignment to something other than %s' % n)
        return dexpr(stmts[0].value, n, inner)

    body = strip_doc(fn.body)
    # ---- `if p is None:` statements
    while body and isinstance(body[0], ast.If):
        st = body[0]
        t = st.test
        if not (isinstance(t, ast.Compare) and len(t.ops) == 1 and isinstance(t.ops[0], ast.Is) and isinstance(t.left, ast.Name)
                and is_none(t.comparators[0]) and state.get(t.left.id) == 'opt'):
            break
        n = t.left.id
        none_term = assign_to(st.body, n, None)
        some_term = assign_to(st.orelse, n, 'p') if st.orelse else 'p'
        lets.append("let %s' := match %s with None => %s | Some p => %s end in" % (n, n, none_term, some_term))
        state[n] = ('val', "%s'" % n)
        body.pop(0)
    # ---- the call with tuple unpacking
    if not body or not isinstance(body[0], ast.Assign) or len(body[0].targets) != 1:
        raise Unsupported('%s: the call with tuple unpacking was not found where expected' % spec['func'])
    st = body.pop(0)
    tgt = st.targets[0]
    if not (isinstance(tgt, ast.Tuple) and len(tgt.elts) == 3 and all(isinstance(x, ast.Name) for x in tgt.elts)
            and len({x.id for x in tgt.elts}) == 3):
        fail(st, 'target other than three distinct names')
    rnames = [x.id for x in tgt.elts]
    if any(r in names or r in base.RESERVED for r in rnames):
        fail(st, 'unpacking into a parameter / reserved name')
    call = st.value
    if not isinstance(call, ast.Call):
        fail(st, 'right-hand side is not a call')
    where, cname = spec['callee']
    if where == 'local':
        if not (isinstance(call.func, ast.Name) and call.func.id == cname):
            fail(call, 'callee other than %s' % cname)
        cfn, _ = top_function(module, cname)
        callee_term = 'gen_%s %s' % (cname, spec['callee_binder'])
    else:
        if dotted(call.func) != 'sdof.%s' % cname or not sdof_binding_ok(module):
            fail(call, 'callee other than sdof.%s (with `from eqsig import sdof`)' % cname)
        if SDOF not in mods:
            mods[SDOF] = base.Module(SDOF, read(SDOF))
        cfn, _ = top_function(mods[SDOF], cname, sig_only=True)
        callee_term = spec['callee_binder']
    if param_names(cfn) != spec['callee_params'] or cfn.args.defaults:
        raise Unsupported('%s: parameters are %r, expected %r' % (cname, param_names(cfn), spec['callee_params']))

    def arg(a):
        if isinstance(a, ast.Attribute) and isinstance(a.value, ast.Name) and a.value.id == obj and a.attr in ('values', 'dt'):
            return a.attr
        if isinstance(a, ast.Name) and isinstance(state.get(a.id), tuple):
            return state[a.id][1]
        fail(a, 'call argument other than %s.values, %s.dt or a resolved optional parameter' % (obj, obj))
    placed = place_args(call, spec['callee_params'], arg)
    # ---- the body on one row / the whole spectrum
    ctx = C3Ctx(module, spec)
    ln = ('n', 0) if spec['mode'] == 'rows' else ('k', 0)
    env = {obj: O(obj)}
    for n in names:
        if kinds[n] == 'B':
            env[n] = B(n)
    for r, c in zip(rnames, ROWS):
        env[r] = V(c, length=ln)
    tree = ctx.block(body, {'env': env, 'ct_local': False})
    lv = leaves(tree)
    suffix = '_row' if spec['mode'] == 'rows' else '_of_spectrum'
    defs, parts = [], []
    for path, v in lv:
        if not isinstance(v, (S, V)):
            raise Unsupported('%s: result is neither a scalar nor a vector' % spec['func'])
        toks = used_tokens(v.term)
        used_rows = toks & set(ROWS)
        if len(used_rows) != 1:
            raise Unsupported('%s: each result must use exactly one of the three returned arrays (uses %s)' % (spec['func'], sorted(used_rows) or 'none'))
        row = used_rows.pop()
        ins = [(n, t) for n, t in (('dt', 'T'), ('values', 'list T')) if n in toks]
        dname = gen + suffix + ''.join('_%s_%s' % (k, b) for k, b in path)
        ty = 'T' if isinstance(v, S) else 'list T'
        defs.append('Definition %s %s: %s :=\n  %s.\n' % (dname, ''.join('(%s : %s) ' % b for b in ins + [(row, 'list T')]), ty, v.term))
        ap = ' '.join([dname] + [n for n, _ in ins])
        if spec['mode'] == 'rows':
            parts.append((path, 'map %s %s' % (par(ap) if ins else ap, row), 'list (%s)' % ty if ty != 'T' else 'list T'))
        else:
            parts.append((path, '%s %s' % (ap, row), ty))
    if len(parts) == 1:
        result, rty = parts[0][1], parts[0][2]
    else:
        (p1, t1, ty1), (p2, t2, ty2) = parts
        result = 'if %s then inl (%s) else inr (%s)' % (p1[0][1], t1, t2)
        rty = '%s + %s' % (ty1 if ' ' not in ty1 else '(%s)' % ty1, ty2 if ' ' not in ty2 else '(%s)' % ty2)
    cty = '%s -> %s' % (' -> '.join(CALLEE_TYPES), M3 if spec['mode'] == 'rows' else V3)
    sig = ['(%s : %s)' % (spec['callee_binder'], cty)]
    if 'arange' in binders:
        sig.append('(arange : T -> T -> T -> list T)')
    sig += ['(values : list T)', '(dt : T)']
    if 'response_times' in binders:
        sig.append('(response_times : list T)')
    for n in names:
        k = kinds[n]
        if k == 'OP':
            sig.append('(%s : option (list T))' % n)
        elif k == 'OS':
            sig.append('(%s : option T)' % n)
        elif k == 'B':
            sig.append('(%s : bool)' % n)
    note = ''
    if ndefs > 1:
        note = ' -- defined %d times in the module: this is the LAST definition (the one Python binds)' % ndefs
    head = '(** %s: %s(%s)%s\n    calls %s%s(%s); results named r0, r1, r2 by position *)\n' % (
        spec['file'], spec['func'], pysig(fn), note, 'sdof.' if where == 'sdof' else '', cname, pysig(cfn))
    wiring = 'Definition %s %s\n    : %s :=\n%s  let \'(r0, r1, r2) := %s %s in\n  %s.\n' % (
        spec['wgen'], ' '.join(sig), rty, ''.join('  %s\n' % l for l in lets), callee_term, ' '.join(placed), result)
    return head + ''.join(defs) + wiring, consts


HEADER = '''(** GENERATED by translator/py2coq_c03.py from eqsig/sdof.py and eqsig/im.py -- do not edit; rewritten on every run.
    Generic over [NumOps T]; temporaries are substituted; the three arrays returned by the response call are r0, r1, r2 by
    POSITION in the tuple.  Inputs: values / dt = the object's .values / .dt, response_times = its .response_times,
    periods / xi = the optional arguments (None = omitted or passed as None), nj / prs = the called response function
    (nigam_and_jennings_response / sdof.pseudo_response_spectra, arguments in the order of ITS signature),
    arange = np.arange.  `_row` definitions read the 2-d arrays one row (= one period) at a time.
    proofs/P_gen_c03.v proves every definition equal to the model (model/M_spectra.v). *)
From Coq Require Import ZArith List Bool.
From EQ Require Import lib.Num lib.NpList model.M_spectra.
Import ListNotations.
Local Open Scope num_scope.

Section Generic.
Context {T : Type} `{NumOps T}.
'''


def translate_sources(read):
    """read(relative path) -> source text"""
    mods = {}
    defs, consts = [], []
    for spec in SPECS:
        if spec['file'] not in mods:
            mods[spec['file']] = base.Module(spec['file'], read(spec['file']))
        try:
            if spec['kind'] == 'row':
                text, extra = translate_row(mods[spec['file']], spec), []
            elif spec['kind'] == 'pass':
                text, extra = translate_pass(mods[spec['file']], spec), []
            else:
                text, extra = translate_wiring(mods, read, spec)
        except Unsupported as e:
            raise Unsupported('%s:%s: %s' % (spec['file'], spec['func'], e))
        defs.append(text)
        consts.extend(extra)
    return HEADER + '\n' + '\n'.join(defs) + 'End Generic.\n' + ('\n' + ''.join(consts) if consts else '')


def regenerate(repo=None, out=None):
    """returns True iff the file was rewritten; raises Unsupported / OSError / SyntaxError (fail closed).
    On failure the committed copy is left as it is: the caller reports the broken tie."""
    repo = repo or os.environ.get('EQSIG_REPO', '/repo')
    out = out or OUT
    text = translate_sources(lambda rel: open(os.path.join(repo, rel)).read())
    old = open(out).read() if os.path.exists(out) else None
    if old != text:
        os.makedirs(os.path.dirname(out), exist_ok=True)
        with open(out, 'w') as f:
            f.write(text)
        return True
    return False


def main():
    try:
        ch = regenerate(repo=sys.argv[1] if len(sys.argv) > 1 else None)
    except Exception as e:  # fail closed
        print('py2coq_c03: translation FAILED: %s: %s' % (type(e).__name__, e))
        return 1
    print('py2coq_c03: %s %s' % (os.path.relpath(OUT, VERIF), 'rewritten' if ch else 'unchanged'))
    return 0


if __name__ == '__main__':
    sys.exit(main())
