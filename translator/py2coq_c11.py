#!/venv/bin/python
"""Fail-closed translator of the peak / zero-crossing functions of eqsig/fns/peaks_and_crossings.py  ->  coq/gen/Gen_c11.v
(properties C11, C12)

    clean_out_non_changing(values)                                   -> gen_clean_out_non_changing
    determine_indices_of_peaks_for_cleaned_array(values)             -> gen_peak_indices_cleaned
    get_peak_array_indices(values, ptype='all')                      -> gen_get_peak_array_indices
    get_zero_crossings_array_indices(values, keep_adj_zeros=False,
                                     tol=0.0)                        -> gen_zero_crossings (+ gen_zero_crossings_loop1_step)
    _argmax_abs_w_sign(peak_values_set, last)                        -> gen_argmax_abs_w_sign
    get_switched_peak_array_indices(values, tol=0.0)                 -> gen_switched_peaks (+ gen_switched_peaks_loop1_step)
    get_n_cyc_array(values, opt='all', start='origin')               -> gen_n_cyc_array

Each function becomes one Gallina definition, generic over `NumOps T`, over the numpy / Python-list primitives of lib/NpList.v and
lib/NpPeaks.v (plus evens / odds / nsign / interp_pts of model/M_peaks.v and np_insert of model/M_cycles.v).  coq/proofs/P_gen_c11.v
proves every generated definition equal to the hand-written statement-by-statement transcription model/M_peaks_pipeline.v for
ALL inputs, so a changed operand, index, literal, comparison, slice bound, to_begin value, string test or default argument in the
source changes the generated text and breaks an obligation of props/Prop_C11_source.v on the next run.

Naming: an array- or tuple-valued assignment at function level becomes a `let` named by its position in evaluation order
(t1, t2, ..); scalars, masks and everything inside a loop body are substituted.  A `for` loop becomes
`fold_left <step> <items> <initial state>`: the step function is its own definition `gen_<f>_loop<k>_step`, its state the tuple
of the variables the body assigns that exist before the loop (in the order of their last assignment before the loop, named
s1, s2, ..), the loop targets are i1, i2, .., the other variables the body reads are parameters c1, c2, .. (in the order of
their first use).  So a renamed temporary gives byte-identical text.

values      : FS float scalar | NS index scalar (nat) | LIT int literal (read as float / nat / Z where it is used) | FV float
              array | IV index array (list nat) | ZV integer array of index differences (list Z) | NV np.arange(len(v)) |
              BV element-wise test | B bool | STR string | TUP pair | python lists (FV / IV with the list flag; the element type
              of `[]` / `[0]` is fixed by the first append) | POISON (a loop variable after its loop; anything computed from it
              is dead: reaching the returned value is an error)
expressions : names; int / float / str literals; unary minus; `not`, `and`; scalar + - * /; index + - (truncated subtraction:
              exact whenever the guard `values <> []` of the theorems holds); FV * FV -> vmul; FV * FS, LIT * NV -> a mapped
              array; comparisons < <= > >= == != (a > b is emitted as b < a), `k in pylist`, `s == 'literal'`;
              `e1 if len(v) else e2`; v[k], v[n], v[a:], v[:-k], v[a:b], v[::2] -> evens, v[1::2] -> odds, v[mask of v] -> filter;
              len, abs / np.abs, max, np.sign, np.argmax, np.diff, np.take, np.insert(x, pos, v), np.ediff1d(x, to_begin=v),
              np.where(test)[0], np.where(mask, array, scalar), np.concatenate((a, b)), np.delete(a, pylist),
              np.array(x[, dtype=float]) -> x, mask.any(), np.arange(len(v)), np.interp(np.arange(len(v)), I, F) -> interp_pts,
              enumerate(v) / range(a, b) as loop iterables; calls of the other translated functions of the module (missing
              arguments are filled from the callee's defaults as written in the source).
statements  : docstring; name = e; a, b = <pair>; pylist += [..]; pylist.append(e); fresh-array.sort(); fresh-array[k:] += s
              (in-place updates only on an array / list this function created, that no other name refers to and of which no
              slice is still referenced; `a = b` on a python list is refused);
              `if c: <always returns / raises>` followed by the rest; if / elif / else that assign (merged into one `let`;
              a raising branch makes it an option-let); for (see above) with if / else / continue in its body; return; raise.
"""
import ast, os, re, sys
from fractions import Fraction

HERE = os.path.dirname(os.path.abspath(__file__))
sys.path.insert(0, HERE)
import py2coq_numpy as base                                                        # noqa: E402
from py2coq_numpy import Unsupported, fail, par, dotted, zlit                       # noqa: E402
from py2coq_durations import builtin_untouched                                     # noqa: E402

VERIF = os.path.dirname(HERE)
OUT = os.path.join(VERIF, 'coq', 'gen', 'Gen_c11.v')
PC = 'eqsig/fns/peaks_and_crossings.py'
X = 'x'

# python function -> generated name, parameter kinds, returned kind, `opt` = the function can raise (returns an option)
SPECS = [
    dict(func='clean_out_non_changing', gen='gen_clean_out_non_changing', params=[('values', 'FV')], ret=('TUP', 'FV', 'IV'), opt=False),
    dict(func='determine_indices_of_peaks_for_cleaned_array', gen='gen_peak_indices_cleaned', params=[('values', 'FV')], ret='IV', opt=False),
    dict(func='get_peak_array_indices', gen='gen_get_peak_array_indices', params=[('values', 'FV'), ('ptype', 'STR')], ret='IV', opt=False),
    dict(func='get_zero_crossings_array_indices', gen='gen_zero_crossings',
         params=[('values', 'FV'), ('keep_adj_zeros', 'B'), ('tol', 'FS')], ret='IV', opt=True),
    dict(func='_argmax_abs_w_sign', gen='gen_argmax_abs_w_sign', params=[('peak_values_set', 'FV'), ('last', 'FS')], ret='NS', opt=False),
    dict(func='get_switched_peak_array_indices', gen='gen_switched_peaks', params=[('values', 'FV'), ('tol', 'FS')], ret='IV', opt=False),
    dict(func='get_n_cyc_array', gen='gen_n_cyc_array', params=[('values', 'FV'), ('opt', 'STR'), ('start', 'STR')], ret='FV', opt=True),
]
COQ_TYPES = {'FS': 'T', 'NS': 'nat', 'FV': 'list T', 'IV': 'list nat', 'ZV': 'list Z', 'B': 'bool', 'STR': 'string'}
RESERVED = {'np', 'numpy', 'abs', 'max', 'len', 'enumerate', 'range', 'st', X}
CANON = re.compile(r'^(t|s|c|i)\d+$')
ZERO = {'FS': 'n0', 'NS': '0%nat'}


class Retry(Exception):
    pass


class Val:
    """kind + Gallina term.  FV may be a mapped array (vec, body): map (fun x => body) vec"""
    def __init__(self, kind, term=None, **kw):
        self.kind, self._term = kind, term
        self.vec, self.body = kw.get('vec'), kw.get('body')          # FV mapped / BV
        self.velt = kw.get('velt')                                    # BV: kind of the elements tested
        self.pylist, self.site = kw.get('pylist', False), kw.get('site')
        self.items = kw.get('items')                                  # TUP / LL
        self.value = kw.get('value')                                  # LIT
        self.fresh = kw.get('fresh', False)
        self.viewof = kw.get('viewof')                                # a slice shares memory with this array

    @property
    def term(self):
        if self._term is not None:
            return self._term
        if self.kind in ('FV', 'BV'):
            return 'map (fun %s => %s) %s' % (X, self.body, par(self.vec))
        raise Unsupported('internal: no term for %s' % self.kind)


POISON = Val('POISON', '?')


def simple(t):
    return t.replace('_', 'a').isalnum()


def flit(node):
    v = node.value
    fr = Fraction(repr(v))
    if float(fr) != v or fr.denominator > 10 ** 18 or abs(fr.numerator) > 10 ** 18:
        fail(node, 'float literal %r is not a short decimal' % v)
    if fr.denominator == 1:
        return zlit(fr.numerator)
    return '%s / %s' % (par(zlit(fr.numerator)), par(zlit(fr.denominator)))


def coerce(v, kind, node=None):
    """read a literal (or a list of literals) at the kind its context needs"""
    if v.kind == kind:
        return v
    if v.kind == 'LIT':
        k = v.value
        if kind == 'FS':
            return Val('FS', zlit(k))
        if kind == 'NS' and k >= 0:
            return Val('NS', '%d%%nat' % k)
        if kind == 'ZS':
            return Val('ZS', '%d%%Z' % k if k >= 0 else '(%d)%%Z' % k)
    if v.kind == 'LL' and kind in ('FV', 'IV'):
        el = 'FS' if kind == 'FV' else 'NS'
        if not v.items:
            return Val(kind, '([] : %s)' % COQ_TYPES[kind], pylist=v.pylist, site=v.site, fresh=True)
        return Val(kind, '[%s]' % '; '.join(coerce(i, el, node).term for i in v.items), pylist=v.pylist, site=v.site, fresh=True)
    fail(node, 'a %s where a %s is needed' % (v.kind, kind))


def subst_x(body, arg):
    """body[x := arg] for a lambda body over the variable x (x occurs only as a whole word)"""
    return re.sub(r'\b%s\b' % X, lambda m: arg, body)


class Ctx:
    def __init__(self, module, spec, table, gens):
        self.m, self.spec, self.table, self.gens = module, spec, table, gens
        self.n = 0                  # let counter
        self.loops = []             # rendered step definitions
        self.seq = 0                # assignment sequence numbers

    # ------------------------------------------------------------ environment
    def fresh_name(self):
        self.n += 1
        return 't%d' % self.n

    def bind(self, env, name, val, node):
        if name in RESERVED or CANON.match(name) or name in self.m.funcs:
            fail(node, 'assignment to %s' % name)
        self.seq += 1
        env[name] = (val, self.seq)

    def lookup(self, env, name, node):
        if name not in env:
            fail(node, 'unknown name %s' % name)
        return env[name][0]

    def poisoned(self, e, env):
        for n in ast.walk(e):
            if isinstance(n, ast.Name) and n.id in env and env[n.id][0].kind == 'POISON':
                return True
        return False

    # ------------------------------------------------------------ expressions
    def expr(self, e, env):
        if self.poisoned(e, env):
            return POISON
        if isinstance(e, ast.Constant):
            v = e.value
            if isinstance(v, bool):
                return Val('B', 'true' if v else 'false')
            if isinstance(v, int):
                if abs(v) > 10 ** 6:
                    fail(e, 'integer literal too large')
                return Val('LIT', value=v)
            if isinstance(v, float):
                return Val('FS', flit(e))
            if isinstance(v, str):
                if not re.match(r'^[A-Za-z0-9_ ]*$', v):
                    fail(e, 'string literal %r' % v)
                return Val('STR', '"%s"%%string' % v)
            fail(e, 'literal %r' % (v,))
        if isinstance(e, ast.Name):
            return self.lookup(env, e.id, e)
        if isinstance(e, ast.UnaryOp):
            x = self.expr(e.operand, env)
            if isinstance(e.op, ast.USub):
                if x.kind == 'LIT':
                    return Val('LIT', value=-x.value)
                if x.kind == 'FS':
                    return Val('FS', '- %s' % par(x.term))
                fail(e, 'unary minus of a %s' % x.kind)
            if isinstance(e.op, ast.Not):
                return Val('B', 'negb %s' % par(self.truth(x, e).term))
            fail(e, 'unary operator')
        if isinstance(e, ast.BoolOp):
            if not isinstance(e.op, ast.And):
                fail(e, 'boolean operator other than `and`')
            ts = [par(self.truth(self.expr(a, env), a).term) for a in e.values]
            return Val('B', ' && '.join(ts))
        if isinstance(e, ast.BinOp):
            return self.binop(e, env)
        if isinstance(e, ast.Compare):
            return self.compare(e, env)
        if isinstance(e, ast.IfExp):
            c = self.truth(self.expr(e.test, env), e.test)
            a, b = self.expr(e.body, env), self.expr(e.orelse, env)
            a, b = self.unify(a, b, e)
            if a.kind not in ('FS', 'NS'):
                fail(e, 'conditional expression of kind %s' % a.kind)
            return Val(a.kind, 'if %s then %s else %s' % (c.term, a.term, b.term))
        if isinstance(e, ast.Subscript):
            return self.subscript(e, env)
        if isinstance(e, ast.Call):
            return self.call(e, env)
        if isinstance(e, ast.List):
            return self.listlit(e, env, pylist=True)
        fail(e, 'expression %s' % type(e).__name__)

    def unify(self, a, b, node):
        if a.kind == b.kind and a.kind != 'LIT':
            return a, b
        if a.kind == 'LIT' and b.kind == 'LIT':
            fail(node, 'two bare int literals: kind unknown')
        if a.kind == 'LIT':
            return coerce(a, b.kind, node), b
        if b.kind == 'LIT':
            return a, coerce(b, a.kind, node)
        fail(node, 'operands of kinds %s and %s' % (a.kind, b.kind))

    def truth(self, v, node):
        if v.kind == 'B':
            return v
        if v.kind == 'NS':          # `if len(x):`
            return Val('B', 'negb (Nat.eqb %s 0)' % par(v.term))
        fail(node, 'truth value of a %s' % v.kind)

    def listlit(self, e, env, pylist):
        items = [self.expr(a, env) for a in e.elts]
        site = (self.spec['func'], e.lineno, e.col_offset)
        kinds = {i.kind for i in items}
        if kinds <= {'LIT'}:
            elt = self.table.get(site)
            ll = Val('LL', items=items, pylist=pylist, site=site)
            if elt is None:
                return ll
            return coerce(ll, 'FV' if elt == 'FS' else 'IV', e)
        kinds.discard('LIT')
        if len(kinds) != 1 or not kinds <= {'FS', 'NS'}:
            fail(e, 'list literal with elements of kinds %s' % sorted(kinds))
        el = kinds.pop()
        return Val('FV' if el == 'FS' else 'IV', '[%s]' % '; '.join(coerce(i, el, e).term for i in items), pylist=pylist, fresh=True)

    def binop(self, e, env):
        ops = {ast.Add: '+', ast.Sub: '-', ast.Mult: '*', ast.Div: '/'}
        sym = ops.get(type(e.op))
        if sym is None:
            fail(e, 'binary operator %s' % type(e.op).__name__)
        a, b = self.expr(e.left, env), self.expr(e.right, env)
        ks = (a.kind, b.kind)
        if ks == ('FV', 'FV') and sym == '*' and not a.pylist and not b.pylist:
            return Val('FV', 'vmul %s %s' % (par(a.term), par(b.term)), fresh=True)
        if a.kind == 'FV' and b.kind in ('FS', 'LIT') and not a.pylist:
            s = coerce(b, 'FS', e)
            vec, body = (a.vec, a.body) if a.vec else (a.term, X)
            return Val('FV', vec=vec, body='%s %s %s' % (par(body), sym, par(s.term)), fresh=True)
        if a.kind in ('FS', 'LIT') and b.kind == 'NV' and sym == '*':
            s = coerce(a, 'FS', e)
            return Val('FV', vec=b.term, body='%s * nofZ (Z.of_nat %s)' % (par(s.term), X), fresh=True)
        if 'FS' in ks and set(ks) <= {'FS', 'LIT'}:
            a, b = coerce(a, 'FS', e), coerce(b, 'FS', e)
            return Val('FS', '%s %s %s' % (par(a.term), sym, par(b.term)))
        if 'NS' in ks and set(ks) <= {'NS', 'LIT'} and sym in '+-':
            a, b = coerce(a, 'NS', e), coerce(b, 'NS', e)
            return Val('NS', '(%s %s %s)%%nat' % (par(a.term), sym, par(b.term)))
        fail(e, 'operands of %s: %s, %s' % (sym, a.kind, b.kind))

    def cmp_term(self, op, a, b, kind, node):
        sc = {'FS': 'num', 'NS': 'nat', 'ZS': 'Z'}[kind]
        eq = {'FS': '(%s =? %s)%%num', 'NS': 'Nat.eqb %s %s', 'ZS': '(%s =? %s)%%Z'}[kind]
        a, b = par(a), par(b)
        if isinstance(op, ast.Lt):
            return '(%s <? %s)%%%s' % (a, b, sc)
        if isinstance(op, ast.LtE):
            return '(%s <=? %s)%%%s' % (a, b, sc)
        if isinstance(op, ast.Gt):
            return '(%s <? %s)%%%s' % (b, a, sc)
        if isinstance(op, ast.GtE):
            return '(%s <=? %s)%%%s' % (b, a, sc)
        if isinstance(op, ast.Eq):
            return eq % (a, b)
        if isinstance(op, ast.NotEq):
            return 'negb (%s)' % (eq % (a, b))
        fail(node, 'comparison operator %s' % type(op).__name__)

    def compare(self, e, env):
        if len(e.ops) != 1:
            fail(e, 'chained comparison')
        op = e.ops[0]
        a, b = self.expr(e.left, env), self.expr(e.comparators[0], env)
        if isinstance(op, ast.In):
            a = coerce(a, 'NS', e)
            if b.kind == 'LL' and b.pylist and not b.items:
                self.table[b.site] = 'NS'
                raise Retry()
            if not (b.kind == 'IV' and b.pylist):
                fail(e, '`in` on something other than a python list of indices')
            return Val('B', 'mem_nat %s %s' % (par(a.term), par(b.term)))
        if a.kind == 'STR' or b.kind == 'STR':
            if not (a.kind == b.kind and isinstance(op, (ast.Eq, ast.NotEq))):
                fail(e, 'string comparison')
            t = 'String.eqb %s %s' % (par(a.term), par(b.term))
            return Val('B', t if isinstance(op, ast.Eq) else 'negb (%s)' % t)
        if a.kind in ('FV', 'IV', 'ZV') and not a.pylist:
            el = {'FV': 'FS', 'IV': 'NS', 'ZV': 'ZS'}[a.kind]
            s = coerce(b, el, e)
            vec, body = (a.vec, a.body) if a.vec else (a.term, X)
            return Val('BV', vec=vec, body=self.cmp_term(op, body, s.term, el, e), velt=el)
        a, b = self.unify(a, b, e)
        if a.kind not in ('FS', 'NS'):
            fail(e, 'comparison of %s' % a.kind)
        return Val('B', self.cmp_term(op, a.term, b.term, a.kind, e))

    def index(self, e, env):
        """an index expression -> NS"""
        v = self.expr(e, env)
        if v.kind == 'POISON':
            return v
        return coerce(v, 'NS', e)

    def neg_lit(self, n):
        return (isinstance(n, ast.UnaryOp) and isinstance(n.op, ast.USub) and isinstance(n.operand, ast.Constant)
                and type(n.operand.value) is int and 1 <= n.operand.value < 10 ** 6)

    def subscript(self, e, env):
        sl = e.slice
        if isinstance(sl, ast.Index):
            sl = sl.value
        # np.where(test)[0]
        c = e.value
        if isinstance(c, ast.Call) and dotted(c.func) == 'np.where' and len(c.args) == 1 and not c.keywords:
            self.need_np(env, e)
            if not (isinstance(sl, ast.Constant) and type(sl.value) is int and sl.value == 0):
                fail(e, 'np.where(test)[k] with k other than 0')
            t = self.expr(c.args[0], env)
            if t.kind != 'BV':
                fail(e, 'np.where of something other than an element-wise test')
            return Val('IV', 'where_idx (fun %s => %s) %s' % (X, t.body, par(t.vec)), fresh=True)
        x = self.expr(c, env)
        if x.kind not in ('FV', 'IV'):
            fail(e, 'subscript of a %s' % x.kind)
        el = 'FS' if x.kind == 'FV' else 'NS'
        if isinstance(sl, ast.Slice):
            lo, up, st = sl.lower, sl.upper, sl.step
            if st is not None:
                if not (isinstance(st, ast.Constant) and type(st.value) is int and st.value == 2 and up is None):
                    fail(e, 'step slice other than [::2], [1::2]')
                if lo is None or (isinstance(lo, ast.Constant) and type(lo.value) is int and lo.value == 0):
                    return Val(x.kind, 'evens %s' % par(x.term), viewof=x.viewof or x.term)
                if isinstance(lo, ast.Constant) and type(lo.value) is int and lo.value == 1:
                    return Val(x.kind, 'odds %s' % par(x.term), viewof=x.viewof or x.term)
                fail(e, 'step slice other than [::2], [1::2]')
            if lo is not None and up is None:
                if not (isinstance(lo, ast.Constant) and type(lo.value) is int and 0 <= lo.value < 10 ** 6):
                    fail(e, 'slice [a:] with a other than a non-negative int literal')
                return Val(x.kind, 'sl_from %d %s' % (lo.value, par(x.term)), viewof=x.viewof or x.term)
            if lo is None and up is not None:
                if not self.neg_lit(up):
                    fail(e, 'slice [:b] with b other than a negative int literal')
                return Val(x.kind, 'sl_to_m %d %s' % (up.operand.value, par(x.term)), viewof=x.viewof or x.term)
            if lo is not None and up is not None:
                a, b = self.index(lo, env), self.index(up, env)
                return Val(x.kind, 'sl_range %s %s %s' % (par(a.term), par(b.term), par(x.term)), viewof=x.viewof or x.term)
            fail(e, 'slice [:]')
        i = self.expr(sl, env)
        if i.kind == 'BV':
            if x.vec or i.vec != x.term or x.kind != 'FV':
                fail(e, 'mask indexing by a test on another array')
            return Val('FV', 'filter (fun %s => %s) %s' % (X, i.body, par(x.term)), fresh=True)
        if i.kind == 'LIT' and i.value < 0:
            fail(e, 'negative index')
        i = coerce(i, 'NS', e)
        t = i.term[:-4] if i.term.endswith('%nat') and i.term[:-4].isdigit() else par(i.term)
        return Val(el, 'nth %s %s %s' % (t, par(x.term), ZERO[el]))

    def need_np(self, env, node):
        if not self.m.np_ok or 'np' in env:
            fail(node, 'np is not numpy here')

    def builtin(self, name, env, node):
        if name in env or not builtin_untouched(self.m, name):
            fail(node, '%s is not the builtin' % name)

    def array_arg(self, v, node, kinds=('FV', 'IV')):
        if v.kind not in kinds:
            fail(node, 'a %s where an array is needed' % v.kind)
        return v

    def call(self, e, env):
        f = e.func
        args, kws = e.args, {k.arg: k.value for k in e.keywords}
        if any(isinstance(a, ast.Starred) for a in args) or None in kws:
            fail(e, 'star arguments')
        # method calls: mask.any()
        if isinstance(f, ast.Attribute) and f.attr == 'any' and isinstance(f.value, ast.Name) and not args and not kws:
            m = self.expr(f.value, env)
            if m.kind != 'BV':
                fail(e, '.any() of a %s' % m.kind)
            return Val('B', 'np_any %s' % par(m.term))
        d = dotted(f)
        if d is None:
            fail(e, 'call of a computed function')
        if d.split('.')[0] in env:
            fail(e, 'call through the local name %s' % d.split('.')[0])
        if d.startswith('np.'):
            self.need_np(env, e)

        def pos(n, allowed=()):
            if len(args) != n or set(kws) - set(allowed):
                fail(e, '%s arguments' % d)
            return [self.expr(a, env) for a in args]

        if d == 'len':
            self.builtin('len', env, e)
            (x,) = pos(1)
            self.array_arg(x, e)
            return Val('NS', 'length %s' % par(x.term))
        if d in ('abs', 'np.abs'):
            if d == 'abs':
                self.builtin('abs', env, e)
            (x,) = pos(1)
            if x.kind == 'FS':
                return Val('FS', 'nabs %s' % par(x.term))
            if x.kind == 'FV':
                return Val('FV', 'vabs %s' % par(x.term), fresh=True)
            fail(e, 'abs of a %s' % x.kind)
        if d == 'max':
            self.builtin('max', env, e)
            (x,) = pos(1)
            if x.kind != 'FV':
                fail(e, 'max of a %s' % x.kind)
            return Val('FS', 'amax %s' % par(x.term))
        if d == 'np.sign':
            (x,) = pos(1)
            if x.kind != 'FS':
                fail(e, 'np.sign of a %s' % x.kind)
            return Val('FS', 'nsign %s' % par(x.term))
        if d == 'np.argmax':
            (x,) = pos(1)
            if x.kind != 'FV':
                fail(e, 'np.argmax of a %s' % x.kind)
            return Val('NS', 'argmax %s' % par(x.term))
        if d == 'np.diff':
            (x,) = pos(1)
            if x.kind != 'FV':
                fail(e, 'np.diff of a %s' % x.kind)
            return Val('FV', 'diff %s' % par(x.term), fresh=True)
        if d == 'np.array':
            (x,) = pos(1, ('dtype',))
            if 'dtype' in kws:
                if not (isinstance(kws['dtype'], ast.Name) and kws['dtype'].id == 'float' and 'float' not in env
                        and builtin_untouched(self.m, 'float')):
                    fail(e, 'np.array dtype other than float')
                if x.kind != 'FV':
                    fail(e, 'np.array(., dtype=float) of a %s' % x.kind)
            if x.kind == 'LL':
                return Val('LL', items=x.items, pylist=False, site=x.site)
            if x.kind not in ('FV', 'IV'):
                fail(e, 'np.array of a %s' % x.kind)
            return Val(x.kind, x.term, fresh=True)
        if d == 'np.ediff1d':
            (x,) = pos(1, ('to_begin',))
            if 'to_begin' not in kws:
                fail(e, 'np.ediff1d without to_begin')
            b = self.expr(kws['to_begin'], env)
            if x.kind == 'FV':
                return Val('FV', 'ediff1d %s %s' % (par(coerce(b, 'FS', e).term), par(x.term)), fresh=True)
            if x.kind == 'IV':
                return Val('ZV', 'ediff1dZ %s (map Z.of_nat %s)' % (par(coerce(b, 'ZS', e).term), par(x.term)), fresh=True)
            fail(e, 'np.ediff1d of a %s' % x.kind)
        if d == 'np.take':
            x, i = pos(2)
            self.array_arg(x, e)
            if i.kind != 'IV':
                fail(e, 'np.take indices of kind %s' % i.kind)
            return Val(x.kind, 'take %s %s %s' % (ZERO['FS' if x.kind == 'FV' else 'NS'], par(x.term), par(i.term)), fresh=True)
        if d == 'np.insert':
            if len(args) != 3 or kws:
                fail(e, 'np.insert arguments')
            x = self.array_arg(self.expr(args[0], env), e)
            p = self.index(args[1], env)
            v = coerce(self.expr(args[2], env), 'FS' if x.kind == 'FV' else 'NS', e)
            pt = p.term[:-4] if p.term.endswith('%nat') and p.term[:-4].isdigit() else par(p.term)
            return Val(x.kind, 'np_insert %s %s %s' % (par(x.term), pt, par(v.term)), fresh=True)
        if d == 'np.where':
            if len(args) != 3 or kws:
                fail(e, 'np.where other than np.where(test)[0] / np.where(mask, array, scalar)')
            m, a, s = [self.expr(a, env) for a in args]
            if m.kind != 'BV' or a.kind != 'FV':
                fail(e, 'np.where operands')
            s = coerce(s, 'FS', e)
            return Val('FV', 'np_where_vs %s %s %s' % (par(m.term), par(a.term), par(s.term)), fresh=True)
        if d == 'np.concatenate':
            if len(args) != 1 or kws or not isinstance(args[0], ast.Tuple) or len(args[0].elts) != 2:
                fail(e, 'np.concatenate other than np.concatenate((a, b))')
            a, b = [self.expr(x, env) for x in args[0].elts]
            if not (a.kind == b.kind == 'IV'):
                fail(e, 'np.concatenate operands')
            return Val('IV', 'np_concatenate %s %s' % (par(a.term), par(b.term)), fresh=True)
        if d == 'np.delete':
            a, i = pos(2)
            if not (a.kind == 'IV' and i.kind == 'IV'):
                fail(e, 'np.delete operands')
            return Val('IV', 'np_delete %s %s' % (par(a.term), par(i.term)), fresh=True)
        if d == 'np.arange':
            (n,) = pos(1)
            if not (n.kind == 'NS' and n.term.startswith('length ')):
                fail(e, 'np.arange of something other than len(v)')
            return Val('NV', 'seq 0 %s' % par(n.term))
        if d == 'np.interp':
            q, xp, fp = pos(3)
            if not (q.kind == 'NV' and xp.kind == 'IV' and fp.kind == 'FV'):
                fail(e, 'np.interp operands')
            return Val('FV', 'map (interp_pts %s %s) %s' % (par(xp.term), par(fp.term), par(q.term)), fresh=True)
        if isinstance(f, ast.Name) and f.id in self.gens:
            return self.modcall(e, env, f.id, args, kws)
        fail(e, 'call of %s' % d)

    def modcall(self, e, env, name, args, kws):
        """call of another translated function of the module: a reference to its generated definition"""
        spec, fn = self.gens[name]
        if spec['opt']:
            fail(e, 'call of %s, which can raise' % name)
        names = [a.arg for a in fn.args.args]
        defaults = dict(zip(names[len(names) - len(fn.args.defaults):], fn.args.defaults))
        if len(args) > len(names) or any(k not in names or k in names[:len(args)] for k in kws):
            fail(e, 'arguments of %s' % name)
        given = dict(zip(names, args))
        given.update(kws)
        terms = []
        for n, k in spec['params']:
            if n in given:
                v = self.expr(given[n], env)
                if v.kind == 'POISON':
                    return POISON
            elif n in defaults:
                v = self.expr(defaults[n], {})
            else:
                fail(e, 'missing argument %s of %s' % (n, name))
            terms.append(par(coerce(v, k, e).term))
        t = '%s %s' % (spec['gen'], ' '.join(terms))
        ret = spec['ret']
        if isinstance(ret, tuple):
            return Val('TUP', t, items=list(ret[1:]))
        return Val(ret, t, fresh=True)

    # ------------------------------------------------------------ statements
    def let(self, val, out):
        """name an array / pair value by its position in evaluation order"""
        if self.nolet or val.kind not in ('FV', 'IV', 'ZV', 'TUP') or simple(val.term):
            return val
        name = self.fresh_name()
        out.append(('let %s := %s in' % (name, val.term), ''))
        return Val(val.kind, name, pylist=val.pylist, site=val.site, items=val.items, fresh=val.fresh, viewof=val.viewof)

    def unique(self, env, name, node):
        """the value of `name` is a fresh array that no other name refers to (in-place update = rebinding)"""
        v = env[name][0]
        if not v.fresh and not v.pylist:
            fail(node, 'in-place update of %s, which is a parameter or a view' % name)
        if v.kind != 'LL' and sum(1 for n, (w, _) in env.items() if w.kind == v.kind and w._term is not None and w._term == v._term) != 1:
            fail(node, 'in-place update of %s, which is aliased' % name)
        if v.kind != 'LL' and any(w.viewof is not None and w.viewof == v._term for w, _ in env.values()):
            fail(node, 'in-place update of %s, of which a slice is still referenced' % name)
        return v

    def simple_stmt(self, s, env, out):
        if isinstance(s, ast.Pass):
            return
        if isinstance(s, ast.Expr):
            v = s.value
            if isinstance(v, ast.Constant) and isinstance(v.value, str):
                return
            if (isinstance(v, ast.Call) and isinstance(v.func, ast.Attribute) and isinstance(v.func.value, ast.Name)
                    and not v.keywords and v.func.value.id in env):
                name, meth = v.func.value.id, v.func.attr
                cur = env[name][0]
                if cur.kind == 'POISON':
                    return
                if meth == 'append' and len(v.args) == 1:
                    if not cur.pylist:
                        fail(s, '.append on something other than a python list')
                    x = self.expr(v.args[0], env)
                    if x.kind == 'POISON':
                        self.bind(env, name, POISON, s)
                        return
                    if cur.kind == 'LL':
                        if x.kind not in ('FS', 'NS'):
                            fail(s, 'cannot type the list %s' % name)
                        self.table[cur.site] = x.kind
                        raise Retry()
                    self.unique(env, name, s)
                    x = coerce(x, 'FS' if cur.kind == 'FV' else 'NS', s)
                    nv = Val(cur.kind, '%s ++ [%s]' % (par(cur.term), x.term), pylist=True, fresh=True)
                    self.bind(env, name, self.let(nv, out), s)
                    return
                if meth == 'sort' and not v.args:
                    if cur.kind != 'IV' or cur.pylist:
                        fail(s, '.sort() on something other than an index array')
                    self.unique(env, name, s)
                    self.bind(env, name, self.let(Val('IV', 'np_sort %s' % par(cur.term), fresh=True), out), s)
                    return
            fail(s, 'expression statement')
        if isinstance(s, ast.Assign):
            if len(s.targets) != 1:
                fail(s, 'multiple assignment')
            t = s.targets[0]
            if isinstance(t, ast.Name):
                if isinstance(s.value, ast.Name) and s.value.id in env and env[s.value.id][0].pylist:
                    fail(s, 'alias of a python list')
                v = self.expr(s.value, env)
                if v.kind in ('TUP', 'NV'):
                    fail(s, 'assignment of a %s to one name' % v.kind)
                self.bind(env, t.id, self.let(v, out), s)
                return
            if (isinstance(t, ast.Tuple) and len(t.elts) == 2 and all(isinstance(n, ast.Name) for n in t.elts)
                    and t.elts[0].id != t.elts[1].id):
                p = self.expr(s.value, env)
                if p.kind == 'POISON':
                    for n in t.elts:
                        self.bind(env, n.id, POISON, s)
                    return
                if p.kind != 'TUP':
                    fail(s, 'tuple assignment from a %s' % p.kind)
                p = self.let(p, out)
                for n, k, proj in zip(t.elts, p.items, ('fst', 'snd')):
                    self.bind(env, n.id, Val(k, '%s %s' % (proj, par(p.term)), fresh=True), s)
                return
            fail(s, 'assignment target')
        if isinstance(s, ast.AugAssign):
            if not isinstance(s.op, ast.Add):
                fail(s, 'augmented assignment other than +=')
            t = s.target
            if isinstance(t, ast.Name) and t.id in env:
                cur = env[t.id][0]
                if cur.kind == 'POISON':
                    return
                if not (cur.pylist and isinstance(s.value, ast.List)):
                    fail(s, '+= other than <python list> += [..]')
                add = self.listlit(s.value, env, pylist=True) if not self.poisoned(s.value, env) else POISON
                if add.kind == 'POISON':
                    self.bind(env, t.id, POISON, s)
                    return
                if cur.kind == 'LL':
                    if add.kind not in ('FV', 'IV'):
                        fail(s, 'cannot type the list %s' % t.id)
                    self.table[cur.site] = 'FS' if add.kind == 'FV' else 'NS'
                    raise Retry()
                self.unique(env, t.id, s)
                add = coerce(add, cur.kind, s)
                self.bind(env, t.id, self.let(Val(cur.kind, '%s ++ %s' % (par(cur.term), add.term), pylist=True, fresh=True), out), s)
                return
            if (isinstance(t, ast.Subscript) and isinstance(t.value, ast.Name) and t.value.id in env):
                sl = t.slice.value if isinstance(t.slice, ast.Index) else t.slice
                cur = env[t.value.id][0]
                ok = (isinstance(sl, ast.Slice) and sl.upper is None and sl.step is None and isinstance(sl.lower, ast.Constant)
                      and type(sl.lower.value) is int and 0 <= sl.lower.value < 10 ** 6 and cur.kind == 'FV' and not cur.pylist)
                if not ok:
                    fail(s, 'sliced += other than <fresh float array>[k:] += scalar')
                self.unique(env, t.value.id, s)
                v = coerce(self.expr(s.value, env), 'FS', s)
                nv = Val('FV', 'sl_from_update %d (fun %s => %s + %s) %s' % (sl.lower.value, X, X, par(v.term), par(cur.term)), fresh=True)
                self.bind(env, t.value.id, self.let(nv, out), s)
                return
            fail(s, 'augmented assignment target')
        if isinstance(s, ast.For):
            return self.for_loop(s, env, out)
        fail(s, 'statement %s' % type(s).__name__)

    # ------------------------------------------------------------ control flow at function level
    def always_exits(self, stmts):
        if not stmts:
            return False
        s = stmts[-1]
        if isinstance(s, (ast.Return, ast.Raise)):
            return True
        return isinstance(s, ast.If) and self.always_exits(s.body) and self.always_exits(s.orelse)

    def has_exit(self, stmts):
        return any(isinstance(n, (ast.Return, ast.Raise)) for s in stmts for n in ast.walk(s))

    def render(self, out, final, ind):
        pad = ' ' * ind
        lines = [pad + o for o, _ in out] + [pad + l for l in final.split('\n')]
        closes = ''.join(' ' + c for _, c in reversed(out) if c)
        return '\n'.join(lines) + closes

    def ret(self, s, env):
        if s.value is None:
            fail(s, 'bare return')
        kind = self.spec['ret']
        if isinstance(kind, tuple):
            if not (isinstance(s.value, ast.Tuple) and len(s.value.elts) == len(kind) - 1):
                fail(s, 'returned value is not a pair')
            vs = [self.expr(x, env) for x in s.value.elts]
            if any(v.kind == 'POISON' for v in vs):
                fail(s, 'the returned value depends on a loop variable after its loop')
            t = '(%s)' % ', '.join(coerce(v, k, s).term for v, k in zip(vs, kind[1:]))
        else:
            v = self.expr(s.value, env)
            if v.kind == 'POISON':
                fail(s, 'the returned value depends on a loop variable after its loop / a possibly unbound name')
            t = coerce(v, kind, s).term
        return 'Some %s' % par(t) if self.spec['opt'] else t

    def body(self, stmts, env, ind=2):
        out = []
        stmts = list(stmts)
        while stmts:
            s = stmts.pop(0)
            if isinstance(s, ast.Return):
                return self.render(out, self.ret(s, env), ind)
            if isinstance(s, ast.Raise):
                if not self.spec['opt']:
                    fail(s, 'raise in a function that is translated as total')
                return self.render(out, 'None', ind)
            if isinstance(s, ast.If) and self.always_exits(s.body):
                c = self.truth(self.expr(s.test, env), s.test)
                a = self.body(s.body, dict(env), 2)
                b = self.body(s.orelse + stmts, env, 0)
                return self.render(out, 'if %s then\n%s\nelse\n%s' % (c.term, a, b), ind)
            if isinstance(s, ast.If):
                self.merge_if(s, env, out)
                continue
            self.simple_stmt(s, env, out)
        raise Unsupported('control reaches the end of %s without a return' % self.spec['func'])

    def merge_if(self, s, env, out):
        """if / elif / else whose branches only assign (the last `else` may raise): the assigned variable becomes one let"""
        chain, node = [], s
        while True:
            chain.append((self.truth(self.expr(node.test, env), node.test).term, node.body))
            if len(node.orelse) == 1 and isinstance(node.orelse[0], ast.If):
                node = node.orelse[0]
            else:
                chain.append((None, node.orelse))
                break
        results = []                                   # (cond, out_b, env_b, raises)
        for c, stmts in chain:
            env_b, out_b, raises = dict(env), [], False
            for i, st in enumerate(stmts):
                if isinstance(st, ast.Raise) and i == len(stmts) - 1 and self.spec['opt']:
                    raises = True
                    break
                if isinstance(st, (ast.If, ast.Return, ast.Raise)):
                    fail(st, 'nested control flow in an assigning branch')
                self.simple_stmt(st, env_b, out_b)
            results.append((c, out_b, env_b, raises))
        live = [r for r in results if not r[3]]
        changed = []
        for _, _, env_b, _ in live:
            for n, (v, q) in env_b.items():
                if (n not in env or env[n][1] != q) and n not in changed:
                    changed.append(n)
        changed.sort(key=lambda n: min(r[2][n][1] for r in live if n in r[2] and (n not in env or r[2][n][1] != env[n][1])))
        merged = []
        for n in changed:
            vals = [r[2].get(n) for r in live]
            if any(v is None or v[0].kind == 'POISON' for v in vals):
                self.bind(env, n, POISON, s)            # possibly unbound / dead
            else:
                merged.append(n)
        if not merged:
            return
        if len(merged) != 1:
            fail(s, 'an if statement that assigns %d live variables (%s)' % (len(merged), ', '.join(merged)))
        n = merged[0]
        vals = [r[2][n][0] for r in live]
        kind = next((v.kind for v in vals if v.kind not in ('LIT', 'LL')), None)
        if kind is None or kind not in COQ_TYPES:
            fail(s, 'cannot type %s after the if' % n)
        anyraise = any(r[3] for r in results)
        parts = []
        for c, out_b, env_b, raises in results:
            if raises:
                t = 'None'
            else:
                v = coerce(env_b[n][0], kind, s)
                t = v.term
                if out_b and out_b[-1][0].startswith('let %s := ' % t) and simple(t):
                    t = out_b[-1][0][len('let %s := ' % t):-len(' in')]      # `let tN := e in tN` is e
                    out_b = out_b[:-1]
                if out_b:
                    t = '(%s %s)' % (' '.join(o for o, _ in out_b), t)
                    if any(cl for _, cl in out_b):
                        fail(s, 'option-let inside a branch')
                if anyraise:
                    t = 'Some %s' % par(t)
            parts.append((c, t))
        term = ''
        for c, t in parts:
            term += ('if %s then %s else ' % (c, t)) if c is not None else t
        name = self.fresh_name()
        last = results[-1][2][n][0] if not results[-1][3] else live[0][2][n][0]
        if anyraise:
            out.append(('match (%s) with None => None | Some %s =>' % (term, name), 'end'))
        else:
            out.append(('let %s := %s in' % (name, term), ''))
        fresh = all(v.fresh for v in vals)
        self.bind(env, n, Val(kind, name, pylist=all(v.pylist for v in vals), fresh=fresh), s)

    # ------------------------------------------------------------ loops
    def assigned_names(self, stmts):
        names = []
        for st in stmts:
            for n in ast.walk(st):
                if isinstance(n, (ast.FunctionDef, ast.Lambda, ast.ClassDef, ast.While, ast.For, ast.Global, ast.Nonlocal, ast.Break,
                                  ast.Return, ast.Raise, ast.Try, ast.With, ast.ListComp, ast.GeneratorExp, ast.NamedExpr, ast.Delete)):
                    fail(n, '%s inside a loop body' % type(n).__name__)
                ids = []
                if isinstance(n, ast.Name) and isinstance(n.ctx, ast.Store):
                    ids = [n.id]
                elif isinstance(n, ast.AugAssign) and isinstance(n.target, ast.Name):
                    ids = [n.target.id]
                elif isinstance(n, ast.Call) and isinstance(n.func, ast.Attribute) and isinstance(n.func.value, ast.Name):
                    ids = [n.func.value.id] if n.func.value.id != 'np' else []    # a method call may update its receiver
                elif isinstance(n, ast.Subscript) and isinstance(n.ctx, ast.Store):
                    fail(n, 'item assignment inside a loop body')
                for i in ids:
                    if i not in names:
                        names.append(i)
        return names

    def for_loop(self, s, env, out):
        if s.orelse:
            fail(s, 'for .. else')
        it = s.iter
        if not (isinstance(it, ast.Call) and isinstance(it.func, ast.Name) and not it.keywords):
            fail(s, 'loop over something other than enumerate(v) / range(a, b)')
        if it.func.id == 'enumerate' and len(it.args) == 1:
            self.builtin('enumerate', env, s)
            x = self.array_arg(self.expr(it.args[0], env), s)
            el = 'FS' if x.kind == 'FV' else 'NS'
            items, item_ty = 'py_enumerate %s' % par(x.term), 'nat * %s' % COQ_TYPES[el]
            if not (isinstance(s.target, ast.Tuple) and len(s.target.elts) == 2 and all(isinstance(n, ast.Name) for n in s.target.elts)
                    and s.target.elts[0].id != s.target.elts[1].id):
                fail(s, 'target of a loop over enumerate')
            targets = [(s.target.elts[0].id, 'NS'), (s.target.elts[1].id, el)]
        elif it.func.id == 'range' and len(it.args) == 2:
            self.builtin('range', env, s)
            a, b = self.index(it.args[0], env), self.index(it.args[1], env)
            items, item_ty = 'py_range2 %s %s' % (par(a.term), par(b.term)), 'nat'
            if not isinstance(s.target, ast.Name):
                fail(s, 'target of a loop over range')
            targets = [(s.target.id, 'NS')]
        else:
            fail(s, 'loop over something other than enumerate(v) / range(a, b)')
        tnames = [n for n, _ in targets]
        assigned = [n for n in self.assigned_names(s.body) if n not in tnames]
        state = sorted([n for n in assigned if n in env], key=lambda n: env[n][1])
        locs = [n for n in assigned if n not in env]
        if not state:
            fail(s, 'a loop that updates nothing')
        lenv = {}
        for n, (v, q) in env.items():
            if n in tnames:
                continue
            if n in state:
                if v.kind == 'POISON' or not (v.pylist or v.kind in ('FS', 'NS')):
                    fail(s, 'loop state %s of kind %s' % (n, v.kind))
                lenv[n] = (Val(v.kind, 's%d' % (state.index(n) + 1), pylist=v.pylist, site=v.site, items=[] if v.kind == 'LL' else None,
                               fresh=True), q)
            elif v.kind in COQ_TYPES:
                lenv[n] = (Val(v.kind, '\x00%s\x00' % n, pylist=v.pylist, fresh=False), q)
            else:
                lenv[n] = (POISON, q) if v.kind == 'POISON' else (v, q)
        for k, (n, kind) in enumerate(targets):
            if n in RESERVED or CANON.match(n):
                fail(s, 'loop target %s' % n)
            lenv[n] = (Val(kind, 'i%d' % (k + 1)), 0)
        old, self.nolet = self.nolet, True
        try:
            bt = self.loop_body(list(s.body), lenv, state, 2)
        finally:
            self.nolet = old
        for n in state:
            if lenv[n][0].kind == 'LL' or env[n][0].kind == 'LL':
                fail(s, 'the element type of the list %s is never fixed' % n)
        caps = []
        for m in re.finditer('\x00([A-Za-z_0-9]+)\x00', bt):
            if m.group(1) not in caps:
                caps.append(m.group(1))
        for k, n in enumerate(caps):
            bt = bt.replace('(\x00%s\x00)' % n, 'c%d' % (k + 1)).replace('\x00%s\x00' % n, 'c%d' % (k + 1))
        self.nloops = getattr(self, 'nloops', 0) + 1
        step = '%s_loop%d_step' % (self.spec['gen'], self.nloops)
        sty = ' * '.join(COQ_TYPES[env[n][0].kind] for n in state)
        binders = ''.join(' (c%d : %s)' % (k + 1, COQ_TYPES[env[n][0].kind]) for k, n in enumerate(caps))
        head = []
        if len(state) > 1:
            binders += ' (st : %s)' % sty
            head.append("  let '(%s) := st in" % ', '.join('s%d' % (k + 1) for k in range(len(state))))
        else:
            binders += ' (s1 : %s)' % sty
        if len(targets) > 1:
            binders += ' (it : %s)' % item_ty
            head.append("  let '(i1, i2) := it in")
        else:
            binders += ' (i1 : %s)' % item_ty
        self.loops.append('(** the body of loop %d of %s: `for %s in %s(..)` *)\nDefinition %s%s : %s :=\n%s.\n' % (
            self.nloops, self.spec['func'], ', '.join('i%d' % (k + 1) for k in range(len(tnames))), it.func.id,
            step, binders, sty, '\n'.join(head + [bt])))
        init = ', '.join(env[n][0].term for n in state)
        fold = 'fold_left (%s%s) %s %s' % (step, ''.join(' ' + par(env[n][0].term) for n in caps), par(items),
                                           '(%s)' % init if len(state) > 1 else par(init))
        names = [self.fresh_name() for _ in state]
        if len(state) > 1:
            out.append(("let '(%s) := %s in" % (', '.join(names), fold), ''))
        else:
            out.append(('let %s := %s in' % (names[0], fold), ''))
        for n, t in zip(state, names):
            v = env[n][0]
            self.bind(env, n, Val(v.kind, t, pylist=v.pylist, fresh=True), s)
        for n in tnames + locs:
            self.seq += 1
            env[n] = (POISON, self.seq)

    def loop_body(self, stmts, lenv, state, ind):
        pad = ' ' * ind
        while stmts:
            s = stmts.pop(0)
            if isinstance(s, ast.Continue):
                break
            if isinstance(s, ast.If):
                c = self.truth(self.expr(s.test, lenv), s.test)
                if c.kind == 'POISON':
                    fail(s, 'test on a dead value')
                err = None
                try:
                    a = self.loop_body(list(s.body) + list(stmts), dict(lenv), state, ind + 2)
                except Unsupported as ex:      # the other path may still fix the element type of a list (Retry)
                    err = ex
                b = self.loop_body(list(s.orelse) + list(stmts), dict(lenv), state, ind + 2)
                if err is not None:
                    raise err
                return '%sif %s then\n%s\n%selse\n%s' % (pad, c.term, a, pad, b)
            if isinstance(s, ast.For):
                fail(s, 'nested loop')
            self.simple_stmt(s, lenv, None)
        for n in state:
            if lenv[n][0].kind == 'POISON':
                fail(None, 'loop state %s is dead' % n)
        t = ', '.join(lenv[n][0].term for n in state)
        return pad + ('(%s)' % t if len(state) > 1 else t)


# ---------------------------------------------------------------- one function
def translate_function(module, spec, table, gens):
    fn = module.func(spec['func'])
    names = [a.arg for a in fn.args.args]
    if names != [n for n, _ in spec['params']]:
        raise Unsupported('%s: parameters are %r, expected %r' % (spec['func'], names, [n for n, _ in spec['params']]))
    for _ in range(8):
        ctx = Ctx(module, spec, table, gens)
        ctx.nolet = False
        env = {}
        for n, k in spec['params']:
            if n in RESERVED or CANON.match(n) or n in module.funcs:
                raise Unsupported('parameter named %s' % n)
            ctx.seq += 1
            env[n] = (Val(k, n), ctx.seq)
        try:
            term = ctx.body(list(fn.body), env)
            break
        except Retry:
            continue
    else:
        raise Unsupported('%s: list element types do not settle' % spec['func'])
    ret = spec['ret']
    rty = '%s * %s' % (COQ_TYPES[ret[1]], COQ_TYPES[ret[2]]) if isinstance(ret, tuple) else COQ_TYPES[ret]
    if spec['opt']:
        rty = 'option (%s)' % rty
    sig = ' '.join('(%s : %s)' % (n, COQ_TYPES[k]) for n, k in spec['params'])
    consts = []
    defaults = dict(zip(names[len(names) - len(fn.args.defaults):], fn.args.defaults))
    for n, dflt in defaults.items():
        k = dict(spec['params'])[n]
        v = coerce(ctx.expr(dflt, {}), k, dflt)
        consts.append('Definition %s_default_%s : %s := %s.\n' % (spec['gen'], n, COQ_TYPES[k], v.term))
    pysig = ast.unparse(fn.args)
    return '%s(** %s: %s(%s) *)\nDefinition %s %s : %s :=\n%s.\n%s' % (
        ''.join(ctx.loops), PC, spec['func'], pysig, spec['gen'], sig, rty, term, ''.join(consts))


HEADER = '''(** GENERATED by translator/py2coq_c11.py from eqsig/fns/peaks_and_crossings.py -- do not edit; rewritten on every run.
    One definition per source function, generic over [NumOps T].  Array / pair assignments at function level are [let]s named by
    their position in evaluation order (t1, t2, ..); scalars and element-wise tests are substituted.  A `for` loop is
    [fold_left <step> <items> <initial state>]; in a step definition s1.. are the state variables (those the body assigns, in the
    order of their last assignment before the loop), i1.. the loop targets, c1.. the other variables the body reads.
    Readings (whitelist: the translator's docstring): a float array is a [list T], an index array a [list nat], np.ediff1d of an
    index array a [list Z]; `a > b` is emitted as [b <? a]; index subtraction is the truncated one of [nat]; v[k] is [nth k v 0];
    np.array(v, dtype=float) is v; [option] results: None = the function raises; a statement whose value depends on a loop
    variable after its loop and never reaches the returned value is dropped (dead store).  Primitives: lib/NpList.v, lib/NpPeaks.v,
    evens / odds / nsign / interp_pts of model/M_peaks.v, np_insert of model/M_cycles.v.
    proofs/P_gen_c11.v proves every definition equal to the hand transcription model/M_peaks_pipeline.v for all inputs. *)
From Coq Require Import String ZArith List Bool.
From EQ Require Import lib.Num lib.NpList lib.NpPeaks model.M_peaks model.M_cycles.
Import ListNotations.
Local Open Scope num_scope.

Section Generic.
Context {T : Type} `{NumOps T}.
'''


def translate_source(src):
    module = base.Module(PC, src)
    for n in ('len', 'abs', 'max', 'enumerate', 'range', 'float'):
        if not builtin_untouched(module, n):
            raise Unsupported('%s binds %s' % (PC, n))
    table, gens, defs = {}, {}, []
    for spec in SPECS:
        try:
            defs.append(translate_function(module, spec, table, gens))
            gens[spec['func']] = (spec, module.func(spec['func']))
        except Unsupported as e:
            raise Unsupported('%s:%s: %s' % (PC, spec['func'], e))
    return HEADER + '\n' + '\n'.join(defs) + 'End Generic.\n'


def regenerate(repo=None, out=None):
    """returns True iff the file was rewritten; raises Unsupported / OSError / SyntaxError (fail closed).
    On failure the committed copy is left as it is: the caller reports the broken tie."""
    repo = repo or os.environ.get('EQSIG_REPO', '/repo')
    out = out or OUT
    text = translate_source(open(os.path.join(repo, PC)).read())
    old = open(out).read() if os.path.exists(out) else None
    if old != text:
        os.makedirs(os.path.dirname(out), exist_ok=True)
        with open(out, 'w') as f:
            f.write(text)
        return True
    return False


def main():
    try:
        ch = regenerate(repo=sys.argv[1] if len(sys.argv) > 1 else None)
    except Exception as e:  # fail closed
        print('py2coq_c11: translation FAILED: %s: %s' % (type(e).__name__, e))
        return 1
    print('py2coq_c11: %s %s' % (os.path.relpath(OUT, VERIF), 'rewritten' if ch else 'unchanged'))
    return 0


if __name__ == '__main__':
    sys.exit(main())
