#!/venv/bin/python
"""Fail-closed translator: eqsig/design_spectra.py  ->  coq/gen/Gen_design_spectra.v   (property C20)

Each of c_h_factor / sd_nzs / t_eff becomes one Gallina definition `name (args) : option R` over Coq reals:
an `if/else` tree over the comparisons of the source whose leaves are `Some <closed expression>` (a `return`) or
`None` (a `raise`).  Local assignments are substituted into the expressions that use them, so a renamed temporary
or a re-ordered assignment gives the same text.

Supported (anything else aborts the translation = the tie is broken):
  statements : Assign to a plain name, If/elif/else, Raise, Return, `print(...)` expression statements (no effect
               on the result), docstrings;
  expressions: float/int literals (emitted as the exact decimal rational of their repr inside arithmetic, and as the
               exact binary64 value when they are an operand of a comparison), names, + - * /, unary -,
               `** <int literal>` -> x ^ n, `** <float literal>` -> Rpower x c, `np.pi` -> PI,
               comparisons < <= > >= == between numbers -> Rltb/Rleb/Reqb, `name == 'str'` -> String.eqb.
c_h_factor wraps its scalar kernel in an element loop; the wrapper statements must match WRAPPER_TEMPLATE exactly
(ast dump) and only the kernel (the if-tree inside the loop, with `c_h_values[i] = e` read as `return e`) is
translated; the harness checks scalar and list calls against the kernel point-wise.
"""
import ast, os, sys
from fractions import Fraction

HERE = os.path.dirname(os.path.abspath(__file__))
VERIF = os.path.dirname(HERE)
OUT = os.path.join(VERIF, 'coq', 'gen', 'Gen_design_spectra.v')
FUNCS = ['c_h_factor', 't_eff', 'sd_nzs']


class Unsupported(Exception):
    pass


def fail(node, msg):
    raise Unsupported('%s (line %s)' % (msg, getattr(node, 'lineno', '?')))


# ---------------------------------------------------------------- expressions
def lit(v, node=None):
    if isinstance(v, bool):
        fail(node, 'boolean literal')
    if isinstance(v, int):
        return '%d' % v if v >= 0 else '(%d)' % v
    if isinstance(v, float):
        fr = Fraction(repr(v))
        if float(fr) != v:
            fail(node, 'float literal %r does not round-trip' % v)
        if fr.denominator == 1:
            return '%d' % fr.numerator if fr >= 0 else '(%d)' % fr.numerator
        return '(%d / %d)' % (fr.numerator, fr.denominator)
    fail(node, 'literal %r' % (v,))


class Tr:
    def __init__(self, params, strparams):
        self.params = params
        self.strparams = strparams

    def num(self, e, env):
        if isinstance(e, ast.Constant):
            if isinstance(e.value, str):
                fail(e, 'string used as a number')
            return lit(e.value, e)
        if isinstance(e, ast.Name):
            if e.id in env:
                return env[e.id]
            if e.id in self.params and e.id not in self.strparams:
                return e.id
            fail(e, 'unknown name %s' % e.id)
        if isinstance(e, ast.Attribute):
            if isinstance(e.value, ast.Name) and e.value.id in ('np', 'numpy', 'math') and e.attr == 'pi':
                return 'PI'
            fail(e, 'attribute')
        if isinstance(e, ast.UnaryOp):
            if isinstance(e.op, ast.USub):
                return '(- %s)' % self.num(e.operand, env)
            if isinstance(e.op, ast.UAdd):
                return self.num(e.operand, env)
            fail(e, 'unary operator')
        if isinstance(e, ast.BinOp):
            if isinstance(e.op, ast.Pow):
                base = self.num(e.left, env)
                ex = e.right
                if isinstance(ex, ast.Constant) and isinstance(ex.value, int) and not isinstance(ex.value, bool) and 0 <= ex.value <= 16:
                    return '(%s ^ %d)' % (base, ex.value)
                if isinstance(ex, ast.Constant) and isinstance(ex.value, float):
                    if ex.value == int(ex.value) and 0 <= ex.value <= 16:
                        return '(%s ^ %d)' % (base, int(ex.value))
                    return '(Rpower %s %s)' % (base, lit(ex.value, ex))
                fail(e, 'exponent is not a literal')
            ops = {ast.Add: '+', ast.Sub: '-', ast.Mult: '*', ast.Div: '/'}
            for k, s in ops.items():
                if isinstance(e.op, k):
                    return '(%s %s %s)' % (self.num(e.left, env), s, self.num(e.right, env))
            fail(e, 'binary operator %s' % type(e.op).__name__)
        fail(e, 'expression %s' % type(e).__name__)

    def cmp_operand(self, e, env):
        """a float literal that is an operand of a comparison is emitted as the exact binary64 value (the branch taken
        at t = float(0.3) depends on it); literals inside arithmetic are read as their decimal text"""
        if isinstance(e, ast.Constant) and isinstance(e.value, float):
            fr = Fraction(*e.value.as_integer_ratio())
            if fr.denominator == 1:
                return lit(int(fr.numerator), e)
            return '(%d / %d)' % (fr.numerator, fr.denominator)
        return self.num(e, env)

    def cond(self, e, env):
        if isinstance(e, ast.BoolOp):
            op = '&&' if isinstance(e.op, ast.And) else '||'
            return '(' + (' %s ' % op).join(self.cond(v, env) for v in e.values) + ')'
        if isinstance(e, ast.UnaryOp) and isinstance(e.op, ast.Not):
            return '(negb %s)' % self.cond(e.operand, env)
        if not isinstance(e, ast.Compare) or len(e.ops) != 1:
            fail(e, 'condition')
        a, b, op = e.left, e.comparators[0], e.ops[0]
        # string comparison: param == 'C'
        for x, y in ((a, b), (b, a)):
            if isinstance(x, ast.Name) and x.id in self.strparams and x.id not in env and isinstance(y, ast.Constant) and isinstance(y.value, str):
                if not y.value.isalnum():
                    fail(e, 'string literal')
                if isinstance(op, ast.Eq):
                    return '(String.eqb %s "%s")' % (x.id, y.value)
                if isinstance(op, ast.NotEq):
                    return '(negb (String.eqb %s "%s"))' % (x.id, y.value)
                fail(e, 'string comparison')
        x, y = self.cmp_operand(a, env), self.cmp_operand(b, env)
        if isinstance(op, ast.Lt):
            return '(Rltb %s %s)' % (x, y)
        if isinstance(op, ast.Gt):
            return '(Rltb %s %s)' % (y, x)
        if isinstance(op, ast.LtE):
            return '(Rleb %s %s)' % (x, y)
        if isinstance(op, ast.GtE):
            return '(Rleb %s %s)' % (y, x)
        if isinstance(op, ast.Eq):
            return '(Reqb %s %s)' % (x, y)
        if isinstance(op, ast.NotEq):
            return '(negb (Reqb %s %s))' % (x, y)
        fail(e, 'comparison operator')

    # ------------------------------------------------------------ statements -> decision tree
    def block(self, stmts, env, ret_subscript=None, depth=0):
        """returns a tree: ('if', c, t, f) | ('ret', expr) | ('raise',) ; falling off the end is unsupported"""
        if depth > 60:
            fail(stmts[0] if stmts else None, 'nesting too deep')
        if not stmts:
            raise Unsupported('control reaches the end of the function without return/raise')
        s, rest = stmts[0], stmts[1:]
        if isinstance(s, ast.Expr):
            v = s.value
            if isinstance(v, ast.Constant) and isinstance(v.value, str):
                return self.block(rest, env, ret_subscript, depth)          # docstring
            if isinstance(v, ast.Call) and isinstance(v.func, ast.Name) and v.func.id == 'print':
                return self.block(rest, env, ret_subscript, depth)          # no effect on the result
            fail(s, 'expression statement')
        if isinstance(s, ast.Assign):
            if len(s.targets) != 1:
                fail(s, 'multiple assignment')
            t = s.targets[0]
            if isinstance(t, ast.Name):
                if t.id in self.strparams:
                    fail(s, 'assignment to a string parameter')
                env2 = dict(env)
                env2[t.id] = self.num(s.value, env)
                return self.block(rest, env2, ret_subscript, depth)
            if ret_subscript and isinstance(t, ast.Subscript) and ast.dump(t) == ret_subscript:
                return ('ret', self.num(s.value, env))                      # kernel result of the element loop
            fail(s, 'assignment target')
        if isinstance(s, ast.If):
            c = self.cond(s.test, env)
            return ('if', c, self.block(list(s.body) + rest, env, ret_subscript, depth + 1),
                    self.block(list(s.orelse) + rest, env, ret_subscript, depth + 1))
        if isinstance(s, ast.Raise):
            return ('raise',)
        if isinstance(s, ast.Return):
            if s.value is None:
                fail(s, 'bare return')
            return ('ret', self.num(s.value, env))
        fail(s, 'statement %s' % type(s).__name__)


def render(tree, ind=2):
    sp = ' ' * ind
    if tree[0] == 'ret':
        return sp + 'Some %s' % tree[1]
    if tree[0] == 'raise':
        return sp + 'None'
    _, c, t, f = tree
    return '%sif %s then\n%s\n%selse\n%s' % (sp, c, render(t, ind + 2), sp, render(f, ind + 2))


def string_params(fn):
    """parameters that are compared with a string literal somewhere in the function"""
    names = {a.arg for a in fn.args.args}
    out = set()
    for n in ast.walk(fn):
        if isinstance(n, ast.Compare) and len(n.ops) == 1:
            for x, y in ((n.left, n.comparators[0]), (n.comparators[0], n.left)):
                if isinstance(x, ast.Name) and x.id in names and isinstance(y, ast.Constant) and isinstance(y.value, str):
                    out.add(x.id)
    return out


# the element-loop wrapper of c_h_factor (everything except the kernel if-tree), as ast dumps
WRAPPER_SRC = '''
def c_h_factor(period, site_class="C"):
    single = 0
    if isinstance(period, float):
        single = 1
        period = [period]
    c_h_values = np.zeros(len(period))
    for i in range(len(period)):
        tt = period[i]
        KERNEL
        if single:
            c_h_values = c_h_values[0]
    return c_h_values
'''


def _dump(n):
    return ast.dump(n, annotate_fields=True, include_attributes=False)


def translate_c_h_factor(fn):
    tmpl = ast.parse(WRAPPER_SRC.replace('KERNEL', 'pass')).body[0]
    body = [s for s in fn.body if not (isinstance(s, ast.Expr) and isinstance(s.value, ast.Constant) and isinstance(s.value.value, str))]
    tb = tmpl.body
    if _dump(fn.args) != _dump(tmpl.args):
        fail(fn, 'c_h_factor: signature differs from the expected wrapper')
    if len(body) != len(tb):
        fail(fn, 'c_h_factor: wrapper has %d statements, expected %d' % (len(body), len(tb)))
    for k, (a, b) in enumerate(zip(body, tb)):
        if isinstance(b, ast.For):
            if not isinstance(a, ast.For) or _dump(a.target) != _dump(b.target) or _dump(a.iter) != _dump(b.iter) or a.orelse:
                fail(a, 'c_h_factor: element loop header differs')
            if len(a.body) != 3 or _dump(a.body[0]) != _dump(b.body[0]) or _dump(a.body[2]) != _dump(b.body[2]):
                fail(a, 'c_h_factor: element loop body differs from `tt = period[i]; <kernel>; if single: ...`')
            kernel = a.body[1]
        elif _dump(a) != _dump(b):
            fail(a, 'c_h_factor: wrapper statement %d differs' % k)
    tr = Tr(params={'tt', 'site_class'}, strparams={'site_class'})
    sub = _dump(ast.parse('c_h_values[i] = 0').body[0].targets[0])
    # after the kernel the only way on is the accumulator store; falling through is unsupported
    tree = tr.block([kernel], {}, ret_subscript=sub)
    return 'Definition c_h_factor (tt : R) (site_class : string) : option R :=\n%s.\n' % render(tree)


def translate_plain(fn):
    args = [a.arg for a in fn.args.args]
    if fn.args.vararg or fn.args.kwarg or fn.args.kwonlyargs or fn.args.defaults:
        fail(fn, '%s: unsupported signature' % fn.name)
    sp = string_params(fn)
    tr = Tr(params=set(args), strparams=sp)
    tree = tr.block(list(fn.body), {})
    binder = ' '.join('(%s : %s)' % (a, 'string' if a in sp else 'R') for a in args)
    return 'Definition %s %s : option R :=\n%s.\n' % (fn.name, binder, render(tree))


def translate_source(src):
    mod = ast.parse(src)
    fns = {n.name: n for n in mod.body if isinstance(n, ast.FunctionDef)}
    for f in FUNCS:
        if f not in fns:
            raise Unsupported('function %s not found' % f)
    out = ['(** GENERATED by translator/py2coq_design.py from eqsig/design_spectra.py -- do not edit; rewritten on every run. *)',
           'From Coq Require Import Reals String.', 'From EQ Require Import lib.Num.', 'Local Open Scope R_scope.', '']
    out.append(translate_c_h_factor(fns['c_h_factor']))
    out.append(translate_plain(fns['t_eff']))
    out.append(translate_plain(fns['sd_nzs']))
    return '\n'.join(out)


def regenerate(repo=None, out=OUT):
    """returns (changed, None) or raises Unsupported / OSError; the file is rewritten only when its text changes"""
    repo = repo or os.environ.get('EQSIG_REPO', '/repo')
    src = open(os.path.join(repo, 'eqsig', 'design_spectra.py')).read()
    text = translate_source(src)
    old = open(out).read() if os.path.exists(out) else None
    if old != text:
        os.makedirs(os.path.dirname(out), exist_ok=True)
        with open(out, 'w') as f:
            f.write(text)
        return True
    return False


def main():
    try:
        ch = regenerate()
    except Exception as e:  # fail closed
        print('py2coq_design: translation FAILED: %s' % e)
        return 1
    print('py2coq_design: %s %s' % (os.path.relpath(OUT, VERIF), 'rewritten' if ch else 'unchanged'))
    return 0


if __name__ == '__main__':
    sys.exit(main())
