#!/venv/bin/python
"""Runs every source-to-Coq translator of the framework (called by harness/setup.sh and usable by hand).
Add a translator by appending (name, module, function) to TRANSLATORS; each function regenerates its coq/gen file
from the sources under $EQSIG_REPO (default /repo), rewrites it only when the text changes, and raises on failure."""
import importlib, os, sys
sys.path.insert(0, os.path.dirname(os.path.abspath(__file__)))

TRANSLATORS = [
    ('sdof_coeffs', 'py2coq_scalar', 'regenerate'),
    ('sdof_loop', 'py2coq_sdof_loop', 'regenerate'),
    ('c03_spectra', 'py2coq_c03', 'regenerate'),
    ('quadrature', 'py2coq_numpy', 'regenerate'),
    ('cavdp', 'py2coq_cavdp', 'regenerate'),
    ('durations', 'py2coq_durations', 'regenerate'),
    ('design_spectra', 'py2coq_design', 'regenerate'),
    ('effects_ir', 'py2ir_effects', 'regenerate'),
    ('cache_events', 'py2coq_cache_events', 'regenerate'),
    ('c13', 'py2coq_c13', 'regenerate'),
    ('c17_signalops', 'py2coq_c17', 'regenerate'),
    ('c17_remove_poly', 'py2coq_rmpoly', 'regenerate'),
    ('c06_fourier', 'py2coq_c06', 'regenerate'),
    ('c06b_moments', 'py2coq_c06b', 'regenerate'),
    ('helpers', 'py2coq_helpers', 'regenerate'),
    ('c20_interp2d', 'py2coq_interp2d', 'regenerate'),
    ('c07_smoothing', 'py2coq_c07', 'regenerate'),
    ('c15_stockwell', 'py2coq_c15', 'regenerate'),
    ('c19_surface', 'py2coq_c19', 'regenerate'),
    ('c14_timestep', 'py2coq_c14', 'regenerate'),
    ('c18_multiple', 'py2coq_c18', 'regenerate'),
    ('c16_loader', 'py2coq_c16', 'regenerate'),
    ('c03_object_layer', 'py2coq_objlayer', 'regenerate_c03'),
    ('c08_object_layer', 'py2coq_objlayer', 'regenerate_c08'),
    ('c07_object_layer', 'py2coq_objlayer', 'regenerate_c07'),
    ('c11_peaks', 'py2coq_c11', 'regenerate'),
]


def main():
    rc = 0
    for name, mod, fn in TRANSLATORS:
        try:
            changed = getattr(importlib.import_module(mod), fn)()
            print('regen %s: %s' % (name, 'rewritten' if changed else 'unchanged'))
        except Exception as e:  # fail closed: report, keep going with the other translators
            print('regen %s: FAILED: %s' % (name, e))
            rc = 1
    return rc


if __name__ == '__main__':
    sys.exit(main())
