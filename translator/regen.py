#!/venv/bin/python
"""Re-run every source translator against /repo (or $EQSIG_REPO); called by harness/setup.sh and available by hand.
Each check also re-runs the translator it depends on at the start of its own run."""
import os, sys, importlib
HERE = os.path.dirname(os.path.abspath(__file__))
sys.path.insert(0, HERE)
REPO = os.environ.get('EQSIG_REPO', '/repo')
COQ = os.path.join(os.path.dirname(HERE), 'coq')
# (module, callable name, destination file)
TRANSLATORS = [
    ('py2coq_scalar', 'generate', os.path.join(COQ, 'gen', 'Gen_sdof_coeffs.v')),
]
rc = 0
for mod, fn, dest in TRANSLATORS:
    try:
        getattr(importlib.import_module(mod), fn)(REPO, dest)
        print('%s: %s up to date' % (mod, os.path.relpath(dest, COQ)))
    except Exception as e:  # noqa
        print('%s FAILED: %s: %s' % (mod, type(e).__name__, e))
        rc = 1
sys.exit(rc)
