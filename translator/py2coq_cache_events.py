#!/venv/bin/python
"""py2coq_cache_events — fail-closed translator: the caching behaviour of every method and property of
eqsig/single.py's Signal and AccSignal -> coq/gen/Gen_cache_events.v (vocabulary: coq/model/M_cache_events.v).

For each operation of the alphabet of coq/model/M_cache.v (the `kop` of model/K_C04.v: 21 reads, 10 argument-less
methods, 16 mutator forms, 6 smoothing-frequency changes, 4 response-period changes) and for each class (AccSignal:
7 validity flags / memo keys, 128 flag states; Signal: 2 flags, 4 states) the method body is interpreted abstractly
*from every flag state*:

  * the validity flags (`_cached_fa`, `_cached_smooth_fa`, `_cached_response_spectra`, `_cached_disp_and_velo`) and the
    memo keys of `_cached_params` are concrete booleans: `if not self._cached_x`, `if "pga" in self._cached_params`
    are decided; `x is None`, `x == constant` are decided from the call form of the operation (which keyword
    arguments are given); every other condition is unknown: both branches are interpreted and joined; branches that
    raise are dropped (calls that raise are outside the alphabet);
  * calls `self.m(..)`, property reads `self.p`, property writes `self.p = ..` and `super(..).m(..)` are inlined
    along the MRO of the *object's* class, exactly as Python resolves them (Signal.reset_values calling
    self.clear_cache() on an AccSignal runs AccSignal.clear_cache, which does not call the base method);
  * every other value is a set of provenance tags (which stored attributes it was computed from) plus "is the
    self._values buffer" (to see in-place writes through an alias: `vals = self.values; vals[si:ei] -= d`).

From the 128 (4) runs the per-flag effect is classified (Untouched / Cleared / SetAlways / SetIfWasClear /
SetIfWasClearUnder g / ClearedAfterLazyFill; anything else: the translator refuses), together with: values / _npts /
smoothing frequencies / response periods rewritten, the cached quantities flowing into the new values, what the
returned value is made of, and - once per class - the recipe of every derived quantity (what it is recomputed from;
it must be the same at every place where it is recomputed).

Methods outside the model's alphabet are summarised as well (`*_unmodelled`, they must be cache-neutral: checked in
Coq) or listed as `excluded` with the reason (the object escapes to a function of another module).
The constructors are interpreted from the class-level defaults and must end with every flag clear.

Trusted here: the attribute tables below (which attribute is which flag / storage slot / source), Python name
resolution as implemented here, and that functions of other modules called with *parts* of the object (arrays, numbers)
do not write into them except the NumPy `out=`/copyto family (same table as translator/py2ir_effects.py; writes through
aliases are the subject of C05).  Anything not understood raises Unsupported: the tie is then broken (fails closed).
"""
import ast, builtins, os, sys

sys.path.insert(0, os.path.dirname(os.path.abspath(__file__)))
from py2ir_effects import NP as NP_TABLE, write_if_changed  # noqa: E402  (classification of numpy calls: 'put', 'view')


class Unsupported(Exception):
    pass


class Dead(Exception):
    """the current path raises"""


DQ = ['Fa', 'Sm', 'Resp', 'DV', 'Pga', 'Pgv', 'Pgd']
FLAG_ATTR = {'_cached_fa': 'Fa', '_cached_smooth_fa': 'Sm', '_cached_response_spectra': 'Resp', '_cached_disp_and_velo': 'DV'}
MEMO_ATTR = '_cached_params'
MEMO_KEYS = {'pga': 'Pga', 'pgv': 'Pgv', 'pgd': 'Pgd'}
SLOT_ATTR = {'_fa_spectrum': 'Fa', '_fa_freqs': 'Fa', '_smooth_fa_spectrum': 'Sm', '_s_a': 'Resp', '_s_v': 'Resp', '_s_d': 'Resp',
             '_velocity': 'DV', '_displacement': 'DV'}
SRC_ATTR = {'_values': 'Values', '_npts': 'Npts', '_smooth_fa_freqs': 'SF', '_response_times': 'RT'}
CONFIG_ATTR = {'_dt', '_cached_xi', 'verbose', 'label', 'ccbox'}      # set by __init__ only (checked)
CLASS_DQ = {'Signal': ['Fa', 'Sm'], 'AccSignal': DQ}
INPUT_ORDER = ['Values', 'Npts', 'SF', 'RT'] + DQ
INPLACE_METHODS = {'sort', 'fill', 'put', 'resize', 'itemset', 'setfield', 'partition', 'setflags', 'byteswap'}
VIEW_METHODS = {'reshape', 'ravel', 'view', 'squeeze', 'transpose', 'swapaxes', 'diagonal'}
VIEW_ATTRS = {'T', 'real', 'imag', 'flat'}
UNK = ('unk',)
NOTNONE = ('notnone',)


def slot(d):
    return 'slot:' + d


class AV:
    """abstract value"""
    __slots__ = ('prov', 'const', 'alias', 'kind')

    def __init__(self, prov=frozenset(), const=UNK, alias=frozenset(), kind=None):
        self.prov, self.const, self.alias, self.kind = frozenset(prov), const, frozenset(alias), kind

    def key(self):
        return (self.prov, repr(self.const), self.alias, self.kind)


def join_av(a, b):
    if a.kind != b.kind:
        raise Unsupported('join of different kinds of value (%s / %s)' % (a.kind, b.kind))
    c = a.const if repr(a.const) == repr(b.const) else (NOTNONE if is_notnone(a) and is_notnone(b) else UNK)
    return AV(a.prov | b.prov, c, a.alias | b.alias, a.kind)


def is_notnone(v):
    return v.const is NOTNONE or (v.const is not UNK and v.const is not None)


class St:
    """abstract object state along one path"""

    def __init__(self, flags):
        self.flags = dict(flags)      # dq -> True / False / '?'
        self.wattr = {}               # storage / source attribute -> provenance of what was stored
        self.wmemo = {}               # memo dq -> provenance
        self.maybe = set()            # written on some joined path only
        self.vmode = set()            # 'assign' / 'inplace'
        self.calls = []               # inlined methods, in order of first call
        self.other = set()            # other attributes written
        self.params_reset = False

    def copy(self):
        s = St(self.flags)
        s.wattr, s.wmemo, s.maybe, s.vmode = dict(self.wattr), dict(self.wmemo), set(self.maybe), set(self.vmode)
        s.calls, s.other, s.params_reset = list(self.calls), set(self.other), self.params_reset
        return s

    def key(self):
        return (tuple(sorted(self.flags.items())), tuple(sorted(self.wattr.items())), tuple(sorted(self.wmemo.items())),
                tuple(sorted(self.maybe)), tuple(sorted(self.vmode)), tuple(self.calls), tuple(sorted(self.other)), self.params_reset)


def join_st(a, b):
    s = St({})
    for d in a.flags:
        s.flags[d] = a.flags[d] if a.flags[d] == b.flags[d] else '?'
    for tab in ('wattr', 'wmemo'):
        ta, tb, out = getattr(a, tab), getattr(b, tab), {}
        for k in set(ta) | set(tb):
            out[k] = ta.get(k, frozenset()) | tb.get(k, frozenset())
            if (k in ta) != (k in tb):
                s.maybe.add(k)
        setattr(s, tab, out)
    s.maybe |= a.maybe | b.maybe
    s.vmode = a.vmode | b.vmode
    s.calls = list(a.calls) + [c for c in b.calls if c not in a.calls]
    s.other = a.other | b.other
    s.params_reset = a.params_reset or b.params_reset
    if a.params_reset != b.params_reset:
        s.maybe.add('_cached_params')
    return s


def join_env(e1, e2):
    out = {}
    for k in set(e1) | set(e2):
        if k in e1 and k in e2:
            out[k] = join_av(e1[k], e2[k])
        else:
            v = e1.get(k) or e2.get(k)
            out[k] = AV(v.prov, UNK, v.alias, v.kind)
    return out


class Frame:
    def __init__(self, defcls, name):
        self.defcls, self.name = defcls, name
        self.env = {}
        self.returns = []     # (St, AV)


# ------------------------------------------------------------------------------------------------ class tables
class Classes:
    def __init__(self, repo):
        path = os.path.join(repo, 'eqsig', 'single.py')
        self.path = path
        tree = ast.parse(open(path).read(), filename=path)
        self.modnames = set(dir(builtins))
        self.cls = {}
        for node in tree.body:
            if isinstance(node, ast.Import):
                for a in node.names:
                    self.modnames.add(a.asname or a.name.split('.')[0])
            elif isinstance(node, ast.ImportFrom):
                for a in node.names:
                    self.modnames.add(a.asname or a.name)
            elif isinstance(node, ast.ClassDef):
                self.modnames.add(node.name)
                self.cls[node.name] = node
            elif isinstance(node, ast.FunctionDef):
                self.modnames.add(node.name)
        for c in ('Signal', 'AccSignal'):
            if c not in self.cls:
                raise Unsupported('class %s not found in eqsig/single.py' % c)
        self.methods, self.getters, self.setters, self.bases, self.classattr = {}, {}, {}, {}, {}
        for cname, cd in self.cls.items():
            ms, gs, ss, ca = {}, {}, {}, {}
            for node in cd.body:
                if isinstance(node, ast.FunctionDef):
                    decs = [ast.unparse(d) for d in node.decorator_list]
                    if decs == ['property']:
                        gs[node.name] = node
                    elif len(decs) == 1 and decs[0].endswith('.setter'):
                        if decs[0] != node.name + '.setter':
                            raise Unsupported('setter %s decorated %s' % (node.name, decs[0]))
                        ss[node.name] = node
                    elif decs:
                        raise Unsupported('decorator %s on %s.%s' % (decs, cname, node.name))
                    else:
                        ms[node.name] = node
                elif isinstance(node, ast.Assign):
                    for t in node.targets:
                        if not isinstance(t, ast.Name):
                            raise Unsupported('class-level assignment target in %s' % cname)
                        ca[t.id] = node.value
                elif isinstance(node, ast.Expr) and isinstance(node.value, ast.Constant):
                    pass
                elif isinstance(node, ast.Pass):
                    pass
                else:
                    raise Unsupported('%s in the body of class %s' % (type(node).__name__, cname))
            bases = [ast.unparse(b) for b in cd.bases if ast.unparse(b) != 'object']
            if len(bases) > 1:
                raise Unsupported('multiple inheritance in %s' % cname)
            for b in bases:
                if b not in self.cls:
                    raise Unsupported('base class %s of %s is not defined in eqsig/single.py' % (b, cname))
            if cd.keywords:
                raise Unsupported('class keywords on %s' % cname)
            self.methods[cname], self.getters[cname], self.setters[cname], self.bases[cname], self.classattr[cname] = ms, gs, ss, bases, ca
        if self.mro('AccSignal') != ['AccSignal', 'Signal'] or self.mro('Signal') != ['Signal']:
            raise Unsupported('unexpected class hierarchy %r' % self.mro('AccSignal'))

    def mro(self, cname):      # single inheritance: the linearisation is the chain of bases
        out = [cname]
        for b in self.bases[cname]:
            out += self.mro(b)
        return out

    def find(self, table, cname, name, after=None):
        chain = self.mro(cname)
        if after is not None:
            if after not in chain:
                raise Unsupported('super(%s, self) on an object of class %s' % (after, cname))
            chain = chain[chain.index(after) + 1:]
        for c in chain:
            if name in table[c]:
                return c, table[c][name]
        return None, None

    def has_name(self, cname, name):
        return any(name in t[c] for c in self.mro(cname) for t in (self.methods, self.getters, self.setters))


# ------------------------------------------------------------------------------------------------ interpreter
class Interp:
    def __init__(self, K, cname, flags, ctor=False):
        self.K, self.cname, self.ctor = K, cname, ctor
        self.st = St(flags)
        self.depth = 0
        self.defined = None   # ctor mode: set of attributes that exist so far

    # -- helpers
    def need_dq(self, d, what):
        if d not in self.st.flags:
            raise Unsupported('%s: a %s object has no %s' % (what, self.cname, d))

    def inplace(self, alias, prov, where):
        for tag in alias:
            if tag != 'Values':
                raise Unsupported('in-place write into the buffer of %s (%s)' % (tag, where))
            self.st.wattr['_values'] = self.st.wattr.get('_values', frozenset(['Values'])) | prov
            self.st.vmode.add('inplace')

    # -- expressions
    def ev(self, e, fr):
        m = getattr(self, 'ev_' + type(e).__name__, None)
        if m is None:
            raise Unsupported('expression %s (%s.%s line %d)' % (type(e).__name__, fr.defcls, fr.name, getattr(e, 'lineno', 0)))
        return m(e, fr)

    def union(self, es, fr):
        p, a = frozenset(), frozenset()
        vs = []
        for x in es:
            if x is None:
                continue
            v = self.ev(x, fr)
            if v.kind in ('self', 'params', 'method'):
                raise Unsupported('the object / its memo dict / a bound method used as a plain value (%s.%s line %d)' % (fr.defcls, fr.name, x.lineno))
            vs.append(v)
            p |= v.prov
        return p, vs

    def ev_Constant(self, e, fr):
        return AV(const=e.value)

    def ev_Name(self, e, fr):
        if e.id in fr.env:
            return fr.env[e.id]
        if e.id in self.K.modnames:
            return AV(const=NOTNONE if e.id not in ('None',) else None)
        raise Unsupported('unbound name %s (%s.%s line %d)' % (e.id, fr.defcls, fr.name, e.lineno))

    def is_self(self, e, fr):
        return isinstance(e, ast.Name) and e.id in fr.env and fr.env[e.id].kind == 'self'

    def ev_Attribute(self, e, fr):
        if self.is_self(e.value, fr):
            return self.self_load(e.attr, fr, e)
        v = self.ev(e.value, fr)
        if v.kind in ('self', 'params', 'method'):
            raise Unsupported('attribute %s of %s value (%s.%s line %d)' % (e.attr, v.kind, fr.defcls, fr.name, e.lineno))
        return AV(v.prov, UNK, v.alias if e.attr in VIEW_ATTRS else frozenset())

    def ev_Subscript(self, e, fr):
        v = self.ev(e.value, fr)
        if v.kind == 'params':
            d = self.memo_key(e.slice, fr)
            if self.st.flags[d] == '?':
                raise Unsupported('memo entry %s read while it is not known whether it exists' % d)
            if self.st.flags[d] is not True:
                raise Dead()          # KeyError
            return AV([slot(d)])
        if v.kind is not None and v.kind != 'emptydict':
            raise Unsupported('subscript of %s value' % v.kind)
        i = self.ev(e.slice, fr)
        return AV(v.prov | i.prov, UNK, v.alias)

    def memo_key(self, node, fr):
        k = self.ev(node, fr)
        if not isinstance(k.const, str) or k.const not in MEMO_KEYS:
            raise Unsupported('_cached_params used with a key that is not one of %r (%s.%s line %d)' % (sorted(MEMO_KEYS), fr.defcls, fr.name, node.lineno))
        d = MEMO_KEYS[k.const]
        self.need_dq(d, 'memo key')
        return d

    def ev_Slice(self, e, fr):
        p, _ = self.union([e.lower, e.upper, e.step], fr)
        return AV(p)

    def ev_Tuple(self, e, fr):
        p, vs = self.union(e.elts, fr)
        al = frozenset().union(*[v.alias for v in vs]) if vs else frozenset()
        c = tuple(v.const for v in vs) if all(v.const is not UNK and v.const is not NOTNONE for v in vs) else NOTNONE
        return AV(p, c, al)
    ev_List = ev_Tuple

    def ev_Dict(self, e, fr):
        if not e.keys:
            return AV(const=NOTNONE, kind='emptydict')
        p, _ = self.union([k for k in e.keys if k is not None] + list(e.values), fr)
        return AV(p, NOTNONE)

    def ev_BinOp(self, e, fr):
        p, vs = self.union([e.left, e.right], fr)
        return AV(p, NOTNONE)

    def ev_UnaryOp(self, e, fr):
        v = self.ev(e.operand, fr)
        if isinstance(e.op, ast.Not):
            if isinstance(v.const, bool):
                return AV(v.prov, not v.const)
            if v.const is None:
                return AV(v.prov, True)
            return AV(v.prov, UNK)
        if isinstance(e.op, ast.USub) and isinstance(v.const, (int, float)) and not isinstance(v.const, bool):
            return AV(v.prov, -v.const)
        if v.kind is not None:
            raise Unsupported('unary operator on %s value' % v.kind)
        return AV(v.prov, NOTNONE)

    def ev_BoolOp(self, e, fr):
        p = frozenset()
        undecided = False
        is_and = isinstance(e.op, ast.And)
        for x in e.values:
            before = self.st.key()
            v = self.ev(x, fr)
            if undecided and self.st.key() != before:
                raise Unsupported('operand with cache effects after an undecided operand of and/or (%s.%s line %d)' % (fr.defcls, fr.name, e.lineno))
            p |= v.prov
            if isinstance(v.const, bool) or v.const is None:
                t = bool(v.const)
                if t != is_and:          # decides the whole expression (short circuit)
                    if not undecided:
                        return AV(p, t)
                    return AV(p, UNK)
            else:
                undecided = True
        return AV(p, UNK if undecided else is_and)

    def ev_Compare(self, e, fr):
        if len(e.ops) == 1:
            op, l, r = e.ops[0], e.left, e.comparators[0]
            if isinstance(op, (ast.In, ast.NotIn)):
                rv = self.ev(r, fr)
                if rv.kind == 'params':
                    d = self.memo_key(l, fr)
                    f = self.st.flags[d]
                    if f == '?':
                        return AV(const=UNK)
                    return AV(const=(f if isinstance(op, ast.In) else not f))
                lv = self.ev(l, fr)
                if lv.kind is not None or rv.kind is not None:
                    raise Unsupported('membership test on %s' % (lv.kind or rv.kind))
                return AV(lv.prov | rv.prov, UNK)
            lv, rv = self.ev(l, fr), self.ev(r, fr)
            for v in (lv, rv):
                if v.kind in ('self', 'params', 'method'):
                    raise Unsupported('comparison of %s value' % v.kind)
            p = lv.prov | rv.prov
            if isinstance(op, (ast.Is, ast.IsNot)):
                for a, b in ((lv, rv), (rv, lv)):
                    if b.const is None:
                        if a.const is None:
                            return AV(p, isinstance(op, ast.Is))
                        if is_notnone(a):
                            return AV(p, isinstance(op, ast.IsNot))
                return AV(p, UNK)
            if isinstance(op, (ast.Eq, ast.NotEq)):
                ok = lambda v: v.const is not UNK and v.const is not NOTNONE and isinstance(v.const, (str, int, float, bool, type(None)))  # noqa: E731
                if ok(lv) and ok(rv):
                    return AV(p, (lv.const == rv.const) == isinstance(op, ast.Eq))
            return AV(p, UNK)
        p, _ = self.union([e.left] + list(e.comparators), fr)
        return AV(p, UNK)

    def ev_IfExp(self, e, fr):
        c = self.ev(e.test, fr)
        if isinstance(c.const, bool) or c.const is None:
            v = self.ev(e.body if c.const else e.orelse, fr)
            return AV(v.prov | c.prov, v.const, v.alias, v.kind)
        before = self.st.key()
        a, b = self.ev(e.body, fr), self.ev(e.orelse, fr)
        if self.st.key() != before:
            raise Unsupported('conditional expression with cache effects (%s.%s line %d)' % (fr.defcls, fr.name, e.lineno))
        v = join_av(a, b)
        return AV(v.prov | c.prov, v.const, v.alias, v.kind)

    def ev_JoinedStr(self, e, fr):
        p, _ = self.union([x.value for x in e.values if isinstance(x, ast.FormattedValue)], fr)
        return AV(p, NOTNONE)

    def ev_Call(self, e, fr):
        return self.call(e, fr)

    # -- attribute access on the object
    def exists(self, attr, where):
        if self.defined is not None and attr not in self.defined:
            raise Unsupported('%s reads self.%s before __init__ has set it' % (where, attr))

    def self_load(self, attr, fr, node):
        K, c = self.K, self.cname
        where = '%s.%s line %d' % (fr.defcls, fr.name, node.lineno)
        gc, g = K.find(K.getters, c, attr)
        mc, m = K.find(K.methods, c, attr)
        if g is not None and (m is None or K.mro(c).index(gc) <= K.mro(c).index(mc)):
            return self.inline(gc, g, [], {}, where)
        if m is not None:
            return AV(const=NOTNONE, kind='method')
        if attr in FLAG_ATTR:
            d = FLAG_ATTR[attr]
            self.need_dq(d, where)
            self.exists(attr, where)
            f = self.st.flags[d]
            return AV(const=UNK if f == '?' else f)
        if attr == MEMO_ATTR:
            self.need_dq('Pga', where)
            self.exists(attr, where)
            return AV(const=NOTNONE, kind='params')
        if attr in SLOT_ATTR:
            d = SLOT_ATTR[attr]
            self.need_dq(d, where)
            self.exists(attr, where)
            return AV([slot(d)], NOTNONE if self.defined is None else UNK, [slot(d)])
        if attr in SRC_ATTR:
            if attr == '_response_times':
                self.need_dq('Resp', where)
            self.exists(attr, where)
            return AV([SRC_ATTR[attr]], NOTNONE if self.defined is None else UNK, [SRC_ATTR[attr]] if attr != '_npts' else [])
        if attr in CONFIG_ATTR:
            self.exists(attr, where)
            return AV()
        self.exists(attr, where)
        return AV(['attr:' + attr])

    def self_store(self, attr, v, fr, node, aug=False, rhs=None):
        K, c = self.K, self.cname
        where = '%s.%s line %d' % (fr.defcls, fr.name, node.lineno)
        sc, s = K.find(K.setters, c, attr)
        if s is not None:
            self.inline(sc, s, [v], {}, where)
            return
        if K.find(K.getters, c, attr)[1] is not None:
            raise Unsupported('%s assigns to the read-only property %s' % (where, attr))
        if K.find(K.methods, c, attr)[1] is not None:
            raise Unsupported('%s overwrites the method %s' % (where, attr))
        if v.kind in ('self', 'params', 'method'):
            raise Unsupported('%s stores %s value in self.%s' % (where, v.kind, attr))
        if self.defined is not None:
            self.defined.add(attr)
        if attr in FLAG_ATTR:
            d = FLAG_ATTR[attr]
            self.need_dq(d, where)
            self.st.flags[d] = v.const if isinstance(v.const, bool) else '?'
            return
        if attr == MEMO_ATTR:
            self.need_dq('Pga', where)
            if v.kind != 'emptydict':
                raise Unsupported('%s: _cached_params assigned something that is not an empty dict' % where)
            self.reset_params()
            return
        if v.kind == 'emptydict':
            v = AV(const=NOTNONE)
        if attr in SLOT_ATTR:
            self.need_dq(SLOT_ATTR[attr], where)
            self.st.wattr[attr] = v.prov
            self.st.maybe.discard(attr)
            return
        if attr in SRC_ATTR:
            if attr == '_response_times':
                self.need_dq('Resp', where)
            self.st.wattr[attr] = v.prov
            self.st.maybe.discard(attr)
            if attr == '_values':
                self.st.vmode.add('inplace' if aug else 'assign')
                if isinstance(rhs, ast.Name) and rhs.id in fr.env:       # the local name now is the values buffer
                    o = fr.env[rhs.id]
                    fr.env[rhs.id] = AV(o.prov, o.const, o.alias | {'Values'}, o.kind)
            return
        if attr in CONFIG_ATTR:
            if not self.ctor:
                raise Unsupported('%s rewrites the configuration attribute %s (assumed constant after __init__)' % (where, attr))
            return
        self.st.other.add(attr)

    def reset_params(self):
        for d in ('Pga', 'Pgv', 'Pgd'):
            self.st.flags[d] = False
            self.st.wmemo.pop(d, None)
            self.st.maybe.discard(d)
        self.st.params_reset = True

    # -- calls
    def call(self, e, fr):
        f = e.func
        where = '%s.%s line %d' % (fr.defcls, fr.name, e.lineno)
        # super(...).m(...)
        if isinstance(f, ast.Attribute) and isinstance(f.value, ast.Call) and isinstance(f.value.func, ast.Name) and f.value.func.id == 'super':
            sargs = f.value.args
            if len(sargs) == 0:
                after = fr.defcls
            elif len(sargs) == 2 and isinstance(sargs[0], ast.Name) and self.is_self(sargs[1], fr) and sargs[0].id in self.K.cls:
                after = sargs[0].id
            else:
                raise Unsupported('%s: form of super() not understood' % where)
            mc, m = self.K.find(self.K.methods, self.cname, f.attr, after=after)
            if m is None:
                raise Unsupported('%s: super().%s is not a method of a base class' % (where, f.attr))
            args, kws = self.args(e, fr, where)
            return self.inline(mc, m, args, kws, where)
        if isinstance(f, ast.Attribute) and self.is_self(f.value, fr):
            K, c = self.K, self.cname
            mc, m = K.find(K.methods, c, f.attr)
            gc, g = K.find(K.getters, c, f.attr)
            if m is not None and (g is None or K.mro(c).index(mc) < K.mro(c).index(gc)):
                args, kws = self.args(e, fr, where)
                return self.inline(mc, m, args, kws, where)
        if isinstance(f, ast.Attribute):
            recv = self.ev(f.value, fr)
            if recv.kind == 'params':
                if f.attr == 'clear' and not e.args and not e.keywords:
                    self.reset_params()
                    return AV(const=None)
                raise Unsupported('%s: _cached_params.%s(..)' % (where, f.attr))
            if recv.kind in ('self', 'method'):
                raise Unsupported('%s: call through %s value' % (where, recv.kind))
        else:
            recv = None
            fv = self.ev(f, fr)
            if fv.kind is not None:
                raise Unsupported('%s: call of %s value' % (where, fv.kind))
        args, kws = self.args(e, fr, where)
        callee = ast.unparse(f)
        if isinstance(f, ast.Name) and f.id == 'dict' and not args and not kws and 'dict' not in fr.env:
            return AV(const=NOTNONE, kind='emptydict')
        prov = frozenset() if recv is None else recv.prov
        for v in list(args) + list(kws.values()):
            if v.kind == 'self':
                raise Unsupported('self escapes to %s (%s)' % (callee, where))
            if v.kind in ('params', 'method'):
                raise Unsupported('%s value passed to %s (%s)' % (v.kind, callee, where))
            prov |= v.prov
        alias = frozenset()
        argprov = frozenset().union(*[v.prov for v in list(args) + list(kws.values())]) if (args or kws) else frozenset()
        if recv is not None and recv.alias and f.attr in INPLACE_METHODS:
            self.inplace(recv.alias, argprov, where)
        if recv is not None and f.attr in VIEW_METHODS:
            alias |= recv.alias
        if 'out' in kws and kws['out'].alias:
            self.inplace(kws['out'].alias, argprov, where)
        short = callee.split('.', 1)[1] if callee.startswith(('np.', 'numpy.')) else None
        kind = NP_TABLE.get(short) if short else None
        if kind == 'put' and args and args[0].alias:
            self.inplace(args[0].alias, argprov, where)
        if kind == 'view':
            for v in args:
                alias |= v.alias
        return AV(prov, NOTNONE if kind in ('nd', 'view') else UNK, alias)

    def args(self, e, fr, where):
        args, kws = [], {}
        for a in e.args:
            if isinstance(a, ast.Starred):
                raise Unsupported('%s: *args in a call' % where)
            args.append(self.ev(a, fr))
        for k in e.keywords:
            if k.arg is None:
                raise Unsupported('%s: **kwargs in a call' % where)
            kws[k.arg] = self.ev(k.value, fr)
        return args, kws

    def inline(self, dcls, fd, args, kws, where):
        """run method fd (defined in class dcls) on the object; returns the joined returned value"""
        self.depth += 1
        if self.depth > 25:
            raise Unsupported('call depth exceeded at %s' % where)
        q = '%s.%s' % (dcls, fd.name)
        if q not in self.st.calls:
            self.st.calls.append(q)
        fr = Frame(dcls, fd.name)
        a = fd.args
        if a.posonlyargs or a.kwonlyargs:
            raise Unsupported('%s: positional-only / keyword-only parameters' % q)
        params = [x.arg for x in a.args]
        if not params:
            raise Unsupported('%s has no self parameter' % q)
        fr.env[params[0]] = AV(const=NOTNONE, kind='self')
        params = params[1:]
        defaults = dict(zip(params[len(params) - len(a.defaults):], a.defaults)) if a.defaults else {}
        if len(args) > len(params):
            if a.vararg is None:
                raise Unsupported('%s called with too many positional arguments (%s)' % (q, where))
            extra = args[len(params):]
            fr.env[a.vararg.arg] = AV(frozenset().union(*[v.prov for v in extra]), NOTNONE)
            args = args[:len(params)]
        elif a.vararg is not None:
            fr.env[a.vararg.arg] = AV(const=NOTNONE)
        for p, v in zip(params, args):
            fr.env[p] = v
        rest = dict(kws)
        for p in params[len(args):]:
            if p in rest:
                fr.env[p] = rest.pop(p)
            elif p in defaults:
                dfr = Frame(dcls, fd.name)
                fr.env[p] = self.ev(defaults[p], dfr)
            else:
                raise Unsupported('%s called without argument %s (%s)' % (q, p, where))
        for p in params[:len(args)]:
            if p in rest:
                raise Unsupported('%s got argument %s twice (%s)' % (q, p, where))
        if rest:
            if a.kwarg is None:
                raise Unsupported('%s called with unknown keyword %s (%s)' % (q, sorted(rest), where))
        if a.kwarg is not None:
            fr.env[a.kwarg.arg] = AV(frozenset().union(*[v.prov for v in rest.values()]) if rest else frozenset(), NOTNONE)
        for v in fr.env.values():
            if v.kind in ('params', 'method') or (v.kind == 'self' and v is not fr.env[a.args[0].arg]):
                raise Unsupported('%s value passed as an argument of %s (%s)' % (v.kind, q, where))
        try:
            live = self.block(fd.body, fr)
        finally:
            self.depth -= 1
        if live:
            fr.returns.append((self.st, AV(const=None)))
        if not fr.returns:
            raise Dead()
        st, val = fr.returns[0]
        for s2, v2 in fr.returns[1:]:
            st, val = join_st(st, s2), join_av(val, v2)
        self.st = st
        return val

    # -- statements
    def block(self, stmts, fr):
        """returns True iff control continues after the block"""
        for s in stmts:
            m = getattr(self, 'st_' + type(s).__name__, None)
            if m is None:
                raise Unsupported('statement %s (%s.%s line %d)' % (type(s).__name__, fr.defcls, fr.name, s.lineno))
            try:
                if not m(s, fr):
                    return False
            except Dead:
                return False
        return True

    def st_Expr(self, s, fr):
        self.ev(s.value, fr)
        return True

    def st_Pass(self, s, fr):
        return True

    def st_Import(self, s, fr):
        for a in s.names:
            fr.env[a.asname or a.name.split('.')[0]] = AV(const=NOTNONE)
        return True
    st_ImportFrom = st_Import

    def st_Assert(self, s, fr):
        self.ev(s.test, fr)
        return True

    def st_Raise(self, s, fr):
        return False

    def st_Return(self, s, fr):
        v = self.ev(s.value, fr) if s.value is not None else AV(const=None)
        if v.kind in ('self', 'params', 'method'):
            raise Unsupported('%s.%s returns %s value' % (fr.defcls, fr.name, v.kind))
        fr.returns.append((self.st.copy(), v))
        return False

    def st_Assign(self, s, fr):
        v = self.ev(s.value, fr)
        for t in s.targets:
            self.store(t, v, fr, rhs=s.value)
        return True

    def st_AugAssign(self, s, fr):
        t = s.target
        rv = self.ev(s.value, fr)
        if rv.kind is not None:
            raise Unsupported('augmented assignment with %s value' % rv.kind)
        if isinstance(t, ast.Name):
            old = self.ev(ast.Name(id=t.id, ctx=ast.Load(), lineno=s.lineno), fr)
            if old.kind is not None:
                raise Unsupported('augmented assignment to %s value' % old.kind)
            if old.alias:
                self.inplace(old.alias, rv.prov, '%s.%s line %d' % (fr.defcls, fr.name, s.lineno))
            fr.env[t.id] = AV(old.prov | rv.prov, NOTNONE, old.alias)
        elif isinstance(t, ast.Attribute) and self.is_self(t.value, fr):
            old = self.self_load(t.attr, fr, s)
            if old.kind is not None:
                raise Unsupported('augmented assignment to self.%s' % t.attr)
            if t.attr in SLOT_ATTR:
                raise Unsupported('augmented assignment to the cached array self.%s' % t.attr)
            self.self_store(t.attr, AV(old.prov | rv.prov, NOTNONE, old.alias), fr, s, aug=True)
        elif isinstance(t, ast.Subscript):
            self.store(t, rv, fr)
        else:
            raise Unsupported('augmented assignment target %s' % type(t).__name__)
        return True

    def store(self, t, v, fr, rhs=None):
        if isinstance(t, ast.Name):
            if v.kind in ('self', 'params', 'method'):
                raise Unsupported('%s value bound to the local name %s (%s.%s)' % (v.kind, t.id, fr.defcls, fr.name))
            fr.env[t.id] = v
        elif isinstance(t, (ast.Tuple, ast.List)):
            if v.kind is not None:
                raise Unsupported('destructuring of %s value' % v.kind)
            for x in t.elts:
                self.store(x, AV(v.prov, NOTNONE if v.const is NOTNONE else UNK, v.alias), fr)
        elif isinstance(t, ast.Attribute):
            if not self.is_self(t.value, fr):
                raise Unsupported('attribute store on something that is not self (%s.%s line %d)' % (fr.defcls, fr.name, t.lineno))
            self.self_store(t.attr, v, fr, t, rhs=rhs)
        elif isinstance(t, ast.Subscript):
            where = '%s.%s line %d' % (fr.defcls, fr.name, t.lineno)
            b = self.ev(t.value, fr)
            if b.kind == 'params':
                d = self.memo_key(t.slice, fr)
                if v.kind is not None:
                    raise Unsupported('%s stores %s value in the memo' % (where, v.kind))
                self.st.flags[d] = True
                self.st.wmemo[d] = v.prov
                self.st.maybe.discard(d)
                if isinstance(rhs, ast.Name) and rhs.id in fr.env:       # the local now *is* the memoised value
                    fr.env[rhs.id] = AV([slot(d)], v.const, v.alias)
                return
            if b.kind is not None or v.kind is not None:
                raise Unsupported('%s: subscript store involving %s value' % (where, b.kind or v.kind))
            i = self.ev(t.slice, fr)
            if b.alias:
                self.inplace(b.alias, v.prov | i.prov, where)
            if isinstance(t.value, ast.Name) and t.value.id in fr.env:
                o = fr.env[t.value.id]
                fr.env[t.value.id] = AV(o.prov | v.prov | i.prov, o.const, o.alias, o.kind)
        else:
            raise Unsupported('assignment target %s' % type(t).__name__)

    def fork(self, fr, branches):
        """interpret alternative continuations from the current state; join the ones that continue"""
        st0, env0 = self.st, fr.env
        outs = []
        for body in branches:
            self.st, fr.env = st0.copy(), dict(env0)
            if self.block(body, fr):
                outs.append((self.st, fr.env))
        if not outs:
            self.st, fr.env = st0, env0
            return False
        st, env = outs[0]
        for s2, e2 in outs[1:]:
            st, env = join_st(st, s2), join_env(env, e2)
        self.st, fr.env = st, env
        return True

    def st_If(self, s, fr):
        c = self.ev(s.test, fr)
        if c.kind is not None:
            raise Unsupported('truth value of %s value' % c.kind)
        if isinstance(c.const, bool) or c.const is None:
            return self.block(s.body if c.const else s.orelse, fr)
        return self.fork(fr, [s.body, s.orelse])

    def st_For(self, s, fr):
        if s.orelse:
            raise Unsupported('for/else')
        it = self.ev(s.iter, fr)
        if it.kind is not None:
            raise Unsupported('iteration over %s value' % it.kind)
        for _ in range(8):
            st0, env0 = self.st, fr.env
            self.st, fr.env = st0.copy(), dict(env0)
            self.store(s.target, AV(it.prov, UNK, it.alias), fr)
            live = self.block(s.body, fr)
            if live:
                st1, env1 = join_st(st0, self.st), join_env(env0, fr.env)
            else:
                st1, env1 = st0, env0        # every iteration raises: only the empty loop continues
            same = st1.key() == st0.key() and {k: v.key() for k, v in env1.items()} == {k: v.key() for k, v in env0.items()}
            self.st, fr.env = st1, env1
            if same:
                return True
        raise Unsupported('loop does not stabilise (%s.%s line %d)' % (fr.defcls, fr.name, s.lineno))

    def st_Try(self, s, fr):
        if s.finalbody:
            raise Unsupported('try/finally')
        only_raise = all(len(h.body) >= 1 and isinstance(h.body[-1], ast.Raise) and
                         all(isinstance(x, (ast.Raise, ast.Pass)) or (isinstance(x, ast.Expr) and isinstance(x.value, ast.Constant)) for x in h.body)
                         for h in s.handlers)
        if only_raise:
            return self.block(list(s.body) + list(s.orelse), fr)
        # handlers that continue: they start from (before the body) joined with (after the body); anything tracked that
        # the body writes is then only "maybe written" and the translator refuses at the end
        st0, env0 = self.st.copy(), dict(fr.env)
        live = self.block(s.body, fr)
        if not live:
            raise Unsupported('try body that raises / returns with a handler that continues (%s.%s line %d)' % (fr.defcls, fr.name, s.lineno))
        st1, env1 = self.st, fr.env
        mid_st, mid_env = join_st(st0, st1), join_env(env0, env1)
        branches = []
        for h in s.handlers:
            if h.name:
                mid_env = dict(mid_env)
                mid_env[h.name] = AV(const=NOTNONE)
            branches.append(h.body)
        self.st, fr.env = mid_st, mid_env
        ok = self.fork(fr, branches)
        hs, he = (self.st, fr.env) if ok else (None, None)
        self.st, fr.env = st1, env1
        live2 = self.block(s.orelse, fr) if s.orelse else True
        if live2 and ok:
            self.st, fr.env = join_st(self.st, hs), join_env(fr.env, he)
            return True
        if ok:
            self.st, fr.env = hs, he
            return True
        return live2


# ------------------------------------------------------------------------------------------------ operations
GIVEN = 'given'     # a keyword argument that is supplied with a (non-None) value


def alphabet():
    """kop -> (kinds, [call forms]); a call form = (what, name, {param: GIVEN | constant}); several forms of one kop must agree"""
    ops = []

    def add(kop, kinds, *forms):
        ops.append((kop, kinds, list(forms)))
    for r in ['npts', 'time', 'values', 'smooth_fa_freqs', 'smooth_fa_frequencies', 'smooth_freq_range', 'smooth_freq_points']:
        add('KR R_' + r, 'SA', ('get', r, {}))
    add('KR R_response_times', 'A', ('get', 'response_times', {}))
    for r in ['fa_spectrum', 'fa_spectrum_abs', 'fa_freqs', 'fa_frequencies', 'smooth_fa_spectrum']:
        add('KR R_' + r, 'SA', ('get', r, {}))
    for r in ['s_a', 's_v', 's_d', 'velocity', 'displacement', 'pga', 'pgv', 'pgd']:
        add('KR R_' + r, 'A', ('get', r, {}))
    for g, kinds in (('generate_fa_spectrum', 'SA'), ('gen_fa_spectrum', 'SA'), ('generate_smooth_fa_spectrum', 'SA'),
                     ('gen_smooth_fa_spectrum', 'SA'), ('generate_response_spectrum', 'A'), ('gen_response_spectrum', 'A'),
                     ('generate_displacement_and_velocity_series', 'A'), ('response_series', 'A'), ('clear_cache', 'SA'),
                     ('reset_all_motion_stats', 'A')):
        add('KG G_' + g, kinds, ('call', g, {}))
    add('KM M_reset_values', 'SA', ('call', 'reset_values', {'new_values': GIVEN}))
    add('KM M_add_constant', 'SA', ('call', 'add_constant', {'constant': GIVEN}))
    add('KM M_add_series', 'SA', ('call', 'add_series', {'series': GIVEN}))
    add('KM M_add_signal', 'SA', ('call', 'add_signal', {'new_signal': GIVEN}))
    add('KM M_butter_pass', 'SA', ('call', 'butter_pass', {'cut_off': GIVEN, 'filter_order': GIVEN}), ('call', 'butter_pass', {}))
    add('KM M_remove_average', 'SA', ('call', 'remove_average', {'section': GIVEN}), ('call', 'remove_average', {}))
    add('KM M_remove_poly', 'SA', ('call', 'remove_poly', {'poly_fit': GIVEN}), ('call', 'remove_poly', {}))
    add('KM M_running_average', 'SA', ('call', 'running_average', {'width': GIVEN}), ('call', 'running_average', {}))
    add('KM M_correct_me', 'A', ('call', 'correct_me', {}))
    add('KM M_remove_rolling_average_velocity', 'A', ('call', 'remove_rolling_average', {'mtype': 'velocity', 'freq_window': GIVEN}),
        ('call', 'remove_rolling_average', {}))
    add('KM M_remove_rolling_average_values', 'A', ('call', 'remove_rolling_average', {'mtype': 'acceleration', 'freq_window': GIVEN}))
    add('KM M_rebase_displacement', 'A', ('call', 'rebase_displacement', {}))
    add('KM M_set_zero_residual_velocity', 'A', ('call', 'set_zero_residual_velocity', {}))
    add('KM M_set_zero_residual_velocity_tz', 'A', ('call', 'set_zero_residual_velocity', {'timezone': GIVEN}))
    add('KM M_set_zero_residual_displacement', 'A', ('call', 'set_zero_residual_displacement', {}))
    add('KM M_set_zero_residual_displacement_and_velocity', 'A', ('call', 'set_zero_residual_displacement_and_velocity', {}),
        ('call', 'set_zero_residual_displacement_and_velocity', {'timezone': GIVEN}))
    for s in ['smooth_fa_freqs', 'smooth_fa_frequencies', 'smooth_freq_range', 'smooth_freq_points']:
        add('KS S_' + s, 'SA', ('set', s, {}))
    add('KS S_set_smooth_fa_frequecies_by_range', 'SA', ('call', 'set_smooth_fa_frequecies_by_range', {'limits': GIVEN, 'n_points': GIVEN}))
    add('KS S_gen_smooth_fa_spectrum', 'SA', ('call', 'gen_smooth_fa_spectrum', {'smooth_fa_freqs': GIVEN}))
    add('KT T_response_times', 'A', ('set', 'response_times', {}))
    for t in ['gen_response_spectrum', 'generate_response_spectrum', 'response_series']:
        add('KT T_' + t, 'A', ('call', t, {'response_times': GIVEN}))
    return ops


def run_form(K, cname, flags, form, ctor=False):
    """interpret one call form from one flag state; returns the observation or raises Dead / Unsupported"""
    what, name, kw = form
    I = Interp(K, cname, flags, ctor=ctor)
    if ctor:
        I.defined = set()
        for c in reversed(K.mro(cname)):
            for a, val in K.classattr[c].items():
                I.defined.add(a)
                if a in FLAG_ATTR and FLAG_ATTR[a] in I.st.flags:
                    if not (isinstance(val, ast.Constant) and isinstance(val.value, bool)):
                        raise Unsupported('class-level default of %s is not a boolean literal' % a)
                    I.st.flags[FLAG_ATTR[a]] = val.value
                if a == MEMO_ATTR:
                    raise Unsupported('class-level _cached_params (shared between objects)')
    table = {'get': K.getters, 'set': K.setters, 'call': K.methods}[what]
    dc, fd = K.find(table, cname, name)
    if fd is None:
        raise Unsupported('%s has no %s %s' % (cname, {'get': 'property', 'set': 'property setter', 'call': 'method'}[what], name))
    kws = {k: (AV(const=NOTNONE) if v is GIVEN else AV(const=v)) for k, v in kw.items()}
    args = [AV(const=NOTNONE)] if what == 'set' else []
    val = I.inline(dc, fd, args, kws, 'operation')
    st = I.st
    dqs = CLASS_DQ[cname]
    for d in dqs:
        if st.flags[d] == '?':
            raise Unsupported('%s.%s: the final value of the flag of %s depends on data' % (cname, name, d))
    tracked = set(SLOT_ATTR) | set(SRC_ATTR) | set(DQ) | {'_cached_params'}
    if st.maybe & tracked:
        raise Unsupported('%s.%s: %s written on some paths only' % (cname, name, sorted(st.maybe & tracked)))
    W, deps = {}, {}
    for d in dqs:
        if d in MEMO_KEYS.values():
            W[d] = d in st.wmemo
            if W[d]:
                deps[d] = st.wmemo[d]
        else:
            attrs = [a for a, dd in SLOT_ATTR.items() if dd == d]
            wr = [a for a in attrs if a in st.wattr]
            if wr and len(wr) != len(attrs):
                raise Unsupported('%s.%s: of the stored arrays of %s only %s are rewritten' % (cname, name, d, wr))
            W[d] = bool(wr)
            if wr:
                deps[d] = frozenset().union(*[st.wattr[a] for a in wr])
    vdeps = st.wattr.get('_values', frozenset())
    bad = [t for dd in list(deps.values()) + [vdeps, val.prov] for t in dd if t.startswith('attr:')]
    if bad:
        raise Unsupported('%s.%s: a tracked quantity is computed from the untracked attribute(s) %s' % (cname, name, sorted(set(bad))))
    if ctor:
        need = [a for a, dd in list(FLAG_ATTR.items()) + list(SLOT_ATTR.items()) if dd in dqs] + ['_values', '_npts', '_smooth_fa_freqs']
        if 'Pga' in dqs:
            need += ['_response_times', MEMO_ATTR]
        for a in need:
            if a not in I.defined:
                raise Unsupported('%s.__init__ does not create %s' % (cname, a))
    return {
        'F': tuple(st.flags[d] for d in dqs), 'W': tuple(W[d] for d in dqs), 'deps': deps,
        'w_vals': '_values' in st.wattr, 'w_npts': '_npts' in st.wattr, 'w_sf': '_smooth_fa_freqs' in st.wattr,
        'w_rt': '_response_times' in st.wattr,
        'uses': tuple(d for d in DQ if slot(d) in vdeps),
        'ret': tuple(t for t in INPUT_ORDER if (t in val.prov or slot(t) in val.prov)),
        'vmode': tuple(sorted(st.vmode)), 'calls': tuple(st.calls), 'other': tuple(sorted(st.other)),
    }


def states(cname):
    dqs = CLASS_DQ[cname]
    for m in range(2 ** len(dqs)):
        yield m, {d: bool((m >> i) & 1) for i, d in enumerate(dqs)}


def classify(dqs, i, obs):
    """obs: list of (mask, F tuple, W tuple) over every flag state; the effect on quantity number i"""
    d = dqs[i]
    cands = [('Untouched', lambda m: (bit(m, i), False)), ('Cleared', lambda m: (False, False)), ('SetAlways', lambda m: (True, True)),
             ('SetIfWasClear', lambda m: (True, not bit(m, i))), ('ClearedAfterLazyFill', lambda m: (False, not bit(m, i)))]
    for j, g in enumerate(dqs):
        if j != i:
            cands.append(('SetIfWasClearUnder %s' % g, lambda m, j=j: (bit(m, i) or not bit(m, j), (not bit(m, i)) and (not bit(m, j)))))
    for name, fn in cands:
        if all((F[i], W[i]) == fn(m) for m, F, W in obs):
            return name
    rows = ', '.join('%d:%s%s' % (m, 'T' if F[i] else 'F', 'w' if W[i] else '') for m, F, W in obs[:16])
    raise Unsupported('the effect on %s is none of the known forms (flag state:flag after,written: %s ...)' % (d, rows))


def bit(m, i):
    return bool((m >> i) & 1)


def summarise(K, cname, forms, label, recipes):
    """all flag states x all call forms -> one summary dict; raises Dead if the operation raises in every state"""
    dqs = CLASS_DQ[cname]
    per_form = []
    for form in forms:
        obs, const, dead = [], None, 0
        for m, flags in states(cname):
            try:
                o = run_form(K, cname, flags, form)
            except Dead:
                dead += 1
                continue
            obs.append((m, o['F'], o['W']))
            c = {k: o[k] for k in ('w_vals', 'w_npts', 'w_sf', 'w_rt', 'uses', 'ret', 'vmode', 'calls', 'other')}
            if const is None:
                const = c
            else:
                for k in ('w_vals', 'w_npts', 'w_sf', 'w_rt', 'ret'):
                    if const[k] != c[k]:
                        raise Unsupported('%s: %s depends on the flag state' % (label, k))
                const['uses'] = tuple(d for d in DQ if d in const['uses'] or d in c['uses'])
                const['vmode'] = tuple(sorted(set(const['vmode']) | set(c['vmode'])))
                const['calls'] = const['calls'] + tuple(x for x in c['calls'] if x not in const['calls'])
                const['other'] = tuple(sorted(set(const['other']) | set(c['other'])))
            for d, dd in o['deps'].items():
                if d in recipes and recipes[d][0] != dd:
                    raise Unsupported('%s recomputes %s from %s, but %s recomputes it from %s' % (label, d, sorted(dd), recipes[d][1], sorted(recipes[d][0])))
                recipes.setdefault(d, (dd, label))
        if dead and obs:
            raise Unsupported('%s raises in some flag states only' % label)
        if not obs:
            raise Dead()
        try:
            eff = {d: classify(dqs, i, obs) for i, d in enumerate(dqs)}
        except Unsupported as e:
            raise Unsupported('%s: %s' % (label, e))
        for d in DQ:
            eff.setdefault(d, 'Untouched')
        s = dict(const)
        s['eff'] = eff
        per_form.append(s)
    first = per_form[0]
    for s, form in zip(per_form[1:], forms[1:]):
        for k in ('eff', 'w_vals', 'w_npts', 'w_sf', 'w_rt', 'uses', 'ret'):
            if s[k] != first[k]:
                raise Unsupported('%s: the call forms %r and %r differ in %s' % (label, forms[0], form, k))
        first['calls'] = first['calls'] + tuple(x for x in s['calls'] if x not in first['calls'])
        first['vmode'] = tuple(sorted(set(first['vmode']) | set(s['vmode'])))
    return first


def check_config(K):
    """the configuration attributes are written by __init__ only"""
    for cname, cd in K.cls.items():
        for fd in cd.body:
            if isinstance(fd, ast.FunctionDef) and fd.name != '__init__':
                for sub in ast.walk(fd):
                    if isinstance(sub, ast.Attribute) and isinstance(sub.ctx, (ast.Store, ast.Del)) and sub.attr in CONFIG_ATTR:
                        raise Unsupported('%s.%s writes the configuration attribute %s' % (cname, fd.name, sub.attr))
                    if isinstance(sub, ast.Call) and isinstance(sub.func, ast.Name) and sub.func.id in ('setattr', 'delattr', 'vars', 'exec', 'eval'):
                        raise Unsupported('%s.%s uses %s' % (cname, fd.name, sub.func.id))
                    if isinstance(sub, ast.Attribute) and sub.attr == '__dict__':
                        raise Unsupported('%s.%s uses __dict__' % (cname, fd.name))


def constructor(K, cname):
    """interpret __init__ from the class-level defaults; every flag must end clear"""
    dqs = CLASS_DQ[cname]
    forms = [{}, {'smooth_fa_freqs': GIVEN}] + ([{'response_times': GIVEN}, {'smooth_fa_freqs': GIVEN, 'response_times': GIVEN}] if cname == 'AccSignal' else [])
    for kw in forms:
        kw = dict(kw)
        kw.update({'values': GIVEN, 'dt': GIVEN})
        o = run_form(K, cname, {d: '?' for d in dqs}, ('call', '__init__', kw), ctor=True)
        if any(o['F']):
            raise Unsupported('%s.__init__ leaves a validity flag set: %r' % (cname, dict(zip(dqs, o['F']))))
        if not (o['w_vals'] and o['w_npts'] and o['w_sf'] and (o['w_rt'] or cname == 'Signal')):
            raise Unsupported('%s.__init__ does not set all sources' % cname)
    return True


def translate(repo):
    K = Classes(repo)
    check_config(K)
    res = {'path': K.path, 'classes': {}, 'excluded': []}
    modelled = {}     # class -> set of (what, name) covered by the alphabet
    for cname, kind in (('AccSignal', 'A'), ('Signal', 'S')):
        recipes, table = {}, []
        cov = set()
        for kop, kinds, forms in alphabet():
            if kind not in kinds:
                continue
            try:
                s = summarise(K, cname, forms, '%s: %s' % (cname, kop), recipes)
            except Dead:
                raise Unsupported('%s: operation %s raises in every flag state' % (cname, kop))
            table.append((kop, s))
            for what, name, _ in forms:
                cov.add((what, name))
        # everything else that is public API of the class
        extra = []
        seen = set()
        for what, tab in (('get', K.getters), ('set', K.setters), ('call', K.methods)):
            for c in K.mro(cname):
                for name in tab[c]:
                    if (what, name) in cov or (what, name) in seen or name == '__init__':
                        continue
                    seen.add((what, name))
                    label = '%s.%s%s' % (cname, name, {'get': ' (property)', 'set': ' (setter)', 'call': '()'}[what])
                    try:
                        s = summarise(K, cname, [(what, name, {})], label, dict(recipes))
                        extra.append((label, s))
                    except Dead:
                        res['excluded'].append((label, 'raises in every flag state when called without arguments'))
                    except Unsupported as e:
                        msg = str(e)
                        if msg.startswith('self escapes') or 'called without argument' in msg:
                            res['excluded'].append((label, msg))
                        else:
                            raise
        constructor(K, cname)
        for d in CLASS_DQ[cname]:
            if d not in recipes:
                raise Unsupported('%s: no operation recomputes %s' % (cname, d))
        res['classes'][cname] = {'table': table, 'extra': extra, 'recipes': {d: recipes[d][0] for d in CLASS_DQ[cname]}}
    return res


# ------------------------------------------------------------------------------------------------ rendering
def cbool(b):
    return 'true' if b else 'false'


def cinput(t):
    return {'Values': 'IValues', 'Npts': 'INpts', 'SF': 'ISF', 'RT': 'IRT'}.get(t) or ('ISlot %s' % (t[5:] if t.startswith('slot:') else t))


def ceff(e):
    return '(%s)' % e if ' ' in e else e


def csummary(s):
    e = s['eff']
    return 'mkS %s %s %s %s %s [%s] [%s]' % (
        ' '.join(ceff(e[d]) for d in DQ), cbool(s['w_vals']), cbool(s['w_npts']), cbool(s['w_sf']), cbool(s['w_rt']),
        '; '.join(s['uses']), '; '.join(cinput(t) for t in s['ret']))


def render(res):
    o = []
    o.append('(** GENERATED by translator/py2coq_cache_events.py from eqsig/single.py - do not edit.')
    o.append('    Per operation of the alphabet of model/M_cache.v and per class: the summary of what the method does to the')
    o.append('    caching state, obtained by abstract interpretation of the method body from every flag state (vocabulary:')
    o.append('    model/M_cache_events.v).  The comment before each entry lists the methods inlined along the MRO and how')
    o.append('    self._values is written (information only; not compared with the model). *)')
    o.append('From Coq Require Import List String.')
    o.append('From EQ Require Import model.M_cache model.K_C04 model.M_cache_events.')
    o.append('Import ListNotations.')
    o.append('Local Open Scope string_scope.')
    o.append('')
    for cname, pre in (('AccSignal', 'acc'), ('Signal', 'sig')):
        c = res['classes'][cname]
        o.append('(** ---- %s ---- *)' % cname)
        o.append('Definition %s_summaries : list (kop * summary) := [' % pre)
        rows = []
        for kop, s in c['table']:
            info = 'via ' + ' > '.join(s['calls'])
            if s['vmode']:
                info += '; _values: ' + '+'.join(s['vmode'])
            rows.append('  (* %s *)\n  (%s,\n     %s)' % (info, kop, csummary(s)))
        o.append(';\n'.join(rows))
        o.append('].')
        o.append('(** what every derived quantity is recomputed from, wherever it is recomputed *)')
        o.append('Definition %s_recipes : list (dq * list input) := [' % pre)
        o.append(';\n'.join('  (%s, [%s])' % (d, '; '.join(cinput(t) for t in INPUT_ORDER if (t in c['recipes'][d] or slot(t) in c['recipes'][d])))
                            for d in CLASS_DQ[cname]))
        o.append('].')
        o.append('(** methods and properties outside the alphabet of the model (called without arguments) *)')
        o.append('Definition %s_unmodelled : list (string * summary) := [' % pre)
        o.append(';\n'.join('  ("%s",\n     %s)' % (label, csummary(s)) for label, s in c['extra']))
        o.append('].')
        o.append('')
    o.append('(** not summarised (the reason is the translator\'s message); the constructors are interpreted from the class-level')
    o.append('    defaults and end with every flag clear and every source set (checked by the translator) *)')
    o.append('Definition excluded : list (string * string) := [')
    import re
    o.append(';\n'.join('  ("%s", "%s")' % (a, re.sub(r' line \d+', '', b).replace('"', "'")) for a, b in res['excluded']))
    o.append('].')
    return '\n'.join(o) + '\n'


def regenerate(repo=None, out=None):
    """uniform entry point for translator/regen.py: returns True iff Gen_cache_events.v was rewritten"""
    repo = repo or os.environ.get('EQSIG_REPO', '/repo')
    here = os.path.dirname(os.path.dirname(os.path.abspath(__file__)))
    out = out or os.path.join(here, 'coq', 'gen', 'Gen_cache_events.v')
    try:
        res = translate(repo)
    except RecursionError:
        raise Unsupported('recursion between methods')
    return write_if_changed(out, render(res))


if __name__ == '__main__':
    repo = os.environ.get('EQSIG_REPO', '/repo')
    r = translate(repo)
    for cn, c in r['classes'].items():
        print('%s: %d operations, %d unmodelled' % (cn, len(c['table']), len(c['extra'])))
    print('excluded:', r['excluded'])
    print('rewritten' if regenerate(repo) else 'unchanged')
