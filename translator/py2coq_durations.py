#!/venv/bin/python
"""Fail-closed translator of the duration functions of eqsig/im.py  ->  coq/gen/Gen_durations.v          (property C10)

    calc_sig_dur_vals -> gen_sig_dur_vals      calc_sig_dur -> gen_sig_dur      calc_brac_dur -> gen_brac_dur
    calc_significant_duration (deprecated alias) -> gen_significant_duration

Each function becomes one Gallina definition, generic over `NumOps T` (lib/Num.v), over the list primitives of lib/NpList.v
(cumsum, vsq, vabs, where_idx, take, ...) and the Python-level readings of lib/PyVal.v (py_first / py_last = `v[0]` / `v[-1]`
with None for IndexError, the result shapes PyScalar / PyPair / PyNonePair / PyIndexError, arange, of_idx).
coq/proofs/P_gen_durations.v proves every generated definition equal to the hand-written model of model/M_im.v
(sig_dur_se, brac_dur_se, brac_dur) for ALL inputs, so a changed source statement changes the generated term and breaks a proof
obligation of Prop_C10 on the next run.

The grammar is the one of translator/py2coq_numpy.py (imported, not modified: vector arithmetic, np.cumsum, abs, inlining of
plain module functions such as calc_arias_intensity, boolean-parameter `if`) extended by exactly the shapes the three
functions use; everything else raises `Unsupported` (= the tie is broken; the harness reports it):

expressions : `V > S`, `V < S`, `V >= S`, `V <= S` (and the mirrored `S op V`)  -> an element-wise test on V
              `T1 & T2` of two tests on the syntactically same vector            -> the conjunction
              `np.where(test)` -> the 1-tuple of the qualifying indices;  `w[0]` of it -> where_idx (fun x => test) V
              `iv[0]`, `iv[-1]` of an index vector, `v[0]`, `v[-1]` of a float vector -> py_first / py_last; these are
                  PARTIAL: the statement that contains them is preceded by a bind `match .. with None => <raise> | Some k => ..`
                  in Python evaluation order (left to right), with <raise> = PyIndexError outside a `try`, the translated
                  handler inside one
              `i * s` / `s * i` of an index and a float -> of_idx i * s
              `np.arange(p.npts)` of an object parameter -> arange (length a)   (AccSignal.npts read as len(values):
                  that object-level step stays with the correspondence);  `p.values`, `p.dt` -> inputs a, dt
              `v[w]` (fancy indexing of a float vector by the np.where tuple of a test on a vector of syntactically the same
                  length) -> take n0 v (where_idx ..)
              `f(p)` of the optional-callable parameter on the object parameter, in the branch where it is not None
                  -> the input series carried by the `option (list T)` binder
statements  : docstring; `deprecation("...")` (a warning: skipped) when the name is imported from eqsig.exceptions;
              `name = e` (total e: substituted into its uses, so a renamed temporary gives the same text);
              `if b:` on a boolean parameter; `if f is None: .. else: ..` on the optional-callable parameter;
              `try: <body> except IndexError: <handler>` as the LAST statement, body and handler returning on every path;
              `return e` | `return e1, e2` | `return None, None` | `return g(args)` with g another translated-style function of
              the module (inlined, constant defaults filled in).
"""
import ast, copy, os, sys

HERE = os.path.dirname(os.path.abspath(__file__))
sys.path.insert(0, HERE)
import py2coq_numpy as base                                      # noqa: E402
from py2coq_numpy import Unsupported, fail, S, B, O, V, par, dotted, is_const, literal   # noqa: E402

VERIF = os.path.dirname(HERE)
OUT = os.path.join(VERIF, 'coq', 'gen', 'Gen_durations.v')
SRC = 'eqsig/im.py'
X = base.LAMBDA_VAR

SPECS = [
    dict(file=SRC, func='calc_sig_dur_vals', gen='gen_sig_dur_vals',
         params={'motion': 'V', 'dt': 'S', 'start': 'S', 'end': 'S', 'se': 'B'},
         binders=[('se', 'B', 'se'), ('dt', 'S', 'dt'), ('lo', 'S', 'start'), ('hi', 'S', 'end'), ('m', 'V', 'motion')]),
    dict(file=SRC, func='calc_sig_dur', gen='gen_sig_dur',
         params={'asig': 'O', 'start': 'S', 'end': 'S', 'im': 'F', 'se': 'B'},
         binders=[('se', 'B', 'se'), ('dt', 'S', '.dt'), ('lo', 'S', 'start'), ('hi', 'S', 'end'), ('im', 'F', 'im'),
                  ('a', 'V', '.values')]),
    dict(file=SRC, func='calc_brac_dur', gen='gen_brac_dur',
         params={'asig': 'O', 'threshold': 'S', 'se': 'B'},
         binders=[('se', 'B', 'se'), ('dt', 'S', '.dt'), ('thr', 'S', 'threshold'), ('a', 'V', '.values')]),
    dict(file=SRC, func='calc_significant_duration', gen='gen_significant_duration',
         params={'motion': 'V', 'dt': 'S', 'start': 'S', 'end': 'S'},
         binders=[('dt', 'S', 'dt'), ('lo', 'S', 'start'), ('hi', 'S', 'end'), ('m', 'V', 'motion')]),
]

RESERVED_VARS = {X, 'pi', 'imv'}
COQ_TYPES = {'S': 'T', 'V': 'list T', 'B': 'bool', 'F': 'option (list T)'}


# ---------------------------------------------------------------- additional values
class N:           # integer index used as a scalar
    def __init__(self, term):
        self.term = term


class BV:          # element-wise test on a vector: fun X => body, over vec
    def __init__(self, body, vec, length):
        self.body, self.vec, self.length = body, vec, length


class W:           # np.where(test): 1-tuple holding the index vector
    def __init__(self, term, length):
        self.term, self.length = term, length


class IV:          # index vector
    def __init__(self, term):
        self.term = term


class F:           # optional callable parameter; state None (untested) | 'none' | 'some'
    def __init__(self, name, state=None):
        self.name, self.state = name, state


def minus_one(n):
    return (isinstance(n, ast.UnaryOp) and isinstance(n.op, ast.USub) and is_const(n.operand, 1)
            and type(n.operand.value) is int)


def zero(n):
    return is_const(n, 0) and type(n.value) is int


def is_none(n):
    return isinstance(n, ast.Constant) and n.value is None


class DCtx(base.Ctx):
    def __init__(self, module, spec, deprecation_ok):
        base.Ctx.__init__(self, module, spec)
        self.pending = []          # binds (var, option term) raised by the expression being translated, evaluation order
        self.nvar = 0
        self.deprecation_ok = deprecation_ok
        self.names = {b[0] for b in spec['binders']} | RESERVED_VARS

    def fresh(self):
        self.nvar += 1
        v = 'k%d' % self.nvar
        if v in self.names:
            raise Unsupported('bound variable %s clashes with a binder' % v)
        return v

    def partial(self, opt_term):
        v = self.fresh()
        self.pending.append((v, opt_term))
        return v

    # ------------------------------------------------------------ expressions
    def expr(self, e, fr):
        if isinstance(e, ast.Compare):
            return self.compare(e, fr)
        if isinstance(e, ast.BinOp) and isinstance(e.op, ast.BitAnd):
            x, y = self.expr(e.left, fr), self.expr(e.right, fr)
            if not (isinstance(x, BV) and isinstance(y, BV)):
                fail(e, '& of operands that are not element-wise tests')
            if x.vec != y.vec or x.length is None or x.length != y.length:
                fail(e, '& of tests on syntactically different vectors')
            return BV('(%s) && (%s)' % (x.body, y.body), x.vec, x.length)
        return base.Ctx.expr(self, e, fr)

    def compare(self, e, fr):
        if len(e.ops) != 1 or len(e.comparators) != 1:
            fail(e, 'chained comparison')
        x, y = self.expr(e.left, fr), self.expr(e.comparators[0], fr)
        op = type(e.ops[0])
        # element-wise `vector op scalar`; written with the model's <? / <=? (a > b is b <? a)
        forms = {ast.Gt: ('%(s)s <? %(x)s', '%(x)s <? %(s)s'), ast.Lt: ('%(x)s <? %(s)s', '%(s)s <? %(x)s'),
                 ast.GtE: ('%(s)s <=? %(x)s', '%(x)s <=? %(s)s'), ast.LtE: ('%(x)s <=? %(s)s', '%(s)s <=? %(x)s')}
        if op not in forms:
            fail(e, 'comparison operator %s' % op.__name__)
        if isinstance(x, V) and isinstance(y, S):
            return BV(forms[op][0] % {'s': par(y.term), 'x': X}, x.term, x.length)
        if isinstance(x, S) and isinstance(y, V):
            return BV(forms[op][1] % {'s': par(x.term), 'x': X}, y.term, y.length)
        fail(e, 'comparison other than vector-with-scalar')

    def binop(self, e, fr):
        if isinstance(e.op, ast.Pow):
            return base.Ctx.binop(self, e, fr)
        if isinstance(e.op, ast.Mult):
            # peek: index * float needs both operands; everything else is the base grammar.  The operands are translated
            # exactly once (a partial operand registers its bind when translated).
            x, y = self.expr(e.left, fr), self.expr(e.right, fr)
            if isinstance(x, N) and isinstance(y, S):
                return S('of_idx %s * %s' % (par(x.term), par(y.term)))
            if isinstance(x, S) and isinstance(y, N):
                return S('%s * of_idx %s' % (par(x.term), par(y.term)))
            return self.arith(e, '*', 'vmul', x, y)
        ops = {ast.Add: ('+', 'vadd'), ast.Sub: ('-', 'vsub'), ast.Div: ('/', None)}
        for k, (sym, vname) in ops.items():
            if isinstance(e.op, k):
                return self.arith(e, sym, vname, self.expr(e.left, fr), self.expr(e.right, fr))
        fail(e, 'binary operator %s' % type(e.op).__name__)

    def arith(self, e, sym, vname, x, y):
        """the arithmetic table of py2coq_numpy.Ctx.binop, on already translated operands"""
        if isinstance(x, S) and isinstance(y, S):
            return S('%s %s %s' % (par(x.term), sym, par(y.term)))
        if isinstance(x, V) and isinstance(y, S):
            if sym in ('*', '/'):
                return V('map (fun %s => %s %s %s) %s' % (X, X, sym, par(y.term), par(x.term)), x.length, owned=True)
            fail(e, 'vector %s scalar' % sym)
        if isinstance(x, S) and isinstance(y, V):
            if sym == '*':
                return V('scale %s %s' % (par(x.term), par(y.term)), y.length, owned=True)
            fail(e, 'scalar %s vector' % sym)
        if isinstance(x, V) and isinstance(y, V):
            if vname is None:
                fail(e, 'vector / vector')
            if x.length is None or x.length != y.length:
                fail(e, 'element-wise operation on vectors whose lengths are not syntactically equal')
            return V('%s %s %s' % (vname, par(x.term), par(y.term)), x.length, owned=True)
        fail(e, 'operands of %s' % sym)

    def subscript(self, e, fr):
        x = self.expr(e.value, fr)
        sl = e.slice
        if isinstance(sl, ast.Index):      # python < 3.9
            sl = sl.value
        if isinstance(x, W):
            if zero(sl):
                return IV(x.term)
            fail(e, 'subscript of an np.where result other than [0]')
        if isinstance(x, IV):
            if zero(sl):
                return N(self.partial('py_first %s' % par(x.term)))
            if minus_one(sl):
                return N(self.partial('py_last %s' % par(x.term)))
            fail(e, 'subscript of an index vector other than [0] / [-1]')
        if isinstance(x, V):
            if zero(sl):
                return S(self.partial('py_first %s' % par(x.term)))
            if minus_one(sl):
                return S(self.partial('py_last %s' % par(x.term)))
            if isinstance(sl, ast.Name):
                w = self.expr(sl, fr)
                if not isinstance(w, W):
                    fail(e, 'vector indexed by something other than an np.where result')
                if x.length is None or x.length != w.length:
                    fail(e, 'fancy indexing: the test is not on a vector of syntactically the same length')
                return V('take n0 %s %s' % (par(x.term), par(w.term)), None, owned=True)
            fail(e, 'subscript of a vector other than [0] / [-1] / [np.where result]')
        fail(e, 'subscript of a %s' % type(x).__name__)

    def call(self, e, fr):
        d = dotted(e.func)
        env = fr['env']
        if d == 'np.where':
            self.need_np(e, d)
            if len(e.args) != 1 or e.keywords:
                fail(e, 'np.where arguments')
            t = self.expr(e.args[0], fr)
            if not isinstance(t, BV):
                fail(e, 'np.where of something other than an element-wise test')
            return W('where_idx (fun %s => %s) %s' % (X, t.body, par(t.vec)), t.length)
        if d == 'np.arange':
            self.need_np(e, d)
            a = e.args[0] if len(e.args) == 1 and not e.keywords else None
            if not (isinstance(a, ast.Attribute) and a.attr == 'npts' and isinstance(a.value, ast.Name)
                    and isinstance(env.get(a.value.id), O)):
                fail(e, 'np.arange other than np.arange(<object parameter>.npts)')
            if '.values' not in self.allowed:
                fail(e, '%s reads .npts, but the record is not an input of %s' % (self.spec['func'], self.spec['gen']))
            name = self.allowed['.values'][0]
            self.used_inputs.add(name)
            return V('arange (length %s)' % name, (name, 0), owned=True)
        if isinstance(e.func, ast.Name) and isinstance(env.get(e.func.id), F):
            f = env[e.func.id]
            if f.state != 'some':
                fail(e, 'call of %s where it is not known to be a callable' % f.name)
            if not (len(e.args) == 1 and not e.keywords and isinstance(e.args[0], ast.Name) and isinstance(env.get(e.args[0].id), O)):
                fail(e, '%s called on something other than the object parameter' % f.name)
            return V('imv', ('imv', 0))
        return base.Ctx.call(self, e, fr)

    # ------------------------------------------------------------ statements
    def take_pending(self):
        p, self.pending = self.pending, []
        return p

    @staticmethod
    def wrap(binds, tree):
        for v, opt in reversed(binds):
            tree = ('bind', v, opt, tree)
        return tree

    def scalar(self, e, fr):
        v = self.expr(e, fr)
        if not isinstance(v, S):
            fail(e, 'returned value is not a float scalar')
        return v.term

    def ret(self, s, fr):
        v = s.value
        if v is None:
            fail(s, 'bare return')
        if isinstance(v, ast.Tuple):
            if len(v.elts) != 2:
                fail(s, 'tuple of other than 2 results')
            if all(is_none(x) for x in v.elts):
                return ('ret', 'PyNonePair')
            a = self.scalar(v.elts[0], fr)
            b = self.scalar(v.elts[1], fr)
            return self.wrap(self.take_pending(), ('ret', 'PyPair %s %s' % (par(a), par(b))))
        if isinstance(v, ast.Call) and isinstance(v.func, ast.Name) and v.func.id in self.m.funcs and v.func.id not in fr['env']:
            return self.tail_call(v, fr)
        a = self.scalar(v, fr)
        return self.wrap(self.take_pending(), ('ret', 'PyScalar %s' % par(a)))

    def tail_call(self, e, fr):
        """return g(args): g is translated in place with its parameters bound to the arguments, constant defaults filled in"""
        if fr.get('depth', 0) >= 2:
            fail(e, 'call nesting too deep')
        fn = self.m.func(e.func.id, e)
        names = [a.arg for a in fn.args.args]
        if any(isinstance(a, ast.Starred) for a in e.args) or any(k.arg is None for k in e.keywords) or len(e.args) > len(names):
            fail(e, 'call arguments')
        bound = {}
        for n, a in zip(names, e.args):
            bound[n] = self.expr(a, fr)
        for k in e.keywords:
            if k.arg not in names or k.arg in bound:
                fail(e, 'keyword argument %s' % k.arg)
            bound[k.arg] = self.expr(k.value, fr)
        if self.pending:
            fail(e, 'partial expression as a call argument')
        defaults = dict(zip(names[len(names) - len(fn.args.defaults):], fn.args.defaults))
        for n in names:
            if n in bound:
                if not isinstance(bound[n], (S, V, B)):
                    fail(e, 'argument %s of an unsupported kind' % n)
                continue
            dflt = defaults.get(n)
            if isinstance(dflt, ast.Constant) and isinstance(dflt.value, bool):
                bound[n] = B('true' if dflt.value else 'false')
            elif isinstance(dflt, ast.Constant) and dflt.value is not None:
                bound[n] = literal(dflt)
            else:
                fail(e, 'parameter %s has no constant default' % n)
        env = {}
        for n, v in bound.items():
            if n in base.RESERVED:
                fail(fn, 'parameter named %s' % n)
            if isinstance(v, V):
                v.cell['refs'] += 1
            env[n] = v
        return self.dblock(list(fn.body), {'env': env, 'ct_local': False, 'depth': fr.get('depth', 0) + 1})

    def dblock(self, stmts, fr, depth=0):
        """-> ('ret', term) | ('bind', var, option term, tree) | ('if', cond, tree, tree)
              | ('ifnone', name, tree, tree) | ('try', tree, tree)"""
        if depth > 8:
            fail(stmts[0] if stmts else None, 'nesting too deep')
        fr = {'env': copy.deepcopy(fr['env']), 'ct_local': fr['ct_local'], 'depth': fr.get('depth', 0)}
        stmts = list(stmts)
        while stmts:
            s = stmts.pop(0)
            if self.pending:
                raise Unsupported('internal: unbound partial expression')
            if isinstance(s, ast.Expr):
                v = s.value
                if isinstance(v, ast.Constant) and isinstance(v.value, str):
                    continue                                             # docstring
                if (isinstance(v, ast.Call) and isinstance(v.func, ast.Name) and v.func.id == 'deprecation' and self.deprecation_ok
                        and 'deprecation' not in fr['env'] and len(v.args) == 1 and not v.keywords
                        and isinstance(v.args[0], ast.Constant) and isinstance(v.args[0].value, str)):
                    continue                                             # a DeprecationWarning: no effect on the result
                fail(s, 'expression statement')
            if isinstance(s, ast.Assign):
                if len(s.targets) != 1 or not isinstance(s.targets[0], ast.Name):
                    fail(s, 'assignment target')
                val = self.expr(s.value, fr)
                if isinstance(val, (B, O, F)):
                    fail(s, 'copy of a boolean / object / callable parameter')
                if isinstance(fr['env'].get(s.targets[0].id), F):
                    fail(s, 'assignment to the callable parameter')
                binds = self.take_pending()
                if isinstance(val, V):
                    self.bind(fr, s.targets[0].id, val, s)
                else:
                    if s.targets[0].id in base.RESERVED or isinstance(fr['env'].get(s.targets[0].id), (B, O)):
                        fail(s, 'assignment to %s' % s.targets[0].id)
                    fr['env'][s.targets[0].id] = val
                if binds:
                    return self.wrap(binds, self.dblock(stmts, fr, depth + 1))
                continue
            if isinstance(s, ast.If):
                t = s.test
                if (isinstance(t, ast.Compare) and len(t.ops) == 1 and isinstance(t.ops[0], ast.Is) and is_none(t.comparators[0])
                        and isinstance(t.left, ast.Name) and isinstance(fr['env'].get(t.left.id), F)):
                    f = fr['env'][t.left.id]
                    if f.state is not None:
                        fail(s, '%s tested twice' % f.name)
                    trees = []
                    for state, body in (('none', s.body), ('some', s.orelse)):
                        fr2 = {'env': copy.deepcopy(fr['env']), 'ct_local': fr['ct_local'], 'depth': fr['depth']}
                        fr2['env'][t.left.id] = F(f.name, state)
                        trees.append(self.dblock(list(body) + stmts, fr2, depth + 1))
                    return ('ifnone', f.name, trees[0], trees[1])
                c = self.cond(t, fr)
                return ('if', c, self.dblock(list(s.body) + stmts, fr, depth + 1), self.dblock(list(s.orelse) + stmts, fr, depth + 1))
            if isinstance(s, ast.Try):
                if stmts:
                    fail(s, 'statements after the try block')
                if len(s.handlers) != 1 or s.orelse or s.finalbody:
                    fail(s, 'try block other than try/except IndexError')
                h = s.handlers[0]
                if not (isinstance(h.type, ast.Name) and h.type.id == 'IndexError' and h.name is None and 'IndexError' not in fr['env']):
                    fail(s, 'handler other than `except IndexError:`')
                body = self.dblock(list(s.body), fr, depth + 1)
                handler = self.dblock(list(h.body), fr, depth + 1)      # sees only what was bound before the try
                return ('try', body, handler)
            if isinstance(s, ast.Return):
                return self.ret(s, fr)
            fail(s, 'statement %s' % type(s).__name__)
        raise Unsupported('control reaches the end of a block of %s without a return' % self.spec['func'])


def flat(tree, on_raise):
    k = tree[0]
    if k == 'ret':
        return tree[1]
    if k == 'bind':
        return 'match %s with None => %s | Some %s => %s end' % (tree[2], on_raise, tree[1], flat(tree[3], on_raise))
    if k == 'if':
        return 'if %s then %s else %s' % (tree[1], flat(tree[2], on_raise), flat(tree[3], on_raise))
    if k == 'ifnone':
        return 'match %s with None => %s | Some imv => %s end' % (tree[1], flat(tree[2], on_raise), flat(tree[3], on_raise))
    if k == 'try':
        return flat(tree[1], par2(flat(tree[2], on_raise)))
    raise Unsupported('internal: tree %r' % (k,))


def par2(t):
    return t if t.replace('_', 'a').isalnum() else '(%s)' % t


def render(tree, on_raise, ind=2):
    sp = ' ' * ind
    k = tree[0]
    if k == 'ret':
        return sp + tree[1]
    if k == 'bind':
        return '%smatch %s with\n%s| None => %s\n%s| Some %s =>\n%s\n%send' % (
            sp, tree[2], sp, on_raise, sp, tree[1], render(tree[3], on_raise, ind + 2), sp)
    if k == 'if':
        return '%sif %s then\n%s\n%selse\n%s' % (sp, tree[1], render(tree[2], on_raise, ind + 2), sp, render(tree[3], on_raise, ind + 2))
    if k == 'ifnone':
        return '%smatch %s with\n%s| None =>\n%s\n%s| Some imv =>\n%s\n%send' % (
            sp, tree[1], sp, render(tree[2], on_raise, ind + 2), sp, render(tree[3], on_raise, ind + 2), sp)
    if k == 'try':
        return render(tree[1], par2(flat(tree[2], on_raise)), ind)
    raise Unsupported('internal: tree %r' % (k,))


def builtin_untouched(module, name):
    """nothing at module level binds `name` (so it is the Python builtin)"""
    for st in module.tree.body:
        if isinstance(st, (ast.Import, ast.ImportFrom)):
            if any((al.asname or al.name.split('.')[0]) == name or al.name == '*' for al in st.names):
                return False
        elif isinstance(st, (ast.FunctionDef, ast.ClassDef)) and st.name == name:
            return False
        for n in ast.walk(st) if not isinstance(st, ast.FunctionDef) else []:
            if isinstance(n, ast.Name) and isinstance(n.ctx, (ast.Store, ast.Del)) and n.id == name:
                return False
    return True


def deprecation_imported(module):
    """`deprecation` is the warning helper of eqsig.exceptions and nothing else at module level"""
    ok = False
    for st in module.tree.body:
        if isinstance(st, ast.ImportFrom):
            for al in st.names:
                if (al.asname or al.name) == 'deprecation':
                    if st.module != 'eqsig.exceptions' or al.name != 'deprecation' or st.level:
                        return False
                    ok = True
        elif isinstance(st, ast.Import):
            if any((al.asname or al.name.split('.')[0]) == 'deprecation' for al in st.names):
                return False
        elif isinstance(st, (ast.FunctionDef, ast.ClassDef)):
            if st.name == 'deprecation':
                return False
        else:
            for n in ast.walk(st):
                if isinstance(n, ast.Name) and isinstance(n.ctx, (ast.Store, ast.Del)) and n.id == 'deprecation':
                    return False
    return ok


def translate_function(module, spec, dep_ok):
    fn = module.func(spec['func'])
    names = [a.arg for a in fn.args.args]
    if names != list(spec['params']):
        raise Unsupported('%s: parameters are %r, expected %r' % (spec['func'], names, list(spec['params'])))
    ctx = DCtx(module, spec, dep_ok)
    env = {}
    byparam = {b[2]: b for b in spec['binders'] if not b[2].startswith('.')}
    for n in names:
        k = spec['params'][n]
        if n in base.RESERVED or n in ('IndexError', 'deprecation'):
            raise Unsupported('parameter named %s' % n)
        if k == 'O':
            env[n] = O(n)
        elif k == 'F':
            env[n] = F(byparam[n][0])
        else:
            cname = byparam[n][0]
            env[n] = {'S': S(cname), 'B': B(cname)}[k] if k != 'V' else V(cname, length=(cname, 0))
    tree = ctx.dblock(list(fn.body), {'env': env, 'ct_local': False})
    if ctx.pending:
        raise Unsupported('internal: unbound partial expression')
    body = render(tree, 'PyIndexError')
    binders = ([('pi', 'S')] if ctx.used_pi else []) + [(b[0], b[1]) for b in spec['binders']]
    sig = ' '.join('(%s : %s)' % (n, COQ_TYPES[k]) for n, k in binders)
    # defaults of the python signature become constants of their own (tied by lemmas of P_gen_durations.v)
    inside, outside = [], []
    defaults = dict(zip(names[len(names) - len(fn.args.defaults):], fn.args.defaults))
    for n, dflt in defaults.items():
        k = spec['params'][n]
        if not isinstance(dflt, ast.Constant):
            fail(dflt, 'default of %s is not a constant' % n)
        if k == 'B':
            if not isinstance(dflt.value, bool):
                fail(dflt, 'default of %s is not True/False' % n)
            outside.append('Definition %s_default_%s : bool := %s.\n' % (spec['gen'], n, 'true' if dflt.value else 'false'))
        elif k == 'F':
            if dflt.value is not None:
                fail(dflt, 'default of %s is not None' % n)
            outside.append('Definition %s_default_%s_is_none : bool := true.\n' % (spec['gen'], n))
        elif k == 'S':
            inside.append('Definition %s_default_%s : T := %s.\n' % (spec['gen'], n, literal(dflt).term))
        else:
            fail(dflt, 'default for the %s parameter %s' % (k, n))
    pysig = ast.unparse(fn.args) if hasattr(ast, 'unparse') else ', '.join(names)
    text = '(** %s: %s(%s) *)\nDefinition %s %s : pyval T :=\n%s.\n' % (spec['file'], spec['func'], pysig, spec['gen'], sig, body)
    return text + ''.join(inside), outside


HEADER = '''(** GENERATED by translator/py2coq_durations.py from eqsig/im.py -- do not edit; rewritten on every run.
    One definition per source function, generic over [NumOps T]; total temporaries are substituted, every partial read
    ([v[0]], [v[-1]]: IndexError on an empty array) is a [match] on [py_first] / [py_last] in Python evaluation order whose
    [None] branch is what the raise leads to (PyIndexError, or the handler of the enclosing try).
    Inputs: a = the record (.values), dt = the time step, m = the motion array, lo / hi = start / end, thr = threshold,
    im = None | Some (the series returned by the user's callable on this signal), se = the start/end switch, pi = np.pi.
    proofs/P_gen_durations.v proves every definition equal to the model of model/M_im.v. *)
From Coq Require Import ZArith List Bool.
From EQ Require Import lib.Num lib.NpList lib.PyVal.
Import ListNotations.
Local Open Scope num_scope.

Section Generic.
Context {T : Type} `{NumOps T}.
'''


def translate_sources(read):
    """read(relative path) -> source text"""
    module = base.Module(SRC, read(SRC))
    if not builtin_untouched(module, 'IndexError'):
        raise Unsupported('%s: the module binds IndexError' % SRC)
    dep_ok = deprecation_imported(module)
    defs, consts = [], []
    for spec in SPECS:
        try:
            text, extra = translate_function(module, spec, dep_ok)
        except Unsupported as e:
            raise Unsupported('%s:%s: %s' % (spec['file'], spec['func'], e))
        defs.append(text)
        consts.extend(extra)
    return HEADER + '\n' + '\n'.join(defs) + 'End Generic.\n' + ('\n' + '\n'.join(consts) if consts else '')


def regenerate(repo=None, out=None):
    """returns True iff the file was rewritten; raises Unsupported / OSError / SyntaxError (fail closed).
    On failure the committed copy is left as it is: the caller reports the broken tie."""
    repo = repo or os.environ.get('EQSIG_REPO', '/repo')
    out = out or OUT
    text = translate_sources(lambda rel: open(os.path.join(repo, rel)).read())
    old = open(out).read() if os.path.exists(out) else None
    if old != text:
        os.makedirs(os.path.dirname(out), exist_ok=True)
        with open(out, 'w') as f:
            f.write(text)
        return True
    return False


def main():
    try:
        ch = regenerate(repo=sys.argv[1] if len(sys.argv) > 1 else None)
    except Exception as e:  # fail closed
        print('py2coq_durations: translation FAILED: %s: %s' % (type(e).__name__, e))
        return 1
    print('py2coq_durations: %s %s' % (os.path.relpath(OUT, VERIF), 'rewritten' if ch else 'unchanged'))
    return 0


if __name__ == '__main__':
    sys.exit(main())
