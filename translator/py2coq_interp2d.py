#!/venv/bin/python
"""Fail-closed translator of eqsig/fns/generic.py: interp2d  ->  coq/gen/Gen_interp2d.v              (property C20)

    interp2d(x, xf, f) -> gen_interp2d (x, xf 1-d float arrays, f a 2-d float array = list of rows)

The grammar is the one of translator/py2coq_helpers.py (imported, not modified: every assignment `name = e` is one
`let tK := e in`, K counting the assignments in textual order, so a renamed temporary gives byte-identical text) extended
by the shapes interp2d needs.  coq/proofs/P_gen_interp2d.v proves the generated definition equal to the hand-written model
`interp2d` of model/M_helpers.v (nearest-node bracketing, clipping, weight guard) for ALL inputs, so a changed operand /
index / literal / comparison / clip bound changes the generated term and breaks a proof obligation of Prop_C20.
Anything outside the whitelist raises `Unsupported` (= the tie is broken; the harness reports it).

additional shapes (kinds as in py2coq_helpers: I int, S float, V float array, IV int array, M 2-d float array, COL a column
`V[:, np.newaxis]`, BV bool array):
    COL - V                          -> np_outer_sub  (broadcast of a column against a row: one row per entry of the column)
    COL * M                          -> np_scale_rows (row i multiplied by entry i of the column)
    M + M                            -> np_madd
    V > I, V < I, V >= I, V <= I     -> BV, the int coerced by nofZ
    np.argmin(M, axis=1)             -> np_argmin_rows
    np.where(BV, IV, IV)             -> np_where (element-wise selection)
    np.where(BV, V, I | S)           -> np_where_vs (array where true, the scalar elsewhere)
    np.clip(IV, I, None) / np.clip(IV, None, I)   -> np_clip_lo_z / np_clip_hi_z  (Z.max / Z.min)
    np.clip(V, S, None)              -> np_clip_lo (np.maximum(v, lo))
    M[IV]                            -> np_take_rows (rows selected by an int array; the indices are proved non-negative:
                                        P_gen_interp2d.gen_interp2d_indices_nonneg, so numpy's wrap-around does not occur)
The readings are in lib/NpInterp.v.
"""
import ast, os, sys

HERE = os.path.dirname(os.path.abspath(__file__))
sys.path.insert(0, HERE)
import py2coq_numpy as base                                                   # noqa: E402
from py2coq_numpy import Unsupported, fail, par, dotted                        # noqa: E402
from py2coq_durations import builtin_untouched                                 # noqa: E402
import py2coq_helpers as H                                                     # noqa: E402
from py2coq_helpers import Val, tofloat, int_lit                               # noqa: E402

VERIF = os.path.dirname(HERE)
OUT = os.path.join(VERIF, 'coq', 'gen', 'Gen_interp2d.v')
GEN = 'eqsig/fns/generic.py'

SPEC = dict(file=GEN, func='interp2d', gen='gen_interp2d',
            params=[('x', 'V', 'qs'), ('xf', 'V', 'xs'), ('f', 'M', 'fm')], ret='M')
COQ_TYPES = dict(H.COQ_TYPES, M='list (list T)')


def is_none(n):
    return isinstance(n, ast.Constant) and n.value is None


class ICtx(H.HCtx):
    def binop(self, e, env):
        if type(e.op) in (ast.Sub, ast.Mult, ast.Add):
            x, y = self.expr(e.left, env), self.expr(e.right, env)
            if isinstance(e.op, ast.Sub) and x.kind == 'COL' and y.kind == 'V':
                return Val('M', 'np_outer_sub %s %s' % (par(x.term), par(y.term)), owned=True)
            if isinstance(e.op, ast.Mult) and x.kind == 'COL' and y.kind == 'M':
                return Val('M', 'np_scale_rows %s %s' % (par(x.term), par(y.term)), owned=True)
            if isinstance(e.op, ast.Add) and x.kind == 'M' and y.kind == 'M':
                return Val('M', 'np_madd %s %s' % (par(x.term), par(y.term)), owned=True)
            if 'COL' in (x.kind, y.kind) or (x.kind == 'M' and y.kind != 'COL') or y.kind == 'M':
                fail(e, 'operands %s %s %s' % (x.kind, type(e.op).__name__, y.kind))
        return H.HCtx.binop(self, e, env)

    def compare(self, e, env):
        if len(e.ops) == 1 and len(e.comparators) == 1:
            forms = {ast.Lt: ('<?', False), ast.Gt: ('<?', True), ast.LtE: ('<=?', False), ast.GtE: ('<=?', True)}
            if type(e.ops[0]) in forms:
                sym, swap = forms[type(e.ops[0])]
                x, y = self.expr(e.left, env), self.expr(e.comparators[0], env)
                if x.kind == 'V' and y.kind in ('I', 'S'):
                    s = par(tofloat(y).term)
                    body = '%s %s x' % (s, sym) if swap else 'x %s %s' % (sym, s)
                    return Val('BV', 'map (fun x => %s) %s' % (body, par(x.term)), owned=True)
        return H.HCtx.compare(self, e, env)

    def subscript(self, e, env):
        sl = e.slice
        if isinstance(sl, ast.Index):      # python < 3.9
            sl = sl.value
        if not isinstance(sl, (ast.Tuple, ast.Slice)) and int_lit(sl) is None:
            x = self.expr(e.value, env)
            if x.kind == 'M':
                i = self.expr(sl, env)
                if i.kind != 'IV':
                    fail(e, 'subscript of a 2-d array by a %s' % i.kind)
                return Val('M', 'np_take_rows %s %s' % (par(x.term), par(i.term)), owned=True)
        return H.HCtx.subscript(self, e, env)

    def call(self, e, env):
        d = dotted(e.func)
        if d in ('np.argmin', 'np.where', 'np.clip'):
            if d.split('.')[0] in env:
                fail(e, '%s is a local name' % d)
            self.need_np(e)
            args, kws = e.args, self.kwargs(e)
            if d == 'np.argmin' and kws:
                if len(args) != 1 or set(kws) != {'axis'} or int_lit(kws['axis']) != 1:
                    fail(e, 'np.argmin other than np.argmin(2-d, axis=1)')
                x = self.expr(args[0], env)
                if x.kind != 'M':
                    fail(e, 'np.argmin(., axis=1) of a %s' % x.kind)
                return Val('IV', 'np_argmin_rows %s' % par(x.term), owned=True)
            if d == 'np.where':
                if len(args) != 3 or kws:
                    fail(e, 'np.where arguments')
                c, a, b = [self.expr(t, env) for t in args]
                if c.kind != 'BV':
                    fail(e, 'np.where on a %s' % c.kind)
                if (a.kind, b.kind) == ('IV', 'IV'):
                    return Val('IV', 'np_where %s %s %s' % (par(c.term), par(a.term), par(b.term)), owned=True)
                if a.kind == 'V' and b.kind in ('I', 'S'):
                    return Val('V', 'np_where_vs %s %s %s' % (par(c.term), par(a.term), par(tofloat(b).term)), owned=True)
                if (a.kind, b.kind) == ('S', 'V'):
                    return H.HCtx.call(self, e, env)
                fail(e, 'np.where(BV, %s, %s)' % (a.kind, b.kind))
            if d == 'np.clip':
                if len(args) != 3 or kws:
                    fail(e, 'np.clip arguments')
                x = self.expr(args[0], env)
                lo, hi = args[1], args[2]
                if is_none(lo) == is_none(hi):
                    fail(e, 'np.clip with both / neither bound')
                if x.kind == 'IV':
                    bnd = self.expr(hi if is_none(lo) else lo, env)
                    if bnd.kind != 'I':
                        fail(e, 'np.clip of an int array by a %s' % bnd.kind)
                    return Val('IV', '%s %s %s' % ('np_clip_hi_z' if is_none(lo) else 'np_clip_lo_z', par(bnd.term), par(x.term)), owned=True)
                if x.kind == 'V' and is_none(hi):
                    bnd = tofloat(self.expr(lo, env))
                    if bnd.kind != 'S':
                        fail(e, 'np.clip of a float array by a %s' % bnd.kind)
                    return Val('V', 'np_clip_lo %s %s' % (par(bnd.term), par(x.term)), owned=True)
                fail(e, 'np.clip of a %s' % x.kind)
        return H.HCtx.call(self, e, env)


def translate_function(module, spec):
    fn = module.func(spec['func'])
    names = [a.arg for a in fn.args.args]
    if names != [p[0] for p in spec['params']] or fn.args.defaults:
        raise Unsupported('%s: parameters are %r (defaults: %d), expected %r without defaults'
                          % (spec['func'], names, len(fn.args.defaults), [p[0] for p in spec['params']]))
    for n in ast.walk(fn):
        if isinstance(n, (ast.AugAssign, ast.For, ast.While, ast.Try, ast.With, ast.Global, ast.Nonlocal, ast.Lambda, ast.Delete,
                          ast.FunctionDef, ast.ClassDef, ast.Yield, ast.YieldFrom, ast.Await, ast.ListComp, ast.GeneratorExp,
                          ast.If, ast.Assert, ast.Raise)) and n is not fn:
            fail(n, '%s: statement kind %s is not accepted' % (spec['func'], type(n).__name__))
    ctx = ICtx(module, spec, {})
    env = {}
    for n, kind, cn in spec['params']:
        if n in base.RESERVED or n in H.BUILTINS or cn in H.LAMBDA or cn.startswith('t') and cn[1:].isdigit():
            raise Unsupported('parameter named %s' % n)
        env[n] = Val(kind, cn)
        env[n].param = True
    items = []
    r = ctx.block(list(fn.body), env, items, top=True)
    if r is None:
        raise Unsupported('control reaches the end of %s without a return' % spec['func'])
    if isinstance(r, list) or r.kind != spec['ret'] or ctx.has_assert:
        raise Unsupported('%s: result kind differs from the expected %s' % (spec['func'], spec['ret']))
    sig = ' '.join('(%s : %s)' % (cn, COQ_TYPES[k]) for _, k, cn in spec['params'])
    pysig = ast.unparse(fn.args)
    return '(** %s: %s(%s) *)\nDefinition %s %s : %s :=\n%s.\n' % (
        spec['file'], spec['func'], pysig, spec['gen'], sig, COQ_TYPES[spec['ret']], H.render_top(items, r.term))


HEADER = '''(** GENERATED by translator/py2coq_interp2d.py from eqsig/fns/generic.py (interp2d) -- do not edit; rewritten on every
    run.  Generic over [NumOps T]; every assignment of the source is one [let tK] (K = its position in the text).  x, xf
    are [list T], f is the list of its rows, int arrays are [list Z], bool arrays [list bool].  The numpy readings are in
    lib/NpInterp.v (column/row broadcasting, argmin along axis 1, np.where, np.clip, row selection) and lib/NpHelpers.v.
    proofs/P_gen_interp2d.v proves the definition equal to [interp2d] of model/M_helpers.v for all inputs. *)
From Coq Require Import String.
From Coq Require Import ZArith List Bool.
From EQ Require Import lib.Num lib.NpList lib.NpHelpers lib.NpInterp.
Import ListNotations.
Local Open Scope num_scope.

Section Generic.
Context {T : Type} `{NumOps T}.
'''


def translate_sources(read):
    m = base.Module(GEN, read(GEN))
    for b in H.BUILTINS + ('float',):
        if not builtin_untouched(m, b):
            raise Unsupported('%s: the module binds %s' % (GEN, b))
    try:
        text = translate_function(m, SPEC)
    except Unsupported as e:
        raise Unsupported('%s:%s: %s' % (GEN, SPEC['func'], e))
    return HEADER + '\n' + text + 'End Generic.\n'


def regenerate(repo=None, out=None):
    """returns True iff the file was rewritten; raises Unsupported / OSError / SyntaxError (fail closed).
    On failure the committed copy is left as it is: the caller reports the broken tie."""
    repo = repo or os.environ.get('EQSIG_REPO', '/repo')
    out = out or OUT
    text = translate_sources(lambda rel: open(os.path.join(repo, rel)).read())
    old = open(out).read() if os.path.exists(out) else None
    if old != text:
        os.makedirs(os.path.dirname(out), exist_ok=True)
        tmp = '%s.%d.tmp' % (out, os.getpid())
        with open(tmp, 'w') as f:
            f.write(text)
        os.replace(tmp, out)
        return True
    return False


def main():
    try:
        ch = regenerate(repo=sys.argv[1] if len(sys.argv) > 1 else None)
    except Exception as e:  # fail closed
        print('py2coq_interp2d: translation FAILED: %s: %s' % (type(e).__name__, e))
        return 1
    print('py2coq_interp2d: %s %s' % (os.path.relpath(OUT, VERIF), 'rewritten' if ch else 'unchanged'))
    return 0


if __name__ == '__main__':
    sys.exit(main())
