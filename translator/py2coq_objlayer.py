#!/venv/bin/python
"""Fail-closed translator of the OBJECT LAYER of eqsig/single.py (classes Signal / AccSignal): the methods and lazy
properties that decide WHICH quantity is computed from WHICH fields and WHERE it is stored.

    C03  coq/gen/Gen_c03_obj.v   AccSignal.gen_response_spectrum -> gen_gen_response_spectrum
                                 AccSignal.generate_response_spectrum -> gen_generate_response_spectrum
                                 AccSignal.s_a / s_v / s_d (lazy getters) -> gen_s_a / gen_s_v / gen_s_d
    C08  coq/gen/Gen_c08_obj.v   AccSignal.generate_displacement_and_velocity_series -> gen_generate_dv
                                 AccSignal.velocity / displacement (lazy getters) -> gen_velocity / gen_displacement
                                 AccSignal.pga / pgv / pgd (memo getters: the computed quantity) -> gen_pga / gen_pgv / gen_pgd
    C07  coq/gen/Gen_c07_obj.v   Signal.gen_smooth_fa_spectrum -> gen_gen_smooth_fa_spectrum,  generate_smooth_fa_spectrum,
                                 the lazy getter smooth_fa_spectrum, the setters smooth_fa_freqs / smooth_fa_frequencies and
                                 set_smooth_fa_frequecies_by_range

Every method / getter / setter becomes one Gallina definition over an explicit record [obj] of the object fields it reads
or writes (fixed per property, listed in the SPEC below), obtained by SYMBOLIC EXECUTION of the body in continuation-passing
style: an `if` duplicates what follows it, `self.<property>` inlines the getter found along the MRO (AccSignal, then
Signal) -- so a lazy getter inside an expression unfolds into its `if not self._cached..` branches --, `self.<property> = e`
inlines the setter, `self.<method>(..)` inlines the method with the arguments bound as Python binds them (positional,
keyword, defaults of the signature), a partial reading (`v[k]`) is a `match nth_error v k` whose None branch is
`PyRaise IndexError`.  Every path ends in `PyOk (final record)` for a method / setter and `PyOk (final record, value)` for
a getter.  Functions of other modules are NOT translated here: they are parameters of the generated definitions (their own
properties tie them), applied to the operands of the source call in source order, every parameter given explicitly:
    interp_array_to_approx_dt(values, dt, target_dt, even=..)  -> IA        dh.pseudo_response_spectra(a, dt, T, xi) -> PRS
    sd.calc_velo_and_disp_from_accel_arr(a, dt, trap=..)       -> VD        im.calc_peak(v)                          -> PK
    calc_smooth_fa_spectrum(f, a, fs, band=..)                 -> SM        np.log10(seq) / np.logspace(a, b, n, base=10)
                                                                             -> LOG10 / LOGSPACE (C07 only)
and the module-level binding of each of these names is checked (import form and origin).
A local temporary is substituted or bound to `let tK` (K counting in path order), so a renamed temporary gives
byte-identical text.  Anything outside the whitelist raises `Unsupported` (the tie is broken; the harness reports it).

kinds   : S float (T) | I Python int (Z; coerced by nofZ next to a float; two int literals are compared statically) |
          V float array (list T) | B bool | OV array-or-None (option (list T)) | X a value of the abstract result type of
          an oracle | PAIR / TRIPLE an oracle result that the source unpacks | STR string literal | NONE
whitelist of statements: docstring; `if self.verbose: print(<literals>)` (no effect on the record: dropped; `verbose` must
          be a plain attribute); `name = e`; `a, b = <oracle call>`; `self.f = e` (a field of the record, or a property with
          a setter); `self.f, self.g, self.h = <oracle call>`; `if / elif / else`; `return e`; `self.m(..)`;
          `try: <stmts> except MemoryError: raise MemoryError(..)` (= <stmts>: the handler only re-words the same exception);
          the memo shape of pga / pgv / pgd: `if "<k>" in self._cached_params: return self._cached_params["<k>"] else:
          <name> = e; self._cached_params["<k>"] = <name>; return <name>` -> the value e (and the key, emitted as a constant;
          the memo dict itself is property C04's subject and is not part of the record)
conditions: `x is None` / `x is not None` on an OV; `not b` / `b` on a B; == != < <= > >= on floats / ints
expressions: names; int / float / None / bool literals; `self.<field>`; `self.<property>`; + - * / ; unary minus;
          `max(a, b)` of two floats (the builtin: a unless b is greater = nmax a b); `v[k]`, k a literal >= 0; `len(v)`;
          `int(x)` of an int; `np.array(v)` / `np.array(v, dtype=float)` (a copy: the same list); tuples in `return`.
"""
import ast, os, sys

HERE = os.path.dirname(os.path.abspath(__file__))
sys.path.insert(0, HERE)
import py2coq_numpy as base                                                   # noqa: E402
from py2coq_numpy import Unsupported, fail, dotted                             # noqa: E402
from py2coq_durations import builtin_untouched                                 # noqa: E402
from py2coq_c17 import par, PyModule, coq_string                               # noqa: E402

VERIF = os.path.dirname(HERE)
SRC = 'eqsig/single.py'
LET_MIN = 24

# ---------------------------------------------------------------- oracles: dotted name in the source -> description
# binding: how the head name must be bound at module level; params: names in the order of the callee's signature (every
# one must be given, positionally or by keyword); kinds of the operands; result kind
ORACLES = {
    'interp_array_to_approx_dt': dict(coq='IA', bind=('from', 'eqsig.fns.time_step', 'interp_array_to_approx_dt'),
                                      params=['values', 'dt', 'target_dt', 'even'], kinds=['V', 'S', 'S', 'B'], ret=('PAIR', 'V', 'S')),
    'dh.pseudo_response_spectra': dict(coq='PRS', bind=('import', 'eqsig.sdof', 'dh'),
                                       params=['motion', 'dt', 'periods', 'xi'], kinds=['V', 'S', 'V', 'S'], ret=('TRIPLE', 'X', 'X', 'X')),
    'sd.calc_velo_and_disp_from_accel_arr': dict(coq='VD', bind=('import', 'eqsig.displacements', 'sd'),
                                                 params=['acc', 'dt', 'trap'], kinds=['V', 'S', 'B'], ret=('PAIR', 'V', 'V')),
    'im.calc_peak': dict(coq='PK', bind=('from', 'eqsig', 'im'), params=['motion'], kinds=['V'], ret=('S',)),
    'calc_smooth_fa_spectrum': dict(coq='SM', bind=('from', 'eqsig.fns.frequency', 'calc_smooth_fa_spectrum'),
                                    params=['fa_frequencies', 'fa_spectrum', 'smooth_fa_frequencies', 'band'],
                                    kinds=['V', 'V', 'V', 'S'], ret=('V',)),
}
ORACLE_TYPES = {
    'IA': 'list T -> T -> T -> bool -> list T * T',
    'PRS': 'list T -> T -> list T -> T -> A * A * A',
    'VD': 'list T -> T -> bool -> list T * list T',
    'PK': 'list T -> T',
    'SM': 'list T -> list T -> list T -> T -> list T',
    'LOG10': 'list T -> list T',
    'LOGSPACE': 'T -> T -> Z -> list T',
}


class Val:
    def __init__(self, kind, term, lit=None, parts=None):
        self.kind, self.term, self.lit, self.parts = kind, term, lit, parts


def zl(k):
    return '%d%%Z' % k if k >= 0 else '(%d)%%Z' % k


def as_float(v, node):
    if v.kind == 'S':
        return v.term
    if v.kind == 'I':
        return 'nofZ %s' % par(v.term)
    fail(node, 'a %s where a float is needed' % v.kind)


def coerce(v, kind, node):
    """term of v read at the declared kind"""
    if kind == 'S':
        return as_float(v, node)
    if kind == 'OV':
        if v.kind == 'OV':
            return v.term
        if v.kind == 'NONE':
            return 'None'
        if v.kind == 'V':
            return 'Some %s' % par(v.term)
    if v.kind == kind:
        return v.term
    fail(node, 'a %s where a %s is needed' % (v.kind, kind))


# ---------------------------------------------------------------- the classes
class ClassModel:
    def __init__(self, module, names):
        self.module = module
        self.classes = {}
        for st in module.tree.body:
            if isinstance(st, ast.ClassDef) and st.name in names:
                if st.name in self.classes or st.decorator_list or st.keywords:
                    raise Unsupported('class %s defined twice / decorated' % st.name)
                self.classes[st.name] = st
        for n in names:
            if n not in self.classes:
                raise Unsupported('class %s not found' % n)
        # nothing at module level may patch the classes
        for st in module.tree.body:
            if isinstance(st, (ast.FunctionDef, ast.ClassDef, ast.Import, ast.ImportFrom)):
                continue
            for n in ast.walk(st):
                if isinstance(n, ast.Name) and n.id in names:
                    raise Unsupported('module-level statement refers to %s (line %s)' % (n.id, st.lineno))
        self.table = {}
        for cname, node in self.classes.items():
            t = {}
            for st in node.body:
                if isinstance(st, ast.FunctionDef):
                    t.setdefault(st.name, []).append(st)
                else:
                    for n in ast.walk(st):
                        if isinstance(n, ast.Name) and isinstance(n.ctx, (ast.Store, ast.Del)):
                            t.setdefault(n.id, []).append(None)      # a class attribute
            self.table[cname] = t

    def bases_ok(self, mro):
        for k, c in enumerate(mro):
            b = self.classes[c].bases
            want = mro[k + 1] if k + 1 < len(mro) else 'object'
            if len(b) != 1 or not isinstance(b[0], ast.Name) or b[0].id != want:
                raise Unsupported('class %s does not derive from %s only' % (c, want))

    def lookup(self, mro, name):
        """-> ('method', fn) | ('property', getter, setter or None) | ('classattr',) | None, as Python resolves it"""
        for c in mro:
            ds = self.table[c].get(name)
            if not ds:
                continue
            if any(d is None for d in ds):
                if len(ds) == 1:
                    return ('classattr',)
                raise Unsupported('%s.%s is bound more than once' % (c, name))
            getters = [d for d in ds if [dotted(x) for x in d.decorator_list] == ['property']]
            setters = [d for d in ds if [dotted(x) for x in d.decorator_list] == ['%s.setter' % name]]
            plain = [d for d in ds if not d.decorator_list]
            if len(getters) + len(setters) + len(plain) != len(ds):
                raise Unsupported('%s.%s: unsupported decorator' % (c, name))
            if plain:
                if len(ds) != 1:
                    raise Unsupported('%s.%s is bound more than once' % (c, name))
                return ('method', plain[0])
            if len(getters) != 1 or len(setters) > 1 or ds[0] is not getters[0]:
                raise Unsupported('%s.%s: not one getter followed by at most one setter' % (c, name))
            return ('property', getters[0], setters[0] if setters else None)
        return None


def check_binding(module, spec):
    """the head name of an oracle is bound exactly once at module level, by the expected import"""
    kind, mod, name = spec['bind']
    bound = name
    found = []
    for st in module.tree.body:
        if isinstance(st, ast.Import):
            for al in st.names:
                if (al.asname or al.name.split('.')[0]) == bound:
                    found.append(('import', al.name, al.asname))
        elif isinstance(st, ast.ImportFrom):
            for al in st.names:
                if al.name == '*':
                    raise Unsupported('module imports *')
                if (al.asname or al.name) == bound:
                    found.append(('from', st.module, al.name, al.asname, st.level))
        elif isinstance(st, (ast.FunctionDef, ast.ClassDef)):
            if st.name == bound:
                found.append(('def',))
        else:
            for n in ast.walk(st):
                if isinstance(n, ast.Name) and isinstance(n.ctx, (ast.Store, ast.Del)) and n.id == bound:
                    found.append(('assign',))
    if kind == 'import':
        ok = found == [('import', mod, name)]
    else:
        ok = found == [('from', mod, name, None, 0)]
    if not ok:
        raise Unsupported('%s is not bound by the expected import of %s (found %r)' % (bound, mod, found))


# ---------------------------------------------------------------- symbolic execution (continuation-passing)
class Eng:
    def __init__(self, module, cm, spec):
        self.m, self.cm, self.spec = module, cm, spec
        self.mro = spec['mro']
        self.nlet = 0
        self.nvar = 0
        self.depth = 0
        self.used_oracles = []
        self.memo_key = None

    # -------- helpers
    def fresh_let(self):
        self.nlet += 1
        return 't%d' % self.nlet

    def fresh_var(self):
        self.nvar += 1
        return 'k%d' % self.nvar

    def bind_let(self, val, k):
        """give a long term a name: ('let', t, term, k(Val t))"""
        if val.kind in ('S', 'V', 'I', 'X') and val.lit is None and len(val.term) > LET_MIN:
            t = self.fresh_let()
            return ('let', t, val.term, k(Val(val.kind, t)))
        return k(val)

    def need_np(self, node):
        if not self.m.np_ok:
            fail(node, 'np is not `import numpy as np`')

    # -------- expressions: ev(e, fr, k) with k(Val, fr) -> tree
    def ev(self, e, fr, k):
        env = fr['env']
        if isinstance(e, ast.Constant):
            v = e.value
            if v is None:
                return k(Val('NONE', 'None'), fr)
            if isinstance(v, bool):
                return k(Val('B', 'true' if v else 'false', lit=v), fr)
            if isinstance(v, int):
                if abs(v) > 10 ** 9:
                    fail(e, 'integer literal too large')
                return k(Val('I', zl(v), lit=v), fr)
            if isinstance(v, float):
                return k(Val('S', base.literal(e).term), fr)
            if isinstance(v, str):
                return k(Val('STR', coq_string(e, v), lit=v), fr)
            fail(e, 'literal %r' % (v,))
        if isinstance(e, ast.Name):
            if e.id in env:
                if env[e.id].kind == 'SELF':
                    fail(e, 'self used as a value')
                return k(env[e.id], fr)
            fail(e, 'unknown name %s' % e.id)
        if isinstance(e, ast.Attribute):
            if isinstance(e.value, ast.Name) and env.get(e.value.id) is not None and env[e.value.id].kind == 'SELF':
                return self.read_attr(e, fr, k)
            fail(e, 'attribute %s' % (dotted(e) or '?'))
        if isinstance(e, ast.UnaryOp) and isinstance(e.op, ast.USub):
            def after(x, f):
                if x.kind == 'I':
                    return k(Val('I', zl(-x.lit), lit=-x.lit) if x.lit is not None else Val('I', '(- %s)%%Z' % par(x.term)), f)
                if x.kind == 'S':
                    return k(Val('S', '- %s' % par(x.term)), f)
                fail(e, 'unary minus of a %s' % x.kind)
            return self.ev(e.operand, fr, after)
        if isinstance(e, ast.BinOp):
            ops = {ast.Add: '+', ast.Sub: '-', ast.Mult: '*', ast.Div: '/'}
            sym = ops.get(type(e.op))
            if sym is None:
                fail(e, 'binary operator %s' % type(e.op).__name__)

            def left(x, f1):
                def right(y, f2):
                    if x.kind == 'I' and y.kind == 'I':
                        if sym == '/':
                            fail(e, 'int / int')
                        return k(Val('I', '(%s %s %s)%%Z' % (par(x.term), sym, par(y.term))), f2)
                    if x.kind in ('S', 'I') and y.kind in ('S', 'I'):
                        return k(Val('S', '%s %s %s' % (par(as_float(x, e)), sym, par(as_float(y, e)))), f2)
                    fail(e, 'operands %s %s %s' % (x.kind, sym, y.kind))
                return self.ev(e.right, f1, right)
            return self.ev(e.left, fr, left)
        if isinstance(e, ast.Subscript):
            sl = e.slice
            if isinstance(sl, ast.Index):
                sl = sl.value
            if not (isinstance(sl, ast.Constant) and type(sl.value) is int and 0 <= sl.value <= 9):
                fail(e, 'subscript other than v[k], k a small non-negative literal')

            def after(x, f):
                if x.kind != 'V':
                    fail(e, 'subscript of a %s' % x.kind)
                opt = 'nth_error %s %d' % (par(x.term), sl.value)
                known = f['known'].get(opt)
                if known is not None:
                    return k(Val('S', known), f)
                v = self.fresh_var()
                f['known'][opt] = v
                return ('matchopt', opt, v, k(Val('S', v), f), ('leaf', 'PyRaise IndexError'))
            return self.ev(e.value, fr, after)
        if isinstance(e, ast.Call):
            return self.call(e, fr, k)
        if isinstance(e, ast.Tuple):
            fail(e, 'tuple in expression position')
        fail(e, 'expression %s' % type(e).__name__)

    def ev_list(self, es, fr, k):
        """evaluate left to right; k([Val], fr)"""
        def go(i, acc, f):
            if i == len(es):
                return k(acc, f)
            return self.ev(es[i], f, lambda v, f2: go(i + 1, acc + [v], f2))
        return go(0, [], fr)

    def read_attr(self, e, fr, k):
        name = e.attr
        r = self.cm.lookup(self.mro, name)
        if r is not None:
            if r[0] == 'property':
                if name in self.spec.get('opaque_props', {}):
                    kind, fld = self.spec['opaque_props'][name]
                    return k(fr['st'][fld], fr)
                return self.inline(r[1], [], {}, fr, k, e, want_value=True)
            if r[0] == 'method':
                fail(e, 'a bound method used as a value')
            # a class attribute: the instance attribute of the record shadows it
        if name in self.spec['fields']:
            return k(fr['st'][name], fr)
        fail(e, 'attribute self.%s is not a field of the record of %s' % (name, self.spec['id']))

    def call(self, e, fr, k):
        env = fr['env']
        d = dotted(e.func)
        if d is None or any(isinstance(a, ast.Starred) for a in e.args) or any(kw.arg is None for kw in e.keywords):
            fail(e, 'call form')
        kws = {kw.arg: kw.value for kw in e.keywords}
        head = d.split('.')[0]
        if head in env and env[head].kind != 'SELF':
            fail(e, 'call of the local name %s' % d)
        if d in ORACLES and d in self.spec['oracles']:
            o = ORACLES[d]
            if len(e.args) > len(o['params']) or set(kws) - set(o['params'][len(e.args):]):
                fail(e, 'arguments of %s' % d)
            given = dict(zip(o['params'], e.args))
            given.update(kws)
            if set(given) != set(o['params']):
                fail(e, '%s: every parameter must be given explicitly (missing %s)' % (d, sorted(set(o['params']) - set(given))))
            # Python evaluates positional arguments, then keyword arguments, in textual order
            order = list(e.args) + [kw.value for kw in e.keywords]
            names = o['params'][:len(e.args)] + [kw.arg for kw in e.keywords]

            def after(vals, f):
                byname = dict(zip(names, vals))
                terms = [par(coerce(byname[p], kd, e)) for p, kd in zip(o['params'], o['kinds'])]
                if o['coq'] not in self.used_oracles:
                    self.used_oracles.append(o['coq'])
                term = '%s %s' % (o['coq'], ' '.join(terms))
                ret = o['ret']
                if ret[0] in ('PAIR', 'TRIPLE'):
                    t = self.fresh_let()
                    if ret[0] == 'PAIR':
                        parts = [Val(ret[1], 'fst %s' % t), Val(ret[2], 'snd %s' % t)]
                    else:
                        parts = [Val(ret[1], 'fst (fst %s)' % t), Val(ret[2], 'snd (fst %s)' % t), Val(ret[3], 'snd %s' % t)]
                    return ('let', t, term, k(Val(ret[0], t, parts=parts), f))
                return k(Val(ret[0], term), f)
            return self.ev_list(order, fr, after)
        if d == 'max' and 'max' not in env:
            if len(e.args) != 2 or kws:
                fail(e, 'max other than max(a, b)')
            return self.ev_list(list(e.args), fr, lambda vs, f: k(Val('S', 'nmax %s %s' % (par(as_float(vs[0], e)), par(as_float(vs[1], e)))), f))
        if d == 'len' and 'len' not in env:
            if len(e.args) != 1 or kws:
                fail(e, 'len arguments')

            def after(x, f):
                if x.kind != 'V':
                    fail(e, 'len of a %s' % x.kind)
                return k(Val('I', 'Z.of_nat (length %s)' % par(x.term)), f)
            return self.ev(e.args[0], fr, after)
        if d == 'int' and 'int' not in env:
            if len(e.args) != 1 or kws:
                fail(e, 'int arguments')

            def after(x, f):
                if x.kind != 'I':
                    fail(e, 'int of a %s' % x.kind)
                return k(x, f)
            return self.ev(e.args[0], fr, after)
        if d == 'np.array':
            self.need_np(e)
            if len(e.args) != 1 or set(kws) - {'dtype'}:
                fail(e, 'np.array arguments')
            if 'dtype' in kws and not (isinstance(kws['dtype'], ast.Name) and kws['dtype'].id == 'float' and 'float' not in env):
                fail(e, 'np.array dtype')

            def after(x, f):
                if x.kind != 'V':
                    fail(e, 'np.array of a %s' % x.kind)
                return k(Val('V', x.term), f)
            return self.ev(e.args[0], fr, after)
        if d == 'np.log10' and 'LOG10' in self.spec.get('np_oracles', ()):
            self.need_np(e)
            if len(e.args) != 1 or kws:
                fail(e, 'np.log10 arguments')

            def after(x, f):
                if x.kind != 'V':
                    fail(e, 'np.log10 of a %s' % x.kind)
                if 'LOG10' not in self.used_oracles:
                    self.used_oracles.append('LOG10')
                return self.bind_let(Val('V', 'LOG10 %s' % par(x.term)), lambda v: k(v, f))
            return self.ev(e.args[0], fr, after)
        if d == 'np.logspace' and 'LOGSPACE' in self.spec.get('np_oracles', ()):
            self.need_np(e)
            if len(e.args) != 3 or set(kws) != {'base'} or not (isinstance(kws['base'], ast.Constant) and kws['base'].value == 10
                                                                 and type(kws['base'].value) is int):
                fail(e, 'np.logspace other than np.logspace(a, b, n, base=10)')

            def after(vs, f):
                if vs[2].kind != 'I':
                    fail(e, 'np.logspace count of kind %s' % vs[2].kind)
                if 'LOGSPACE' not in self.used_oracles:
                    self.used_oracles.append('LOGSPACE')
                return k(Val('V', 'LOGSPACE %s %s %s' % (par(as_float(vs[0], e)), par(as_float(vs[1], e)), par(vs[2].term))), f)
            return self.ev_list(list(e.args), fr, after)
        if isinstance(e.func, ast.Attribute) and isinstance(e.func.value, ast.Name) and env.get(e.func.value.id) is not None \
                and env[e.func.value.id].kind == 'SELF':
            r = self.cm.lookup(self.mro, e.func.attr)
            if r is None or r[0] != 'method':
                fail(e, 'self.%s is not a method' % e.func.attr)
            return self.inline(r[1], list(e.args), kws, fr, k, e, want_value=False)
        fail(e, 'call of %s' % d)

    # -------- inlining of methods / getters / setters
    def inline(self, fn, args, kws, fr, k, node, want_value, preset=None):
        """run the body of fn with its parameters bound; k(Val or None, fr) is called at each `return` / at the end"""
        if fr.get('depth', 0) > 6:
            fail(node, 'inlining too deep')
        a = fn.args
        if a.vararg or a.kwarg or a.kwonlyargs or getattr(a, 'posonlyargs', []) or not a.args:
            fail(fn, '%s: unsupported signature' % fn.name)
        names = [x.arg for x in a.args]
        pnames = names[1:]
        if len(args) > len(pnames) or set(kws) - set(pnames[len(args):]):
            fail(node, 'arguments of %s' % fn.name)
        defaults = dict(zip(names[len(names) - len(a.defaults):], a.defaults))
        given = dict(zip(pnames, args))
        given.update(kws)
        order = [p for p in pnames[:len(args)]] + list(kws)
        for n in ast.walk(fn):
            if isinstance(n, (ast.AugAssign, ast.For, ast.While, ast.With, ast.Global, ast.Nonlocal, ast.Lambda, ast.NamedExpr, ast.Delete,
                              ast.FunctionDef, ast.ClassDef, ast.Yield, ast.YieldFrom, ast.Await, ast.ListComp, ast.GeneratorExp,
                              ast.Assert)) and n is not fn:
                fail(n, '%s: statement kind %s is not accepted' % (fn.name, type(n).__name__))

        def after(vals, f):
            env = {names[0]: Val('SELF', None)}
            byname = dict(zip(order, vals))
            for p in pnames:
                if p in ('np', 'self') or p in ORACLES:
                    fail(fn, 'parameter named %s' % p)
                if preset and p in preset:
                    env[p] = preset[p]
                elif p in byname:
                    env[p] = byname[p]
                elif p in defaults:
                    dv = []
                    self.ev(defaults[p], {'env': {}, 'st': {}, 'known': {}}, lambda v, _f: dv.append(v) or ('leaf', ''))
                    if not dv or dv[0].kind not in ('NONE', 'I', 'S', 'B'):
                        fail(defaults[p], 'default of %s is not a literal' % p)
                    env[p] = dv[0]
                else:
                    fail(node, 'missing argument %s of %s' % (p, fn.name))
            callee = {'env': env, 'st': f['st'], 'known': f['known'], 'depth': fr.get('depth', 0) + 1}

            def ret(v, cf):
                caller = {'env': fr['env'], 'st': cf['st'], 'known': cf['known'], 'depth': fr.get('depth', 0)}
                # the caller's locals are immutable Vals: sharing the dict between the paths is safe only if nobody stores
                # into it later; every store copies (see assign)
                if want_value and v is None:
                    fail(fn, '%s: a path ends without returning a value' % fn.name)
                return k(v, caller)
            return self.run(list(fn.body), callee, ret)
        return self.ev_list([given[p] for p in order], fr, after)

    # -------- conditions: cond(t, fr, kt, kf)
    def cond(self, t, fr, kt, kf):
        if isinstance(t, ast.UnaryOp) and isinstance(t.op, ast.Not):
            return self.cond(t.operand, fr, kf, kt)
        if isinstance(t, ast.Compare):
            if len(t.ops) != 1:
                fail(t, 'chained comparison')
            op, c = t.ops[0], t.comparators[0]
            if isinstance(op, (ast.Is, ast.IsNot)):
                if not (isinstance(c, ast.Constant) and c.value is None):
                    fail(t, '`is` with something other than None')
                some, none = (kt, kf) if isinstance(op, ast.IsNot) else (kf, kt)

                def after(x, f):
                    if x.kind == 'NONE':
                        return none(f)
                    if x.kind == 'V':
                        return some(f)
                    if x.kind != 'OV':
                        fail(t, '`is None` test of a %s' % x.kind)
                    v = self.fresh_var()
                    fs, fn_ = self.copy(f), self.copy(f)
                    for fx, nv in ((fs, Val('V', v)), (fn_, Val('NONE', 'None'))):
                        for scope in (fx['env'], fx['st']):
                            for key, old in list(scope.items()):
                                if old is x:
                                    scope[key] = nv
                    return ('matchopt', x.term, v, some(fs), none(fn_))
                return self.ev(t.left, fr, after)

            def after2(vs, f):
                x, y = vs
                kinds = {ast.Eq, ast.NotEq, ast.Lt, ast.LtE, ast.Gt, ast.GtE}
                if type(op) not in kinds or x.kind not in ('S', 'I') or y.kind not in ('S', 'I'):
                    fail(t, 'comparison %s of %s with %s' % (type(op).__name__, x.kind, y.kind))
                if x.lit is not None and y.lit is not None and x.kind == 'I' and y.kind == 'I':
                    import operator
                    res = {ast.Eq: operator.eq, ast.NotEq: operator.ne, ast.Lt: operator.lt, ast.LtE: operator.le,
                           ast.Gt: operator.gt, ast.GtE: operator.ge}[type(op)](x.lit, y.lit)
                    return kt(f) if res else kf(f)
                a, b = par(as_float(x, t)), par(as_float(y, t))
                term = {ast.Eq: '%s =? %s' % (a, b), ast.NotEq: 'negb (%s =? %s)' % (a, b), ast.Lt: '%s <? %s' % (a, b),
                        ast.LtE: '%s <=? %s' % (a, b), ast.Gt: '%s <? %s' % (b, a), ast.GtE: '%s <=? %s' % (b, a)}[type(op)]
                return ('if', term, kt(self.copy(f)), kf(self.copy(f)))
            return self.ev_list([t.left, c], fr, after2)

        def afterb(x, f):
            if x.kind != 'B':
                fail(t, 'truth value of a %s' % x.kind)
            if x.lit is not None:
                return kt(f) if x.lit else kf(f)
            return ('if', x.term, kt(self.copy(f)), kf(self.copy(f)))
        return self.ev(t, fr, afterb)

    @staticmethod
    def copy(fr):
        return {'env': dict(fr['env']), 'st': dict(fr['st']), 'known': dict(fr['known']), 'depth': fr.get('depth', 0)}

    # -------- statements: run(stmts, fr, ret) ; ret(Val or None, fr) ends the body
    def is_print_only(self, body):
        for s in body:
            if not (isinstance(s, ast.Expr) and isinstance(s.value, ast.Call) and dotted(s.value.func) == 'print' and not s.value.keywords
                    and all(isinstance(a, ast.Constant) and isinstance(a.value, (str, int, float)) for a in s.value.args)):
                return False
        return bool(body)

    def store_field(self, name, val, fr, node, k):
        """self.<name> = val"""
        r = self.cm.lookup(self.mro, name)
        if r is not None and r[0] == 'property':
            if r[2] is None:
                fail(node, 'self.%s has no setter' % name)
            if name in self.spec.get('opaque_props', {}):
                fail(node, 'assignment to the opaque property %s' % name)
            setter = r[2]
            pn = [x.arg for x in setter.args.args]
            if len(pn) != 2:
                fail(setter, 'setter signature')
            return self.inline(setter, [], {}, fr, lambda _v, f: k(f), node, want_value=False, preset={pn[1]: val})
        if r is not None and r[0] == 'method':
            fail(node, 'assignment to the method %s' % name)
        if name not in self.spec['fields']:
            fail(node, 'self.%s is not a field of the record of %s' % (name, self.spec['id']))
        kind = self.spec['fields'][name][0]
        f2 = self.copy(fr)
        if kind == 'B':
            if val.kind != 'B':
                fail(node, 'a %s stored into the flag %s' % (val.kind, name))
            f2['st'][name] = val
            return k(f2)
        if kind == 'OV':
            f2['st'][name] = val if val.kind in ('OV', 'V', 'NONE') else fail(node, 'a %s stored into %s' % (val.kind, name))
            return k(f2)
        term = coerce(val, kind, node)

        def go(v):
            f2['st'][name] = v
            return k(f2)
        return self.bind_let(Val(kind, term), go)

    def run(self, stmts, fr, ret):
        if not stmts:
            return ret(None, fr)
        s, rest = stmts[0], list(stmts[1:])
        env = fr['env']
        if isinstance(s, ast.Pass) or (isinstance(s, ast.Expr) and isinstance(s.value, ast.Constant) and isinstance(s.value.value, str)):
            return self.run(rest, fr, ret)
        if isinstance(s, ast.Expr):
            if isinstance(s.value, ast.Call) and dotted(s.value.func) == 'deprecation' and self.spec.get('deprecation_ok'):
                if not (len(s.value.args) == 1 and isinstance(s.value.args[0], ast.Constant) and isinstance(s.value.args[0].value, str)
                        and not s.value.keywords):
                    fail(s, 'deprecation(..) form')
                return self.run(rest, fr, ret)
            if isinstance(s.value, ast.Call):
                return self.ev(s.value, fr, lambda _v, f: self.run(rest, f, ret))
            fail(s, 'expression statement')
        if isinstance(s, ast.Return):
            if s.value is None:
                return ret(None, fr)
            if isinstance(s.value, ast.Tuple):
                def aftert(vs, f):
                    if any(v.kind not in ('S', 'X', 'V') for v in vs):
                        fail(s, 'tuple of %s' % [v.kind for v in vs])
                    return ret(Val('TUP', '(%s)' % ', '.join(v.term for v in vs), parts=vs), f)
                return self.ev_list(list(s.value.elts), fr, aftert)
            return self.ev(s.value, fr, ret)
        if isinstance(s, ast.If):
            # `if self.verbose: print(..)`
            if self.is_print_only(s.body) and not s.orelse:
                t = s.test
                if not (isinstance(t, ast.Attribute) and isinstance(t.value, ast.Name) and env.get(t.value.id) is not None
                        and env[t.value.id].kind == 'SELF' and self.cm.lookup(self.mro, t.attr) is None
                        and t.attr in self.spec.get('inert', ())):
                    fail(s, 'a print guarded by something other than a plain inert attribute')
                return self.run(rest, fr, ret)
            memo = self.memo_shape(s, fr)
            if memo is not None:
                if rest:
                    fail(rest[0], 'statements after the memo `if`')
                return self.run(memo, fr, ret)
            return self.cond(s.test, fr,
                             lambda f: self.run(list(s.body) + rest, f, ret),
                             lambda f: self.run(list(s.orelse) + rest, f, ret))
        if isinstance(s, ast.Try):
            h = s.handlers
            if not (len(h) == 1 and not s.orelse and not s.finalbody and isinstance(h[0].type, ast.Name) and h[0].type.id == 'MemoryError'
                    and h[0].name is None and len(h[0].body) == 1 and isinstance(h[0].body[0], ast.Raise)
                    and isinstance(h[0].body[0].exc, ast.Call) and dotted(h[0].body[0].exc.func) == 'MemoryError'
                    and h[0].body[0].cause is None and 'MemoryError' not in env):
                fail(s, 'try statement other than `except MemoryError: raise MemoryError(..)`')
            for n in ast.walk(s):
                if isinstance(n, (ast.Return, ast.If)) and any(n is x for b in s.body for x in ast.walk(b)):
                    fail(n, 'return / if inside the try body')
            return self.run(list(s.body) + rest, fr, ret)
        if isinstance(s, ast.Assign):
            if len(s.targets) != 1:
                fail(s, 'multiple assignment')
            t = s.targets[0]
            if isinstance(t, ast.Name):
                if t.id in ('np', 'self') or t.id in ORACLES or (t.id in env and env[t.id].kind == 'SELF'):
                    fail(s, 'assignment to %s' % t.id)

                def after(v, f):
                    if v.kind in ('PAIR', 'TRIPLE', 'TUP', 'SELF'):
                        fail(s, 'a %s bound to one name' % v.kind)

                    def go(v2):
                        f2 = self.copy(f)
                        f2['env'][t.id] = v2
                        return self.run(rest, f2, ret)
                    return self.bind_let(v, go)
                return self.ev(s.value, fr, after)
            if isinstance(t, ast.Tuple):
                def aftert(v, f):
                    if v.kind not in ('PAIR', 'TRIPLE') or len(v.parts) != len(t.elts):
                        fail(s, 'unpacking of a %s into %d targets' % (v.kind, len(t.elts)))

                    def go(i, f1):
                        if i == len(t.elts):
                            return self.run(rest, f1, ret)
                        x = t.elts[i]
                        if isinstance(x, ast.Name):
                            if x.id in ('np', 'self') or x.id in ORACLES or (x.id in f1['env'] and f1['env'][x.id].kind == 'SELF'):
                                fail(s, 'assignment to %s' % x.id)
                            f2 = self.copy(f1)
                            f2['env'][x.id] = v.parts[i]
                            return go(i + 1, f2)
                        if (isinstance(x, ast.Attribute) and isinstance(x.value, ast.Name) and f1['env'].get(x.value.id) is not None
                                and f1['env'][x.value.id].kind == 'SELF'):
                            return self.store_field(x.attr, v.parts[i], f1, s, lambda f2: go(i + 1, f2))
                        fail(s, 'unpacking target')
                    return go(0, f)
                return self.ev(s.value, fr, aftert)
            if isinstance(t, ast.Attribute) and isinstance(t.value, ast.Name) and env.get(t.value.id) is not None and env[t.value.id].kind == 'SELF':
                return self.ev(s.value, fr, lambda v, f: self.store_field(t.attr, v, f, s, lambda f2: self.run(rest, f2, ret)))
            fail(s, 'assignment target')
        fail(s, 'statement %s' % type(s).__name__)

    def memo_shape(self, s, fr):
        """the pga / pgv / pgd getter: -> the statements that compute the value (`name = e; return name`), else None"""
        t = s.test
        memo = self.spec.get('memo')
        if not (memo and isinstance(t, ast.Compare) and len(t.ops) == 1 and isinstance(t.ops[0], ast.In)
                and isinstance(t.left, ast.Constant) and isinstance(t.left.value, str)):
            return None
        key = t.left.value
        selfname = [n for n, v in fr['env'].items() if v.kind == 'SELF']
        if len(selfname) != 1:
            fail(s, 'memo shape: self')
        me = selfname[0]
        want_dict = ast.dump(ast.parse('%s.%s' % (me, memo), mode='eval').body)
        if ast.dump(t.comparators[0]) != want_dict or self.cm.lookup(self.mro, memo) is not None:
            fail(s, 'memo shape: the dictionary is not the plain attribute self.%s' % memo)
        want_hit = ast.dump(ast.parse('return %s.%s[%r]' % (me, memo, key)).body[0])
        if len(s.body) != 1 or ast.dump(s.body[0]) != want_hit:
            fail(s, 'memo shape: the hit branch does not return self.%s[%r]' % (memo, key))
        body = list(s.orelse)
        if len(body) != 3 or not (isinstance(body[0], ast.Assign) and len(body[0].targets) == 1 and isinstance(body[0].targets[0], ast.Name)):
            fail(s, 'memo shape: the miss branch is not `name = e; self.%s[key] = name; return name`' % memo)
        name = body[0].targets[0].id
        want_store = ast.dump(ast.parse('%s.%s[%r] = %s' % (me, memo, key, name)).body[0])
        want_ret = ast.dump(ast.parse('return %s' % name).body[0])
        if ast.dump(body[1]) != want_store or ast.dump(body[2]) != want_ret:
            fail(s, 'memo shape: the miss branch does not store and return the computed value under the key %r' % key)
        if self.memo_key is not None and self.memo_key != key:
            fail(s, 'two memo keys in one getter')
        self.memo_key = key
        return [body[0], body[2]]


def render(tree, ind=2):
    sp = ' ' * ind
    k = tree[0]
    if k == 'leaf':
        return sp + tree[1]
    if k == 'if':
        return '%sif %s then\n%s\n%selse\n%s' % (sp, tree[1], render(tree[2], ind + 2), sp, render(tree[3], ind + 2))
    if k == 'let':
        return '%slet %s := %s in\n%s' % (sp, tree[1], tree[2], render(tree[3], ind))
    if k == 'matchopt':
        return '%smatch %s with\n%s| Some %s =>\n%s\n%s| None =>\n%s\n%send' % (
            sp, tree[1], sp, tree[2], render(tree[3], ind + 4), sp, render(tree[4], ind + 4), sp)
    raise Unsupported('internal: tree %r' % (k,))


# ---------------------------------------------------------------- specs
# fields: python attribute -> (kind, coq projection); order = order of the record
C03 = dict(
    id='C03', out='Gen_c03_obj.v', mro=['AccSignal', 'Signal'], inert=('verbose',), abstract=True,
    fields={'_values': ('V', 'o_values'), '_dt': ('S', 'o_dt'), '_response_times': ('V', 'o_response_times'),
            '_cached_response_spectra': ('B', 'o_cached_rs'), '_cached_xi': ('S', 'o_cached_xi'),
            '_s_d': ('X', 'o_s_d'), '_s_v': ('X', 'o_s_v'), '_s_a': ('X', 'o_s_a')},
    oracles=['interp_array_to_approx_dt', 'dh.pseudo_response_spectra'],
    items=[
        dict(kind='method', name='gen_response_spectrum', gen='gen_gen_response_spectrum',
             params=[('response_times', 'OV', 'response_times'), ('xi', 'S', 'xi'), ('min_dt_ratio', 'S', 'min_dt_ratio')]),
        dict(kind='method', name='generate_response_spectrum', gen='gen_generate_response_spectrum',
             params=[('response_times', 'OV', 'response_times'), ('xi', 'S', 'xi'), ('min_dt_ratio', 'S', 'min_dt_ratio')]),
        dict(kind='getter', name='s_a', gen='gen_s_a', ret='X'),
        dict(kind='getter', name='s_v', gen='gen_s_v', ret='X'),
        dict(kind='getter', name='s_d', gen='gen_s_d', ret='X'),
    ])
C08 = dict(
    id='C08', out='Gen_c08_obj.v', mro=['AccSignal', 'Signal'], inert=('verbose',), abstract=False, memo='_cached_params',
    fields={'_values': ('V', 'o_values'), '_dt': ('S', 'o_dt'), '_velocity': ('V', 'o_velocity'),
            '_displacement': ('V', 'o_displacement'), '_cached_disp_and_velo': ('B', 'o_cached_dv')},
    oracles=['sd.calc_velo_and_disp_from_accel_arr', 'im.calc_peak'],
    items=[
        dict(kind='method', name='generate_displacement_and_velocity_series', gen='gen_generate_dv', params=[('trap', 'B', 'trap')]),
        dict(kind='getter', name='velocity', gen='gen_velocity', ret='V'),
        dict(kind='getter', name='displacement', gen='gen_displacement', ret='V'),
        dict(kind='getter', name='pga', gen='gen_pga', ret='S', memo=True),
        dict(kind='getter', name='pgv', gen='gen_pgv', ret='S', memo=True),
        dict(kind='getter', name='pgd', gen='gen_pgd', ret='S', memo=True),
    ])
C07 = dict(
    id='C07', out='Gen_c07_obj.v', mro=['Signal'], subclasses=['AccSignal'], inert=('verbose',), abstract=False, np_oracles=('LOG10', 'LOGSPACE'),
    opaque_props={'fa_freqs': ('V', '$fa_freqs'), 'fa_spectrum': ('V', '$fa_spectrum')},
    fields={'$fa_freqs': ('V', 'o_fa_freqs'), '$fa_spectrum': ('V', 'o_fa_spectrum'),
            '_smooth_fa_freqs': ('V', 'o_smooth_fa_freqs'), '_smooth_fa_spectrum': ('V', 'o_smooth_fa_spectrum'),
            '_smooth_freq_range': ('V', 'o_smooth_freq_range'), '_cached_smooth_fa': ('B', 'o_cached_smooth_fa')},
    oracles=['calc_smooth_fa_spectrum'],
    items=[
        dict(kind='method', name='gen_smooth_fa_spectrum', gen='gen_gen_smooth_fa_spectrum',
             params=[('smooth_fa_freqs', 'OV', 'smooth_fa_freqs'), ('band', 'S', 'band')]),
        dict(kind='method', name='generate_smooth_fa_spectrum', gen='gen_generate_smooth_fa_spectrum', params=[('band', 'S', 'band')]),
        dict(kind='getter', name='smooth_fa_spectrum', gen='gen_smooth_fa_spectrum_get', ret='V'),
        dict(kind='getter', name='smooth_fa_freqs', gen='gen_smooth_fa_freqs_get', ret='V'),
        dict(kind='getter', name='smooth_fa_frequencies', gen='gen_smooth_fa_frequencies_get', ret='V'),
        dict(kind='setter', name='smooth_fa_freqs', gen='gen_set_smooth_fa_freqs', params=[('freqs', 'V', 'freqs')]),
        dict(kind='setter', name='smooth_fa_frequencies', gen='gen_set_smooth_fa_frequencies', params=[('frequencies', 'V', 'frequencies')]),
        dict(kind='method', name='set_smooth_fa_frequecies_by_range', gen='gen_set_smooth_fa_frequecies_by_range',
             params=[('limits', 'V', 'limits'), ('n_points', 'I', 'n_points')]),
    ])
SPECS = {'C03': C03, 'C08': C08, 'C07': C07}
COQ_KIND = {'S': 'T', 'V': 'list T', 'B': 'bool', 'OV': 'option (list T)', 'I': 'Z', 'X': 'A'}


def translate_item(module, cm, spec, item):
    eng = Eng(module, cm, spec)
    r = cm.lookup(spec['mro'], item['name'])
    if r is None:
        raise Unsupported('%s not found' % item['name'])
    if item['kind'] == 'method':
        if r[0] != 'method':
            raise Unsupported('%s is not a plain method' % item['name'])
        fn = r[1]
    elif item['kind'] == 'getter':
        if r[0] != 'property':
            raise Unsupported('%s is not a property' % item['name'])
        fn = r[1]
    else:
        if r[0] != 'property' or r[2] is None:
            raise Unsupported('%s has no setter' % item['name'])
        fn = r[2]
    names = [x.arg for x in fn.args.args]
    params = item.get('params', [])
    if names[1:] != [p[0] for p in params]:
        raise Unsupported('%s: parameters are %r, expected %r' % (item['name'], names[1:], [p[0] for p in params]))
    st = {f: Val(kd, '%s st' % proj) for f, (kd, proj) in spec['fields'].items()}
    preset = {p: Val(kd, cn) for p, kd, cn in params}
    for p, kd, cn in params:
        if cn == 'st' or cn in ORACLE_TYPES or (cn[0] in 'tk' and cn[1:].isdigit()):
            raise Unsupported('binder name %s' % cn)
    fields = list(spec['fields'])

    def leaf(v, f):
        rec = 'mk_obj %s' % ' '.join(par(coerce_field(f['st'][x], spec['fields'][x][0], fn)) for x in fields)
        if item['kind'] == 'getter':
            if v is None:
                fail(fn, 'the getter does not return a value')
            want = item['ret']
            if want == 'S':
                vt = as_float(v, fn)
            elif v.kind != want:
                fail(fn, 'the getter returns a %s, expected %s' % (v.kind, want))
            else:
                vt = v.term
            return ('leaf', 'PyOk (%s, %s)' % (rec, vt))
        if v is not None:
            fail(fn, 'the method returns a value')
        return ('leaf', 'PyOk (%s)' % rec)
    top = {'env': {}, 'st': st, 'known': {}}
    tree = eng.inline(fn, [], {}, top, leaf, fn, want_value=(item['kind'] == 'getter'), preset=preset)
    if item.get('memo') and eng.memo_key is None:
        raise Unsupported('%s: the memo shape was not found' % item['name'])
    orc = [o for o in ORACLE_TYPES if o in eng.used_oracles]
    binders = ''.join('(%s : %s) ' % (o, ORACLE_TYPES[o]) for o in orc) + ''.join('(%s : %s) ' % (cn, COQ_KIND[kd]) for _, kd, cn in params)
    rty = 'obj' if item['kind'] != 'getter' else 'obj * %s' % COQ_KIND[item['ret']]
    pysig = ast.unparse(fn.args)
    deco = {'method': '', 'getter': ' [property]', 'setter': ' [setter]'}[item['kind']]
    text = '(** %s: %s.%s(%s)%s *)\nDefinition %s %s(st : obj) : pyres (%s) :=\n%s.\n' % (
        SRC, spec['mro'][0], item['name'], pysig, deco, item['gen'], binders, rty, render(tree))
    consts = []
    if item.get('memo'):
        consts.append('Definition %s_memo_key : string := %s.\n' % (item['gen'], coq_string(fn, eng.memo_key)))
    # defaults of the signature
    a = fn.args
    defaults = dict(zip(names[len(names) - len(a.defaults):], a.defaults))
    for p, kd, cn in params:
        if p in defaults:
            d = defaults[p]
            if isinstance(d, ast.Constant) and d.value is None and kd == 'OV':
                consts.append('Definition %s_default_%s_is_none : bool := true.\n' % (item['gen'], p))
            elif isinstance(d, ast.Constant) and isinstance(d.value, bool) and kd == 'B':
                consts.append('Definition %s_default_%s : bool := %s.\n' % (item['gen'], p, 'true' if d.value else 'false'))
            else:
                k = None
                if isinstance(d, ast.Constant) and type(d.value) is int:
                    k = d.value
                elif (isinstance(d, ast.UnaryOp) and isinstance(d.op, ast.USub) and isinstance(d.operand, ast.Constant)
                      and type(d.operand.value) is int):
                    k = -d.operand.value
                if k is None or abs(k) > 10 ** 9 or kd not in ('S', 'I'):
                    fail(d, 'default of %s' % p)
                consts.append('Definition %s_default_%s : Z := %s.\n' % (item['gen'], p, zl(k)))
    return text, consts


def coerce_field(v, kind, node):
    if kind == 'OV':
        return coerce(v, 'OV', node)
    return coerce(v, kind, node)


def header(spec):
    fields = spec['fields']
    rec = '; '.join('%s : %s' % (proj, COQ_KIND[kd]) for _, (kd, proj) in fields.items())
    doc = ', '.join('%s = self.%s' % (proj, f.replace('$', '')) for f, (kd, proj) in fields.items())
    abstract = 'Variable A : Type.   (* the type of one spectrum as returned by the oracle PRS *)\n' if spec['abstract'] else ''
    return '''(** GENERATED by translator/py2coq_objlayer.py from eqsig/single.py (object layer, property %s) -- do not edit;
    rewritten on every run.  One definition per method / lazy getter / setter, generic over [NumOps T], by symbolic
    execution over the record [obj] of the fields it reads or writes (%s).
    An [if] duplicates what follows it; [self.<property>] / [self.<method>(..)] are inlined along the MRO; [v[k]] is a
    [match nth_error v k] whose None branch is [PyRaise IndexError]; every path ends in [PyOk (final record)] (method, setter)
    or [PyOk (final record, returned value)] (getter).  Functions of other modules are the function parameters (IA, PRS,
    VD, PK, SM, LOG10, LOGSPACE: see the translator), applied to the operands of the source call in the order of the callee's
    signature.  proofs/P_gen_%s_obj.v relates every definition to the hand model. *)
From Coq Require Import String.
From Coq Require Import ZArith List Bool.
From EQ Require Import lib.Num lib.NpList lib.PyRes.
Import ListNotations.
Local Open Scope num_scope.

Section Generic.
Context {T : Type} `{NumOps T}.
%sRecord obj : Type := mk_obj { %s }.
''' % (spec['id'], doc, spec['id'].lower(), abstract, rec)


def translate_sources(read, pid):
    spec = SPECS[pid]
    module = PyModule(SRC, read(SRC))
    for b in ('len', 'max', 'int', 'print', 'float', 'MemoryError'):
        if not builtin_untouched(module, b):
            raise Unsupported('%s: the module binds %s' % (SRC, b))
    if not module.np_ok:
        raise Unsupported('%s: np is not `import numpy as np`' % SRC)
    cm = ClassModel(module, set(spec['mro']) | set(spec.get('subclasses', ())))
    cm.bases_ok(spec['mro'])
    # the theorems are read for objects of the subclasses too: they must not override what is translated / inlined here
    for sub in spec.get('subclasses', ()):
        b = cm.classes[sub].bases
        if len(b) != 1 or not isinstance(b[0], ast.Name) or b[0].id != spec['mro'][0]:
            raise Unsupported('class %s does not derive from %s only' % (sub, spec['mro'][0]))
        for name in [it['name'] for it in spec['items']] + list(spec.get('opaque_props', ())) + list(spec.get('also_not_overridden', ())):
            if cm.table[sub].get(name):
                raise Unsupported('%s overrides %s' % (sub, name))
    for o in spec['oracles']:
        check_binding(module, ORACLES[o])
    for f in spec.get('inert', ()):
        if cm.lookup(spec['mro'], f) is not None:
            raise Unsupported('%s is not a plain attribute' % f)
    defs, consts = [], []
    for item in spec['items']:
        try:
            text, extra = translate_item(module, cm, spec, item)
        except Unsupported as e:
            raise Unsupported('%s:%s.%s: %s' % (SRC, spec['mro'][0], item['name'], e))
        defs.append(text)
        consts.extend(extra)
    return header(spec) + '\n' + '\n'.join(defs) + 'End Generic.\n' + ('\n' + ''.join(consts) if consts else '')


def regenerate_for(pid, repo=None, out=None):
    """returns True iff the file was rewritten; raises Unsupported / OSError / SyntaxError (fail closed).
    On failure the committed copy is left as it is: the caller reports the broken tie."""
    repo = repo or os.environ.get('EQSIG_REPO', '/repo')
    out = out or os.path.join(VERIF, 'coq', 'gen', SPECS[pid]['out'])
    text = translate_sources(lambda rel: open(os.path.join(repo, rel)).read(), pid)
    old = open(out).read() if os.path.exists(out) else None
    if old != text:
        os.makedirs(os.path.dirname(out), exist_ok=True)
        tmp = '%s.%d.tmp' % (out, os.getpid())
        with open(tmp, 'w') as f:
            f.write(text)
        os.replace(tmp, out)
        return True
    return False


def regenerate_c03(repo=None, out=None):
    return regenerate_for('C03', repo, out)


def regenerate_c08(repo=None, out=None):
    return regenerate_for('C08', repo, out)


def regenerate_c07(repo=None, out=None):
    return regenerate_for('C07', repo, out)


ENABLED = ['C03', 'C08', 'C07']


def regenerate(repo=None, out=None):
    ch = False
    for pid in ENABLED:
        ch = regenerate_for(pid, repo, None) or ch
    return ch


def main():
    rc = 0
    for pid in (sys.argv[2:] or ENABLED):
        try:
            ch = regenerate_for(pid, repo=sys.argv[1] if len(sys.argv) > 1 and sys.argv[1] != '-' else None)
            print('py2coq_objlayer: coq/gen/%s %s' % (SPECS[pid]['out'], 'rewritten' if ch else 'unchanged'))
        except Exception as e:  # fail closed
            print('py2coq_objlayer: translation of %s FAILED: %s: %s' % (pid, type(e).__name__, e))
            rc = 1
    return rc


if __name__ == '__main__':
    sys.exit(main())
