#!/venv/bin/python
"""Fail-closed translator of the time-step functions (property C14)  ->  coq/gen/Gen_c14.v

    eqsig/fns/time_step.py  interp_array_to_approx_dt(values, dt, target_dt=0.01, even=True) -> gen_interp_array_to_approx_dt
                            interp_to_approx_dt(asig, target_dt=0.01, even=True)              -> gen_interp_to_approx_dt
                            resample_to_approx_dt(asig, target_dt=0.01, even=True)            -> gen_resample_to_approx_dt

The generated definitions are generic over a record [FlOps F] of float operations (division, product, int -> float
conversion, ==, <, floor, ceil, int()) and are read twice by coq/proofs/P_gen_c14.v: with the exact operations of
[NumOps R] (-> the generic layer of model/M_timestep.v: factor_kind, fac_val, npts_raw, new_npts, interp_at, interp_approx,
rs_count, new_npts_rs, resample_approx) and with the binary64 operations of lib/B64.v (-> factor_b64, newdt_b64,
npts_raw_b64, npts_b64, rs_count_b64, npts_rs_b64).  Python's int / float distinction is NOT resolved here: every number is
a [pynum F] (PInt z | PFloat x) and the arithmetic of the mixed cases is the Gallina text in the header of the generated file.
NOT translated (variables of the generated Section): np.interp ([interp_]) and scipy.signal.resample ([resample_]).

Each function body is executed symbolically, statement by statement.  Every assignment becomes a `let` whose name is the
position of the assignment on its path (t1, t2, ...), so a renamed temporary gives the same text; an `if` duplicates the rest
of the body into both branches (no joins).  Anything outside the whitelist raises `Unsupported`; a changed operand, operator,
literal, comparison or call is translated faithfully and breaks a proof of P_gen_c14.v.

values      : N number (pynum) | I number that is syntactically an int (int literal, int(..), len(..), .npts, products of
              those) | NONE the literal None | B boolean parameter | A float array (list F) | PA array of numbers
              (list (pynum F)) | OBJ the signal object | T2 the pair returned by interp_array_to_approx_dt
expressions : names; int literals -> PInt k; `a / b` -> py_div; `a * b` -> py_mul; PA / N -> arr_div;
              `int(np.ceil(e))` -> py_int_ceil; `int(e)` -> py_int; `np.floor(e)` -> np_floor; `len(A)`, `o.npts` -> py_len;
              `np.arange(e)` -> np_arange; `np.interp(PA, PA, A)` -> interp_ (arr_f ..) (arr_f ..) ..;
              `resample(A, I)` after the local `from scipy.signal import resample` -> resample_ .. (py_idx ..);
              `A[:I]` -> firstn (py_idx ..) ..; `o.values`, `o.dt` -> the inputs values, PFloat dt;
              `interp_array_to_approx_dt(o.values, o.dt, target_dt=<target_dt>, even=<even>)` -> the generated definition;
              `eqsig.AccSignal(A, N)` (only as the returned expression) -> AccSignal.
statements  : docstring; `pass`; the local import; `name = e`; `a, b = <call of interp_array_to_approx_dt>`;
              `if e == e:` / `if e > e:` on numbers -> py_eqb / py_gtb; `if b:` on the boolean parameter;
              `if name is not None:` where the name holds, on this path, the literal None or a number (decided per path);
              `return A, N`; `return eqsig.AccSignal(A, N)`.
"""
import ast, os, sys
from fractions import Fraction

HERE = os.path.dirname(os.path.abspath(__file__))
sys.path.insert(0, HERE)
from py2coq_numpy import Unsupported, fail, dotted                     # noqa: E402
from py2coq_durations import builtin_untouched                        # noqa: E402
import py2coq_c06 as c06                                              # noqa: E402

VERIF = os.path.dirname(HERE)
OUT = os.path.join(VERIF, 'coq', 'gen', 'Gen_c14.v')
SRC = 'eqsig/fns/time_step.py'
RESERVED = {'np', 'numpy', 'int', 'len', 'range', 'eqsig', 'resample', 'True', 'False', 'None',
            'interp_array_to_approx_dt', 'interp_to_approx_dt', 'resample_to_approx_dt'}
ARRAY_FN = 'interp_array_to_approx_dt'

SPECS = [
    dict(func='interp_array_to_approx_dt', gen='gen_interp_array_to_approx_dt',
         params=[('values', 'A'), ('dt', 'N'), ('target_dt', 'N'), ('even', 'B')], ret='T2', rtype='list F * pynum F'),
    dict(func='interp_to_approx_dt', gen='gen_interp_to_approx_dt',
         params=[('asig', 'OBJ'), ('target_dt', 'N'), ('even', 'B')], ret='SIG', rtype='list F * F'),
    dict(func='resample_to_approx_dt', gen='gen_resample_to_approx_dt',
         params=[('asig', 'OBJ'), ('target_dt', 'N'), ('even', 'B')], ret='SIG', rtype='list F * F'),
]
BINDERS = '(even : bool) (values : list F) (dt target_dt : F)'
COQ_INPUT = {'values': 'values', 'dt': 'PFloat dt', 'target_dt': 'PFloat target_dt', 'even': 'even'}


class Val:
    def __init__(self, kind, t):
        self.kind, self.t = kind, t


def par(t):
    return t if t.replace('_', 'a').isalnum() else '(%s)' % t


def zlit(k):
    return '%d' % k if k >= 0 else '(%d)' % k


def int_const(e):
    return isinstance(e, ast.Constant) and type(e.value) is int


def num(v):
    return v.kind in ('N', 'I')


# ---------------------------------------------------------------- module-level checks
def check_module14(tree):
    c06.check_module(tree, SRC)                                   # np is numpy; int / len / range are the builtins

    class M:
        pass
    m = M()
    m.tree = tree
    if not builtin_untouched(m, 'resample'):
        raise Unsupported('%s: the module binds resample' % SRC)
    # eqsig is `import eqsig` and nothing else
    sites = 0
    for n in ast.walk(tree):
        if isinstance(n, ast.Import):
            for al in n.names:
                if (al.asname or al.name.split('.')[0]) == 'eqsig':
                    if al.name != 'eqsig' or al.asname not in (None, 'eqsig') or n not in tree.body:
                        fail(n, 'eqsig is bound by `import %s`' % al.name)
                    sites += 1
        elif isinstance(n, ast.ImportFrom):
            for al in n.names:
                if (al.asname or al.name) == 'eqsig' or al.name == '*':
                    fail(n, 'eqsig / * imported by from-import')
        elif isinstance(n, (ast.FunctionDef, ast.ClassDef, ast.AsyncFunctionDef)) and n.name == 'eqsig':
            fail(n, 'the module defines eqsig')
        elif isinstance(n, ast.Name) and isinstance(n.ctx, (ast.Store, ast.Del)) and n.id == 'eqsig':
            fail(n, 'the module assigns eqsig')
        elif isinstance(n, (ast.Global, ast.Nonlocal)) and set(n.names) & RESERVED:
            fail(n, 'global / nonlocal declaration of a whitelisted name')
    if sites != 1:
        raise Unsupported('%s: eqsig is not bound exactly once by `import eqsig`' % SRC)
    # the translated functions are bound exactly once in the whole module: by their top-level def
    for name in [sp['func'] for sp in SPECS]:
        sites = 0
        for n in ast.walk(tree):
            if isinstance(n, (ast.FunctionDef, ast.ClassDef, ast.AsyncFunctionDef)) and n.name == name:
                sites += 1
            elif isinstance(n, ast.Name) and isinstance(n.ctx, (ast.Store, ast.Del)) and n.id == name:
                sites += 1
            elif isinstance(n, (ast.Import, ast.ImportFrom)):
                for al in n.names:
                    if (al.asname or al.name.split('.')[0]) == name or al.name == '*':
                        sites += 1
        top = [s for s in tree.body if isinstance(s, ast.FunctionDef) and s.name == name]
        if sites != 1 or len(top) != 1:
            raise Unsupported('%s: %s is not bound exactly once by a top-level def' % (SRC, name))


# ---------------------------------------------------------------- one function
class Ctx14:
    def __init__(self, spec, done):
        self.spec = spec
        self.done = done                                          # functions already translated (callable from here)

    # ------------------------------------------------------------ expressions
    def ev(self, e, st):
        env = st['env']
        if isinstance(e, ast.Constant):
            if e.value is None:
                return Val('NONE', None)
            if not int_const(e) or abs(e.value) > 10 ** 9:
                fail(e, 'literal %r (only int literals and None)' % (e.value,))
            return Val('I', 'PInt %s' % zlit(e.value))
        if isinstance(e, ast.Name):
            if e.id in env:
                return env[e.id]
            fail(e, 'unknown name %s' % e.id)
        if isinstance(e, ast.Attribute):
            if isinstance(e.value, ast.Name) and env.get(e.value.id) is not None and env[e.value.id].kind == 'OBJ':
                if e.attr == 'values':
                    return Val('A', 'values')
                if e.attr == 'dt':
                    return Val('N', 'PFloat dt')
                if e.attr == 'npts':
                    return Val('I', 'py_len values')
                fail(e, 'attribute .%s of the signal parameter' % e.attr)
            fail(e, 'attribute %s' % (dotted(e) or '?'))
        if isinstance(e, ast.BinOp):
            x, y = self.ev(e.left, st), self.ev(e.right, st)
            if isinstance(e.op, ast.Div):
                if num(x) and num(y):
                    return Val('N', 'py_div %s %s' % (par(x.t), par(y.t)))
                if x.kind == 'PA' and num(y):
                    return Val('PA', 'arr_div %s %s' % (par(x.t), par(y.t)))
                fail(e, '/ on %s, %s' % (x.kind, y.kind))
            if isinstance(e.op, ast.Mult):
                if num(x) and num(y):
                    return Val('I' if x.kind == y.kind == 'I' else 'N', 'py_mul %s %s' % (par(x.t), par(y.t)))
                fail(e, '* on %s, %s' % (x.kind, y.kind))
            fail(e, 'binary operator %s' % type(e.op).__name__)
        if isinstance(e, ast.Subscript):
            x = self.ev(e.value, st)
            sl = e.slice
            if isinstance(sl, ast.Index):      # python < 3.9
                sl = sl.value
            if not (x.kind == 'A' and isinstance(sl, ast.Slice) and sl.lower is None and sl.step is None and sl.upper is not None):
                fail(e, 'subscript other than <float array>[:k]')
            k = self.ev(sl.upper, st)
            if k.kind != 'I':
                fail(e, 'slice bound that is not syntactically an int')
            return Val('A', 'firstn (py_idx %s) %s' % (par(k.t), par(x.t)))
        if isinstance(e, ast.Call):
            return self.call(e, st)
        fail(e, 'expression %s' % type(e).__name__)

    def call(self, e, st):
        env = st['env']
        d = dotted(e.func)
        if d is None:
            fail(e, 'call of a computed function')
        if d.split('.')[0] in env:
            fail(e, 'call through the local name %s' % d.split('.')[0])
        args, kws = e.args, {k.arg: k.value for k in e.keywords}
        if any(isinstance(a, ast.Starred) for a in args) or None in kws:
            fail(e, 'star arguments')

        def pos(n):
            if kws or len(args) != n:
                fail(e, '%s: expected %d positional arguments and no keywords' % (d, n))
            return [self.ev(a, st) for a in args]
        if d == 'int':
            a = args[0] if len(args) == 1 and not kws else None
            if isinstance(a, ast.Call) and dotted(a.func) == 'np.ceil':
                if a.keywords or len(a.args) != 1 or any(isinstance(z, ast.Starred) for z in a.args):
                    fail(e, 'np.ceil arguments')
                x = self.ev(a.args[0], st)
                if not num(x):
                    fail(e, 'np.ceil of a %s' % x.kind)
                return Val('I', 'py_int_ceil %s' % par(x.t))
            x, = pos(1)
            if not num(x):
                fail(e, 'int of a %s' % x.kind)
            return Val('I', 'py_int %s' % par(x.t))
        if d == 'np.floor':
            x, = pos(1)
            if not num(x):
                fail(e, 'np.floor of a %s' % x.kind)
            return Val('N', 'np_floor %s' % par(x.t))
        if d == 'len':
            x, = pos(1)
            if x.kind != 'A':
                fail(e, 'len of a %s' % x.kind)
            return Val('I', 'py_len %s' % par(x.t))
        if d == 'np.arange':
            x, = pos(1)
            if not num(x):
                fail(e, 'np.arange of a %s' % x.kind)
            return Val('PA', 'np_arange %s' % par(x.t))
        if d == 'np.interp':
            x, xp, fp = pos(3)
            if (x.kind, xp.kind, fp.kind) != ('PA', 'PA', 'A'):
                fail(e, 'np.interp of %s, %s, %s' % (x.kind, xp.kind, fp.kind))
            return Val('A', 'interp_ (arr_f %s) (arr_f %s) %s' % (par(x.t), par(xp.t), par(fp.t)))
        if d == 'resample':
            if not st['resample']:
                fail(e, 'resample is not scipy.signal.resample (local import missing)')
            v, k = pos(2)
            if (v.kind, k.kind) != ('A', 'I'):
                fail(e, 'resample of %s, %s (the count must be syntactically an int)' % (v.kind, k.kind))
            return Val('A', 'resample_ %s (py_idx %s)' % (par(v.t), par(k.t)))
        if d == ARRAY_FN:
            if ARRAY_FN not in self.done or self.spec['func'] == ARRAY_FN:
                fail(e, 'call of %s from %s' % (d, self.spec['func']))
            ok = (len(args) == 2 and set(kws) == {'target_dt', 'even'}
                  and isinstance(kws['target_dt'], ast.Name) and isinstance(kws['even'], ast.Name))
            if not ok:
                fail(e, 'expected %s(<o>.values, <o>.dt, target_dt=<name>, even=<name>)' % d)
            v, h, tg, ev_ = [self.ev(a, st) for a in (args[0], args[1], kws['target_dt'], kws['even'])]
            if (v.t, h.t, tg.t, ev_.t) != ('values', 'PFloat dt', 'PFloat target_dt', 'even'):
                fail(e, 'the arguments of %s are not (<o>.values, <o>.dt, target_dt=target_dt, even=even)' % d)
            return Val('T2', '%s even values dt target_dt' % self.done[ARRAY_FN])
        fail(e, 'call of %s' % d)

    def cond(self, t, st):
        """-> ('static', bool) | ('coq', text)"""
        env = st['env']
        if isinstance(t, ast.Name):
            v = env.get(t.id)
            if v is None or v.kind != 'B':
                fail(t, 'condition on a name that is not the boolean parameter')
            return ('coq', v.t)
        if isinstance(t, ast.Compare) and len(t.ops) == 1:
            op, rhs = t.ops[0], t.comparators[0]
            if isinstance(op, (ast.Is, ast.IsNot)):
                if not (isinstance(t.left, ast.Name) and isinstance(rhs, ast.Constant) and rhs.value is None):
                    fail(t, 'identity test other than `<name> is (not) None`')
                v = env.get(t.left.id)
                if v is None or v.kind not in ('NONE', 'N', 'I'):
                    fail(t, '`is None` test on a name that holds neither None nor a number on this path')
                return ('static', (v.kind == 'NONE') == isinstance(op, ast.Is))
            fn = {ast.Eq: 'py_eqb', ast.Gt: 'py_gtb'}.get(type(op))
            if fn is None:
                fail(t, 'comparison %s (only == and >)' % type(op).__name__)
            x, y = self.ev(t.left, st), self.ev(rhs, st)
            if not (num(x) and num(y)):
                fail(t, 'comparison of %s, %s' % (x.kind, y.kind))
            return ('coq', '%s %s %s' % (fn, par(x.t), par(y.t)))
        fail(t, 'condition form')

    # ------------------------------------------------------------ statements
    def fresh(self, st):
        st['n'] += 1
        return 't%d' % st['n']

    def block(self, stmts, st, depth=0):
        """-> ('let', name, text, tree) | ('let2', n1, n2, text, tree) | ('if', cond, tree, tree) | ('leaf', text)"""
        if depth > 12:
            raise Unsupported('nesting too deep')
        st = dict(st, env=dict(st['env']))
        stmts = list(stmts)
        spec = self.spec
        params = [p for p, _ in spec['params']]
        while stmts:
            s = stmts.pop(0)
            if isinstance(s, ast.Expr) and isinstance(s.value, ast.Constant) and isinstance(s.value.value, str):
                continue                                                 # docstring
            if isinstance(s, ast.Pass):
                continue
            if isinstance(s, ast.ImportFrom):
                if not (s.module == 'scipy.signal' and not s.level and len(s.names) == 1 and s.names[0].name == 'resample'
                        and s.names[0].asname is None and not st['resample']):
                    fail(s, 'local import other than `from scipy.signal import resample`')
                st['resample'] = True
                continue
            if isinstance(s, ast.Assign):
                if len(s.targets) != 1:
                    fail(s, 'multiple assignment')
                t = s.targets[0]
                if isinstance(t, ast.Name):
                    if t.id in RESERVED or t.id in params:
                        fail(s, 'assignment to %s' % t.id)
                    val = self.ev(s.value, st)
                    if val.kind == 'NONE':
                        st['env'][t.id] = val
                        continue
                    if val.kind not in ('N', 'I', 'A', 'PA'):
                        fail(s, 'assignment of a %s' % val.kind)
                    nm = self.fresh(st)
                    st['env'][t.id] = Val(val.kind, nm)
                    return ('let', nm, val.t, self.block(stmts, st, depth + 1))
                if isinstance(t, ast.Tuple) and len(t.elts) == 2 and all(isinstance(x, ast.Name) for x in t.elts):
                    a, b = t.elts[0].id, t.elts[1].id
                    if a == b or {a, b} & (RESERVED | set(params)):
                        fail(s, 'tuple assignment to %s, %s' % (a, b))
                    val = self.ev(s.value, st)
                    if val.kind != 'T2':
                        fail(s, 'tuple assignment of a %s' % val.kind)
                    n1, n2 = self.fresh(st), self.fresh(st)
                    st['env'][a], st['env'][b] = Val('A', n1), Val('N', n2)
                    return ('let2', n1, n2, val.t, self.block(stmts, st, depth + 1))
                fail(s, 'assignment target')
            if isinstance(s, ast.If):
                c = self.cond(s.test, st)
                if c[0] == 'static':
                    stmts = list(s.body if c[1] else s.orelse) + stmts
                    continue
                return ('if', c[1], self.block(list(s.body) + stmts, st, depth + 1), self.block(list(s.orelse) + stmts, st, depth + 1))
            if isinstance(s, ast.Return):
                if stmts:
                    fail(s, 'statements after return')
                v = s.value
                if spec['ret'] == 'T2':
                    if not (isinstance(v, ast.Tuple) and len(v.elts) == 2):
                        fail(s, 'return other than a pair')
                    a, b = self.ev(v.elts[0], st), self.ev(v.elts[1], st)
                    if a.kind != 'A' or not num(b):
                        fail(s, 'returned pair of kinds %s, %s' % (a.kind, b.kind))
                    return ('leaf', '(%s, %s)' % (a.t, b.t))
                if not (isinstance(v, ast.Call) and dotted(v.func) == 'eqsig.AccSignal' and 'eqsig' not in st['env']
                        and not v.keywords and len(v.args) == 2 and not any(isinstance(z, ast.Starred) for z in v.args)):
                    fail(s, 'return other than eqsig.AccSignal(<array>, <step>)')
                a, b = self.ev(v.args[0], st), self.ev(v.args[1], st)
                if a.kind != 'A' or not num(b):
                    fail(s, 'AccSignal of kinds %s, %s' % (a.kind, b.kind))
                return ('leaf', 'AccSignal %s %s' % (par(a.t), par(b.t)))
            fail(s, 'statement %s' % type(s).__name__)
        raise Unsupported('control reaches the end of %s without a return' % spec['func'])


# ---------------------------------------------------------------- rendering
def render(tree, ind=2):
    sp = ' ' * ind
    if tree[0] == 'leaf':
        return sp + tree[1]
    if tree[0] == 'let':
        return '%slet %s := %s in\n%s' % (sp, tree[1], tree[2], render(tree[3], ind))
    if tree[0] == 'let2':
        return "%slet '(%s, %s) := %s in\n%s" % (sp, tree[1], tree[2], tree[3], render(tree[4], ind))
    if tree[0] == 'if':
        return '%sif %s then\n%s\n%selse\n%s' % (sp, tree[1], render(tree[2], ind + 2), sp, render(tree[3], ind + 2))
    raise Unsupported('internal: tree %r' % (tree[0],))


def default_defs(fn, spec):
    """defaults of the signature: target_dt a short decimal (as a Q), even a boolean"""
    names = [a.arg for a in fn.args.args]
    out = []
    defaults = dict(zip(names[len(names) - len(fn.args.defaults):], fn.args.defaults))
    if set(defaults) != {'target_dt', 'even'}:
        raise Unsupported('%s: defaults are given for %r, expected target_dt and even' % (spec['func'], sorted(defaults)))
    d = defaults['target_dt']
    if not (isinstance(d, ast.Constant) and type(d.value) in (int, float)):
        fail(d, 'default of target_dt is not a numeric literal')
    fr = Fraction(repr(d.value))
    if float(fr) != d.value or fr <= 0 or fr.denominator > 10 ** 12 or fr.numerator > 10 ** 12:
        fail(d, 'default of target_dt is not a short positive decimal')
    out.append('Definition %s_default_target_dt : Q := %d # %d.' % (spec['gen'], fr.numerator, fr.denominator))
    d = defaults['even']
    if not (isinstance(d, ast.Constant) and type(d.value) is bool):
        fail(d, 'default of even is not True / False')
    out.append('Definition %s_default_even : bool := %s.' % (spec['gen'], 'true' if d.value else 'false'))
    return out


def translate_function(tree, spec, done):
    fn = c06.find_function(tree, dict(spec, cls=None))
    ctx = Ctx14(spec, done)
    env = {}
    for p, k in spec['params']:
        if p in RESERVED:
            raise Unsupported('parameter named %s' % p)
        env[p] = Val(k, COQ_INPUT[p]) if k != 'OBJ' else Val('OBJ', p)
    tree_ = ctx.block(list(fn.body), {'env': env, 'n': 0, 'resample': False})
    where = '%s: %s(%s)' % (SRC, spec['func'], ast.unparse(fn.args))
    text = '(** %s *)\nDefinition %s %s : %s :=\n%s.\n' % (where, spec['gen'], BINDERS, spec['rtype'], render(tree_))
    return text, default_defs(fn, spec)


HEADER = '''(** GENERATED by translator/py2coq_c14.py from eqsig/fns/time_step.py (interp_array_to_approx_dt, interp_to_approx_dt,
    resample_to_approx_dt) -- do not edit; rewritten on every run.
    One definition per source function.  Every assignment of the source is a `let` named by its position on the path
    (t1, t2, ...); an `if` of the source duplicates the rest of the body; `if <name> is not None` is decided per path
    (the name holds the literal None or a number there).
    The definitions are generic over the float operations [FlOps F]; proofs/P_gen_c14.v reads them with the exact
    operations of [NumOps R] (-> model/M_timestep.v, generic layer) and with the binary64 operations of lib/B64.v
    (-> factor_b64, newdt_b64, npts_b64, rs_count_b64, npts_rs_b64).
    READINGS (this header is fixed text of the translator; it is the trusted reading of Python / NumPy):
      a Python number is [PInt z] (int, exact) or [PFloat x] (float); an int operand of a float operation is converted
      first ([to_f]); `a / b` is always a float ([py_div]: for two ints this is exact for operands below 2^53);
      `a * b` of two ints is the exact product, otherwise the float product ([py_mul]); `==`, `>` compare two ints exactly,
      otherwise as floats; `int(x)` truncates a float toward zero; `int(np.ceil(x))` is the ceiling as an int
      ([py_int_ceil]); `np.floor(x)` is the float of the floor ([np_floor]: exact, the floor of a finite float is a float);
      `np.arange(x)` has max(0, ceil x) entries 0, 1, ... (ints for an int x, floats for a float x) ([np_arange]);
      `array / number` divides every entry ([arr_div]); `len(v)` and `<signal>.npts` are the length of the record ([py_len]);
      `v[:k]` for an int k >= 0 keeps the first k entries; `eqsig.AccSignal(values, dt)` is the pair (values, dt);
      Section variables (NOT translated): [interp_ x xp fp] = np.interp(x, xp, fp), [resample_ v num] =
      scipy.signal.resample(v, num).
    Inputs: values = the record (values / asig.values), dt = the time step (dt / asig.dt), target_dt, even. *)
From Coq Require Import ZArith QArith List Bool.
Import ListNotations.

Record FlOps (F : Type) : Type := mkFlOps {
  f_div : F -> F -> F; f_mul : F -> F -> F; f_ofZ : Z -> F;
  f_eqb : F -> F -> bool; f_ltb : F -> F -> bool;
  f_floor : F -> Z; f_ceil : F -> Z; f_trunc : F -> Z }.
Arguments f_div {F}. Arguments f_mul {F}. Arguments f_ofZ {F}. Arguments f_eqb {F}. Arguments f_ltb {F}.
Arguments f_floor {F}. Arguments f_ceil {F}. Arguments f_trunc {F}.

Inductive pynum (F : Type) : Type := PInt (z : Z) | PFloat (x : F).
Arguments PInt {F}. Arguments PFloat {F}.

Definition zrange (z : Z) : list Z := map Z.of_nat (seq 0 (Z.to_nat z)).

Section Generic.
Context {F : Type} (ops : FlOps F).
Variable interp_ : list F -> list F -> list F -> list F.
Variable resample_ : list F -> nat -> list F.

Definition to_f (a : pynum F) : F := match a with PInt z => f_ofZ ops z | PFloat x => x end.
Definition py_div (a b : pynum F) : pynum F := PFloat (f_div ops (to_f a) (to_f b)).
Definition py_mul (a b : pynum F) : pynum F :=
  match a, b with PInt x, PInt y => PInt (x * y) | _, _ => PFloat (f_mul ops (to_f a) (to_f b)) end.
Definition py_eqb (a b : pynum F) : bool :=
  match a, b with PInt x, PInt y => Z.eqb x y | _, _ => f_eqb ops (to_f a) (to_f b) end.
Definition py_gtb (a b : pynum F) : bool :=
  match a, b with PInt x, PInt y => Z.ltb y x | _, _ => f_ltb ops (to_f b) (to_f a) end.
Definition py_int (a : pynum F) : pynum F := match a with PInt z => PInt z | PFloat x => PInt (f_trunc ops x) end.
Definition py_int_ceil (a : pynum F) : pynum F := match a with PInt z => PInt z | PFloat x => PInt (f_ceil ops x) end.
Definition np_floor (a : pynum F) : pynum F :=
  PFloat (f_ofZ ops (match a with PInt z => z | PFloat x => f_floor ops x end)).
Definition np_arange (a : pynum F) : list (pynum F) :=
  match a with
  | PInt z => map PInt (zrange z)
  | PFloat x => map (fun i => PFloat (f_ofZ ops i)) (zrange (f_ceil ops x))
  end.
Definition arr_div (a : list (pynum F)) (s : pynum F) : list (pynum F) := map (fun x => py_div x s) a.
Definition arr_f (a : list (pynum F)) : list F := map to_f a.
Definition py_len (v : list F) : pynum F := PInt (Z.of_nat (length v)).
Definition py_idx (a : pynum F) : nat := match a with PInt z => Z.to_nat z | PFloat _ => O end.
Definition AccSignal (v : list F) (step : pynum F) : list F * F := (v, to_f step).
'''


def translate_sources(read):
    """read(relative path) -> source text"""
    tree = ast.parse(read(SRC))
    try:
        check_module14(tree)
    except Unsupported as e:
        raise Unsupported('%s: %s' % (SRC, e))
    defs, consts, done = [], [], {}
    for spec in SPECS:
        try:
            text, extra = translate_function(tree, spec, done)
        except Unsupported as e:
            raise Unsupported('%s:%s: %s' % (SRC, spec['func'], e))
        defs.append(text)
        consts.extend(extra)
        done[spec['func']] = spec['gen']
    return HEADER + '\n' + '\n'.join(defs) + 'End Generic.\n\n' + '\n'.join(consts) + '\n'


def regenerate(repo=None, out=None):
    """returns True iff the file was rewritten; raises Unsupported / OSError / SyntaxError (fail closed).
    On failure the committed copy is left as it is: the caller reports the broken tie."""
    repo = repo or os.environ.get('EQSIG_REPO', '/repo')
    out = out or OUT
    text = translate_sources(lambda rel: open(os.path.join(repo, rel)).read())
    old = open(out).read() if os.path.exists(out) else None
    if old != text:
        os.makedirs(os.path.dirname(out), exist_ok=True)
        tmp = '%s.%d.tmp' % (out, os.getpid())
        with open(tmp, 'w') as f:
            f.write(text)
        os.replace(tmp, out)
        return True
    return False


def main():
    try:
        ch = regenerate(repo=sys.argv[1] if len(sys.argv) > 1 else None)
    except Exception as e:  # fail closed
        print('py2coq_c14: translation FAILED: %s: %s' % (type(e).__name__, e))
        return 1
    print('py2coq_c14: %s %s' % (os.path.relpath(OUT, VERIF), 'rewritten' if ch else 'unchanged'))
    return 0


if __name__ == '__main__':
    sys.exit(main())
