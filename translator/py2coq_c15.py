#!/venv/bin/python
"""Fail-closed translator of the Stockwell-transform statements (property C15)  ->  coq/gen/Gen_c15.v

    eqsig/stockwell.py  generate_gaussian(n_d2)                       -> gen_generate_gaussian
                        transform(acc, interp=False)                  -> gen_transform
                        transform_w_scipy_fft(acc, interp=False)      -> gen_transform_w_scipy_fft
                        itransform(stock)                             -> gen_itransform
                        get_max_tifq_vals_freq(tifq_values, dt)       -> gen_get_max_tifq_vals_freq
                        get_max_stockwell_freq(asig)                  -> gen_get_max_stockwell_freq

NOT translated (Section variables of the generated file, instantiated by proofs/P_gen_c15.v): np.fft.fft / np.fft.ifft
(fft_re, fft_im, ifft_re, ifft_im), scipy.fftpack.fft / ifft (sp_fft_*, sp_ifft_*), np.exp (exp_), np.pi (pi_), the modulus
inside abs() of a complex matrix (sqrt_) and the float expression int(np.ceil(a ** (np.log(b) / np.log(c))))
(ceil_pow_logratio a b c).  What IS translated is everything around them: the even truncation length, the index vector and the
argument of the Gaussian, the Toeplitz construction, the row slice, the product with the window, the row-wise inverse transform,
the flips and conjugations, the row sums, the Hermitian completion and the length of itransform, the frequency axis, the argmax
and the take of the dominant-frequency functions.

The grammar of translator/py2coq_c06.py (class Ctx) is extended by import (subclass); helpers come from py2coq_numpy /
py2coq_durations / py2coq_c06.  Each function body is evaluated symbolically, statement by statement; local assignments are
substituted into their uses (a renamed temporary gives the same text).  Anything outside the whitelist raises `Unsupported`.

values (in addition to py2coq_c06: Z ZF L2 QF S RV CV): RM real matrix | CM complex matrix (two terms) | NV index vector
              | LN np.log of an int | LR quotient of two LN | PLR int ** LR | CPLR np.ceil(PLR) | OBJ the signal object
expressions (in addition): float literals that are whole numbers -> nofZ k;  `np.pi` -> pi_;  `-v`, `-m` -> vopp / mmap;
              `np.arange(Z, Z)`, `np.arange(Z, Z, 1)` -> arange_z;  RV / Z;  S / RV;  `v[1:]`, `v[1:-1]`, `v[:Z]`;
              `np.concatenate((RV, RV))` -> ++;  `np.flipud` of RV / CV / RM / CM -> rev;  `np.outer(RV, RV)`;  S * RM;
              RM ** k (k a literal 0..8) -> npow;  RM / Z;  `np.exp(RM)`;  `RM.transpose()`;  `generate_gaussian(Z)`,
              `transform(RV)` -> the generated definitions;  `np.fft.fft(RV, Z)`;  `fft(RV, Z, overwrite_x=True)`,
              `ifft(CM, axis=1)` after the local `from scipy.fftpack import fft, ifft`;  `np.fft.ifft(CM, axis=1)`;
              `toeplitz(CV, CV)` after the local `from scipy.linalg import toeplitz`;  `CM[Z:Z, :]` -> slice;  CM * RM;
              `np.sum(CM, axis=1)` -> sum_axis1;  `len(CM)`;  `np.real(CV)`;  `abs(CM)`;  `np.argmax(RM, axis=0)`;
              `np.take(RV, NV)`;  `int(np.ceil(Z ** (np.log(Z) / np.log(Z))))`;  `o.swtf`, `o.values`, `o.dt` of the object
statements  : docstring;  the two local imports (exactly);  `name = e` (a second name for an array is accepted only for arrays
              that no statement can modify in place);  `a[Z:Z] = CV`, `a[Z:] = CV` on a complex array created by np.zeros in
              this function (as in py2coq_c06);  `if not hasattr(o, "swtf"): o.swtf = <CM>` -> match on the optional cached
              transform;  `return e` of the kind the function is registered with.
"""
import ast, os, sys

HERE = os.path.dirname(os.path.abspath(__file__))
sys.path.insert(0, HERE)
from py2coq_numpy import Unsupported, fail, dotted                     # noqa: E402
from py2coq_durations import builtin_untouched                        # noqa: E402
import py2coq_c06 as c06                                              # noqa: E402
from py2coq_c06 import Val, par, znat, int_const                      # noqa: E402

VERIF = os.path.dirname(HERE)
OUT = os.path.join(VERIF, 'coq', 'gen', 'Gen_c15.v')
SRC = 'eqsig/stockwell.py'
X, Y = 'x', 'y'
BUILTINS = ('int', 'len', 'range', 'abs', 'hasattr')
RESERVED = {'np', 'numpy', 'int', 'len', 'range', 'abs', 'hasattr', 'True', 'False', 'None', 'transform', 'generate_gaussian',
            'toeplitz', 'fft', 'ifft', 'complex'}
SECTION_VARS = ['fft_re', 'fft_im', 'ifft_re', 'ifft_im', 'sp_fft_re', 'sp_fft_im', 'sp_ifft_re', 'sp_ifft_im',
                'exp_', 'sqrt_', 'pi_', 'ceil_pow_logratio']
CMT = 'list (list T) * list (list T)'

# function, generated name, python parameters -> kind, binders, kind returned, module functions it may call
SPECS = [
    dict(func='generate_gaussian', gen='gen_generate_gaussian', params=[('n_d2', 'Z')], binders=[('n_d2', 'Z')],
         ret='RM', calls=()),
    dict(func='transform', gen='gen_transform', params=[('acc', 'RV'), ('interp', 'UNUSED')], binders=[('a', 'list T')],
         ret='CM', calls=('generate_gaussian',)),
    dict(func='transform_w_scipy_fft', gen='gen_transform_w_scipy_fft', params=[('acc', 'RV'), ('interp', 'UNUSED')],
         binders=[('a', 'list T')], ret='CM', calls=('generate_gaussian',)),
    dict(func='itransform', gen='gen_itransform', params=[('stock', 'CM')],
         binders=[('re', 'list (list T)'), ('im', 'list (list T)')], ret='RV', calls=()),
    dict(func='get_max_tifq_vals_freq', gen='gen_get_max_tifq_vals_freq', params=[('tifq_values', 'CM'), ('dt', 'S')],
         binders=[('re', 'list (list T)'), ('im', 'list (list T)'), ('dt', 'T')], ret='RV', calls=()),
    dict(func='get_max_stockwell_freq', gen='gen_get_max_stockwell_freq', params=[('asig', 'OBJ')],
         binders=[('swtf', 'option (%s)' % CMT), ('dt', 'T'), ('a', 'list T')], ret='RV', calls=('transform',)),
]
RET_TYPES = {'RM': 'list (list T)', 'CM': CMT, 'RV': 'list T'}
GEN_OF = {'generate_gaussian': 'gen_generate_gaussian', 'transform': 'gen_transform'}


def zlit(k):
    return '%d%%Z' % k if k >= 0 else '(%d)%%Z' % k


def fun1(body):
    return '(fun %s => %s)' % (X, body)


# ---------------------------------------------------------------- module-level checks
def check_module15(tree):
    c06.check_module(tree, SRC)                                   # np is numpy; int / len / range are the builtins

    class M:
        pass
    m = M()
    m.tree = tree
    for b in ('abs', 'hasattr', 'complex', 'toeplitz', 'fft', 'ifft'):
        if not builtin_untouched(m, b):
            raise Unsupported('%s: the module binds %s' % (SRC, b))
    # the translated functions (two of them are called from other translated bodies) are bound exactly once in the whole
    # module: by their top-level def
    for name in [sp['func'] for sp in SPECS]:
        sites = 0
        for n in ast.walk(tree):
            if isinstance(n, (ast.FunctionDef, ast.ClassDef, ast.AsyncFunctionDef)) and n.name == name:
                sites += 1
            elif isinstance(n, ast.Name) and isinstance(n.ctx, (ast.Store, ast.Del)) and n.id == name:
                sites += 1
            elif isinstance(n, (ast.Import, ast.ImportFrom)):
                for al in n.names:
                    if (al.asname or al.name.split('.')[0]) == name or al.name == '*':
                        sites += 1
            elif isinstance(n, (ast.Global, ast.Nonlocal)) and name in n.names:
                sites += 1
        top = [s for s in tree.body if isinstance(s, ast.FunctionDef) and s.name == name]
        if sites != 1 or len(top) != 1:
            raise Unsupported('%s: %s is not bound exactly once by a top-level def' % (SRC, name))


# ---------------------------------------------------------------- one function
class Ctx15(c06.Ctx):
    def __init__(self, spec):
        self.spec = spec
        self.coqnames = {b[0] for b in spec['binders']} | {X, Y, 'n0', 'n1'} | set(SECTION_VARS)
        self.imported = set()
        self.sp = False                                           # uses the scipy.fftpack variables

    # ------------------------------------------------------------ expressions
    def ev(self, e, env):
        if isinstance(e, ast.Constant) and type(e.value) is float:
            if e.value != int(e.value) or abs(e.value) > 10 ** 9:
                fail(e, 'float literal %r is not a whole number' % (e.value,))
            return Val('S', 'nofZ %s' % par(zlit(int(e.value))))
        if isinstance(e, ast.Attribute):
            if dotted(e) == 'np.pi' and 'np' not in env:
                return Val('S', 'pi_')
            if isinstance(e.value, ast.Name) and env.get(e.value.id) is not None and env[e.value.id].kind == 'OBJ':
                if e.attr == 'values':
                    return Val('RV', 'a')
                if e.attr == 'dt':
                    return Val('S', 'dt')
                if e.attr == 'swtf':
                    v = env.get('@swtf')
                    if v is None:
                        fail(e, '.swtf read where it is not known to exist')
                    return Val('CM', v.t, v.im)
                fail(e, 'attribute .%s of the object parameter' % e.attr)
            fail(e, 'attribute %s' % (dotted(e) or '?'))
        if isinstance(e, ast.UnaryOp):
            if not isinstance(e.op, ast.USub):
                fail(e, 'unary operator %s' % type(e.op).__name__)
            v = self.ev(e.operand, env)
            if v.kind == 'RV':
                return Val('RV', 'vopp %s' % par(v.t), deps=v.deps)
            if v.kind == 'RM':
                return Val('RM', 'mmap %s %s' % (fun1('- ' + X), par(v.t)), deps=v.deps)
            fail(e, 'unary minus on a %s' % v.kind)
        return super().ev(e, env)

    def binop(self, e, env):
        x, y = self.ev(e.left, env), self.ev(e.right, env)
        deps = x.deps | y.deps
        op = type(e.op)
        kk = (x.kind, y.kind)
        if kk == ('RV', 'Z') and op is ast.Div:
            return Val('RV', 'map %s %s' % (fun1('%s / nofZ %s' % (X, par(y.t))), par(x.t)), deps=deps)
        if kk == ('S', 'RV') and op is ast.Div:
            return Val('RV', 'map %s %s' % (fun1('%s / %s' % (par(x.t), X)), par(y.t)), deps=deps)
        if kk == ('S', 'RM') and op is ast.Mult:
            return Val('RM', 'mmap %s %s' % (fun1('%s * %s' % (par(x.t), X)), par(y.t)), deps=deps)
        if x.kind == 'RM' and op is ast.Pow:
            if not (int_const(e.right) and 0 <= e.right.value <= 8):
                fail(e, 'matrix power with an exponent that is not a literal 0..8')
            return Val('RM', 'mmap %s %s' % (fun1('npow %s %d' % (X, e.right.value)), par(x.t)), deps=deps)
        if kk == ('RM', 'Z') and op is ast.Div:
            return Val('RM', 'mmap %s %s' % (fun1('%s / nofZ %s' % (X, par(y.t))), par(x.t)), deps=deps)
        if kk == ('CM', 'RM') and op is ast.Mult:
            return Val('CM', 'mmap2 nmul %s %s' % (par(x.t), par(y.t)), 'mmap2 nmul %s %s' % (par(x.im), par(y.t)), deps=deps)
        if kk == ('LN', 'LN') and op is ast.Div:
            return Val('LR', x.t, y.t, deps=deps)
        if kk == ('Z', 'LR') and op is ast.Pow:
            return Val('PLR', x.t, (y.t, y.im), deps=deps)
        if set(kk) & {'RM', 'CM', 'NV', 'LN', 'LR', 'PLR', 'CPLR', 'OBJ'}:
            fail(e, 'operator %s on %s, %s' % (op.__name__, x.kind, y.kind))
        return super().binop(e, env)

    def subscript(self, e, env):
        x = self.ev(e.value, env)
        sl = e.slice
        if isinstance(sl, ast.Index):      # python < 3.9
            sl = sl.value
        if x.kind in ('RV', 'CV') and isinstance(sl, ast.Slice) and sl.step is None:
            both = (lambda f: Val(x.kind, f % par(x.t), f % par(x.im) if x.kind == 'CV' else None, deps=x.deps))
            lo1 = sl.lower is not None and int_const(sl.lower) and sl.lower.value == 1
            if lo1 and sl.upper is None:
                return both('tl %s')
            if lo1 and isinstance(sl.upper, ast.UnaryOp) and isinstance(sl.upper.op, ast.USub) and int_const(sl.upper.operand) \
                    and sl.upper.operand.value == 1:
                return both('removelast (tl %s)')
            if sl.lower is None and sl.upper is not None:
                k = self.ev(sl.upper, env)
                if k.kind != 'Z':
                    fail(e, 'slice bound of kind %s' % k.kind)
                f = 'firstn (%s) ' % znat(k.t)
                return Val(x.kind, f + par(x.t), f + par(x.im) if x.kind == 'CV' else None, deps=x.deps | k.deps)
            fail(e, 'vector slice other than [1:], [1:-1], [:k]')
        if x.kind == 'CM':
            if not (isinstance(sl, ast.Tuple) and len(sl.elts) == 2 and all(isinstance(s, ast.Slice) for s in sl.elts)):
                fail(e, 'matrix subscript other than [lo:hi, :]')
            rows, cols = sl.elts
            if not (cols.lower is None and cols.upper is None and cols.step is None and rows.step is None
                    and rows.lower is not None and rows.upper is not None):
                fail(e, 'matrix subscript other than [lo:hi, :]')
            lo, hi = self.ev(rows.lower, env), self.ev(rows.upper, env)
            if lo.kind != 'Z' or hi.kind != 'Z':
                fail(e, 'matrix slice bounds')
            f = 'slice (%s) (%s) ' % (znat(lo.t), znat(hi.t))
            return Val('CM', f + par(x.t), f + par(x.im), deps=x.deps | lo.deps | hi.deps)
        if x.kind in ('RM', 'NV'):
            fail(e, 'subscript of a %s' % x.kind)
        return super().subscript(e, env)

    def kwconst(self, e, kws, name, value):
        return set(kws) == {name} and isinstance(kws[name], ast.Constant) and type(kws[name].value) is type(value) \
            and kws[name].value == value

    def call(self, e, env):
        # method call  <matrix>.transpose()
        if isinstance(e.func, ast.Attribute) and e.func.attr == 'transpose' and dotted(e.func) is None:
            if e.args or e.keywords:
                fail(e, 'transpose arguments')
            v = self.ev(e.func.value, env)
            if v.kind != 'RM':
                fail(e, 'transpose of a %s' % v.kind)
            return Val('RM', 'transpose %s' % par(v.t), deps=v.deps)
        d = dotted(e.func)
        if d is None:
            fail(e, 'call of a computed function')
        if d.split('.')[0] in env:
            fail(e, 'call through the local name %s' % d.split('.')[0])
        args, kws = e.args, {k.arg: k.value for k in e.keywords}
        if any(isinstance(a, ast.Starred) for a in args) or None in kws:
            fail(e, 'star arguments')

        def pos(*kinds):
            if len(args) != len(kinds):
                fail(e, '%s: %d positional arguments' % (d, len(args)))
            vs = [self.ev(a, env) for a in args]
            for v, k in zip(vs, kinds):
                if v.kind not in k:
                    fail(e, '%s of a %s' % (d, v.kind))
            return vs

        def deps_of(vs):
            out = frozenset()
            for v in vs:
                out |= v.deps
            return out
        if d == 'np.arange' and len(args) in (2, 3) and not kws:
            if len(args) == 3 and not (int_const(args[2]) and args[2].value == 1):
                fail(e, 'np.arange with a step other than the literal 1')
            lo, hi = [self.ev(a, env) for a in args[:2]]
            if lo.kind != 'Z' or hi.kind != 'Z':
                fail(e, 'np.arange bounds of kind %s, %s' % (lo.kind, hi.kind))
            return Val('RV', 'arange_z %s %s' % (par(lo.t), par(hi.t)), deps=lo.deps | hi.deps)
        if d == 'np.concatenate' and not kws:
            if not (len(args) == 1 and isinstance(args[0], ast.Tuple) and len(args[0].elts) == 2):
                fail(e, 'np.concatenate other than of a pair')
            u, v = [self.ev(a, env) for a in args[0].elts]
            if (u.kind, v.kind) != ('RV', 'RV'):
                fail(e, 'np.concatenate of %s, %s' % (u.kind, v.kind))
            return Val('RV', '%s ++ %s' % (par(u.t), par(v.t)), deps=u.deps | v.deps)
        if d == 'np.flipud' and not kws:
            v, = pos(('RV', 'CV', 'RM', 'CM'))
            return Val(v.kind, 'rev %s' % par(v.t), 'rev %s' % par(v.im) if v.kind in ('CV', 'CM') else None, deps=v.deps)
        if d == 'np.outer' and not kws:
            u, v = pos(('RV',), ('RV',))
            return Val('RM', 'outer %s %s' % (par(u.t), par(v.t)), deps=u.deps | v.deps)
        if d == 'np.exp' and not kws:
            v, = pos(('RM',))
            return Val('RM', 'mmap exp_ %s' % par(v.t), deps=v.deps)
        if d in GEN_OF and not kws:
            if d not in self.spec['calls']:
                fail(e, 'call of %s from %s' % (d, self.spec['func']))
            if d == 'generate_gaussian':
                v, = pos(('Z',))
                return Val('RM', '%s %s' % (GEN_OF[d], par(v.t)), deps=v.deps)
            v, = pos(('RV',))
            t = '%s %s' % (GEN_OF[d], par(v.t))
            return Val('CM', 'fst (%s)' % t, 'snd (%s)' % t, deps=v.deps)
        if d == 'np.fft.fft' and not kws and len(args) == 2:
            v, k = pos(('RV',), ('Z',))
            nn = '(Some %s)' % par(k.t)
            return Val('CV', 'fft_re %s %s' % (nn, par(v.t)), 'fft_im %s %s' % (nn, par(v.t)), deps=v.deps | k.deps)
        if d == 'fft':
            if 'fft' not in self.imported or not self.kwconst(e, kws, 'overwrite_x', True):
                fail(e, 'fft other than scipy.fftpack.fft(a, N, overwrite_x=True)')
            v, k = pos(('RV',), ('Z',))
            nn = '(Some %s)' % par(k.t)
            self.sp = True
            return Val('CV', 'sp_fft_re %s %s' % (nn, par(v.t)), 'sp_fft_im %s %s' % (nn, par(v.t)), deps=v.deps | k.deps)
        if d in ('np.fft.ifft', 'ifft') and kws:
            if d == 'ifft' and 'ifft' not in self.imported:
                fail(e, 'ifft is not scipy.fftpack.ifft')
            if not self.kwconst(e, kws, 'axis', 1):
                fail(e, '%s keyword other than axis=1' % d)
            v, = pos(('CM',))
            p = 'sp_' if d == 'ifft' else ''
            self.sp = self.sp or d == 'ifft'
            return Val('CM', 'map2 %sifft_re %s %s' % (p, par(v.t), par(v.im)), 'map2 %sifft_im %s %s' % (p, par(v.t), par(v.im)),
                       deps=v.deps)
        if d == 'toeplitz':
            if 'toeplitz' not in self.imported or kws:
                fail(e, 'toeplitz is not scipy.linalg.toeplitz(c, r)')
            c, r = pos(('CV',), ('CV',))
            return Val('CM', 'toeplitz %s %s' % (par(c.t), par(r.t)), 'toeplitz %s %s' % (par(c.im), par(r.im)), deps=c.deps | r.deps)
        if d == 'np.sum':
            if not self.kwconst(e, kws, 'axis', 1):
                fail(e, 'np.sum keyword other than axis=1')
            v, = pos(('CM',))
            return Val('CV', 'sum_axis1 %s' % par(v.t), 'sum_axis1 %s' % par(v.im), deps=v.deps)
        if d == 'len' and not kws and len(args) == 1:
            v = self.ev(args[0], env)
            if v.kind == 'CM':
                return Val('Z', 'Z.of_nat (length %s)' % par(v.t), deps=v.deps)
            if v.kind not in ('RV', 'CV'):
                fail(e, 'len of a %s' % v.kind)
            return Val('Z', 'Z.of_nat (length %s)' % par(v.t), deps=v.deps)
        if d == 'np.real' and not kws:
            v, = pos(('CV',))
            return Val('RV', v.t, deps=v.deps)
        if d == 'abs' and not kws:
            v, = pos(('CM',))
            f = '(fun %s %s => sqrt_ (%s * %s + %s * %s))' % (X, Y, X, X, Y, Y)
            return Val('RM', 'mmap2 %s %s %s' % (f, par(v.t), par(v.im)), deps=v.deps)
        if d == 'np.argmax':
            if not self.kwconst(e, kws, 'axis', 0):
                fail(e, 'np.argmax keyword other than axis=0')
            v, = pos(('RM',))
            return Val('NV', 'argmax_axis0 %s' % par(v.t), deps=v.deps)
        if d == 'np.take' and not kws:
            v, i = pos(('RV',), ('NV',))
            return Val('RV', 'take n0 %s %s' % (par(v.t), par(i.t)), deps=v.deps | i.deps)
        if d == 'np.log' and not kws:
            v, = pos(('Z',))
            return Val('LN', v.t, deps=v.deps)
        if d == 'np.ceil' and not kws and len(args) == 1:
            v = self.ev(args[0], env)
            if v.kind == 'PLR':
                return Val('CPLR', v.t, v.im, deps=v.deps)
            if v.kind != 'L2':
                fail(e, 'np.ceil of a %s' % v.kind)
            return Val('ZF', 'Z.log2_up %s' % par(v.t), deps=v.deps)
        if d == 'int' and not kws and len(args) == 1:
            v = self.ev(args[0], env)
            if v.kind == 'CPLR':
                return Val('Z', 'ceil_pow_logratio %s %s %s' % (par(v.t), par(v.im[0]), par(v.im[1])), deps=v.deps)
            if v.kind == 'QF':
                return Val('Z', 'Z.quot %s %s' % (par(v.t), par(v.im)), deps=v.deps)
            if v.kind not in ('ZF', 'Z'):
                fail(e, 'int of a %s' % v.kind)
            return Val('Z', v.t, deps=v.deps)
        if d in ('np.zeros', 'np.conj', 'np.flip') or (d == 'np.fft.ifft' and not kws):
            return super().call(e, env)
        fail(e, 'call of %s' % d)

    # ------------------------------------------------------------ statements
    LOCAL_IMPORTS = {('scipy.linalg', (('toeplitz', None),)): {'toeplitz'},
                     ('scipy.fftpack', (('fft', None), ('ifft', None))): {'fft', 'ifft'}}

    def block15(self, stmts, env):
        env, stmts = dict(env), list(stmts)
        spec = self.spec
        params = [p for p, _ in spec['params']]
        while stmts:
            s = stmts.pop(0)
            if isinstance(s, ast.Expr) and isinstance(s.value, ast.Constant) and isinstance(s.value.value, str):
                continue                                                 # docstring
            if isinstance(s, ast.ImportFrom):
                key = (s.module, tuple((a.name, a.asname) for a in s.names))
                got = self.LOCAL_IMPORTS.get(key)
                if s.level or got is None or got & self.imported:
                    fail(s, 'local import other than `from scipy.linalg import toeplitz` / `from scipy.fftpack import fft, ifft`')
                self.imported |= got
                continue
            if isinstance(s, ast.Assign):
                if len(s.targets) != 1:
                    fail(s, 'multiple assignment')
                t = s.targets[0]
                if isinstance(t, ast.Name):
                    if t.id in RESERVED or t.id in self.imported or t.id in params:
                        fail(s, 'assignment to %s' % t.id)
                    if isinstance(s.value, ast.Name):
                        src = env.get(s.value.id)
                        if src is not None and src.owned:
                            fail(s, 'second name for the mutable array %s' % s.value.id)
                    val = self.ev(s.value, env)
                    val.deps = val.deps - {t.id}
                    env[t.id] = val
                    continue
                if isinstance(t, ast.Subscript) and isinstance(t.value, ast.Name):
                    sl = t.slice
                    if isinstance(sl, ast.Index):
                        sl = sl.value
                    if not (isinstance(sl, ast.Slice) and sl.step is None and sl.lower is not None):
                        fail(s, 'slice assignment other than a[lo:hi] = v / a[lo:] = v')
                    a = self.mutable(s, t.value.id, env)
                    lo = self.ev(sl.lower, env)
                    hi = self.ev(sl.upper, env) if sl.upper is not None else None
                    val = self.ev(s.value, env)
                    if lo.kind != 'Z' or (hi is not None and hi.kind != 'Z') or val.kind != 'CV':
                        fail(s, 'slice assignment operands')
                    if t.value.id in val.deps | lo.deps | (hi.deps if hi else frozenset()):
                        fail(s, 'slice assignment whose right-hand side or bounds read the array itself')
                    f = 'set_slice (%s) %s ' % (znat(lo.t), '(Some (%s))' % znat(hi.t) if hi is not None else 'None')
                    env[t.value.id] = Val('CV', f + par(val.t) + ' ' + par(a.t), f + par(val.im) + ' ' + par(a.im),
                                          deps=a.deps | val.deps | lo.deps | (hi.deps if hi else frozenset()), owned=True)
                    continue
                fail(s, 'assignment target')
            if isinstance(s, ast.If):
                obj = self.hasattr_test(s, env)
                if obj is None:
                    fail(s, 'if other than `if not hasattr(<object>, "swtf"): <object>.swtf = <transform>`')
                e_none, e_some = dict(env), dict(env)
                val = self.ev(s.body[0].value, env)
                if val.kind != 'CM':
                    fail(s, '.swtf receives a %s' % val.kind)
                e_none['@swtf'] = Val('CM', val.t, val.im)
                e_some['@swtf'] = Val('CM', "fst swtf'", "snd swtf'")
                return ('match', 'swtf', self.block15(stmts, e_some), self.block15(stmts, e_none))
            if isinstance(s, ast.Return):
                if stmts:
                    fail(s, 'statements after return')
                if s.value is None or isinstance(s.value, ast.Tuple):
                    fail(s, 'return of no value / a tuple')
                v = self.ev(s.value, env)
                if v.kind != spec['ret']:
                    fail(s, 'returned kind %s, expected %s' % (v.kind, spec['ret']))
                return ('leaf', (v.t, v.im) if v.kind == 'CM' else (v.t,))
            fail(s, 'statement %s' % type(s).__name__)
        raise Unsupported('control reaches the end of %s without a return' % spec['func'])

    def hasattr_test(self, s, env):
        t = s.test
        if not (isinstance(t, ast.UnaryOp) and isinstance(t.op, ast.Not) and isinstance(t.operand, ast.Call)):
            return None
        c = t.operand
        if not (isinstance(c.func, ast.Name) and c.func.id == 'hasattr' and 'hasattr' not in env and not c.keywords and len(c.args) == 2
                and isinstance(c.args[0], ast.Name) and env.get(c.args[0].id) is not None and env[c.args[0].id].kind == 'OBJ'
                and isinstance(c.args[1], ast.Constant) and c.args[1].value == 'swtf'):
            return None
        if '@swtf' in env or s.orelse or len(s.body) != 1 or not isinstance(s.body[0], ast.Assign) or len(s.body[0].targets) != 1:
            return None
        tg = s.body[0].targets[0]
        if not (isinstance(tg, ast.Attribute) and isinstance(tg.value, ast.Name) and tg.value.id == c.args[0].id and tg.attr == 'swtf'):
            return None
        return c.args[0].id


# ---------------------------------------------------------------- rendering
def render(tree, ind=2):
    sp = ' ' * ind
    if tree[0] == 'leaf':
        return '%s%s' % (sp, tree[1][0]) if len(tree[1]) == 1 else '%s(%s)' % (sp, (',\n%s ' % sp).join(tree[1]))
    if tree[0] == 'match':
        return "%smatch %s with\n%s| Some %s' =>\n%s\n%s| None =>\n%s\n%send" % (
            sp, tree[1], sp, tree[1], render(tree[2], ind + 4), sp, render(tree[3], ind + 4), sp)
    raise Unsupported('internal: tree %r' % (tree[0],))


def translate_function(tree, spec):
    fn = c06.find_function(tree, dict(spec, cls=None))
    ctx = Ctx15(spec)
    env = {}
    for p, k in spec['params']:
        if p in RESERVED or p in ctx.coqnames - {b[0] for b in spec['binders']}:
            raise Unsupported('parameter named %s' % p)
        if k == 'UNUSED':
            continue                                                     # any use is an unknown name
        env[p] = {'Z': Val('Z', p), 'RV': Val('RV', 'a'), 'CM': Val('CM', 're', 'im'), 'S': Val('S', 'dt'), 'OBJ': Val('OBJ', p)}[k]
    for dflt in fn.args.defaults:
        if not isinstance(dflt, ast.Constant):
            fail(dflt, 'default that is not a constant')
    tree_ = ctx.block15(list(fn.body), env)
    sig = ' '.join('(%s : %s)' % b for b in spec['binders'])
    where = '%s: %s(%s)' % (SRC, spec['func'], ast.unparse(fn.args))
    return '(** %s *)\nDefinition %s %s : %s :=\n%s.\n' % (where, spec['gen'], sig, RET_TYPES[spec['ret']], render(tree_))


HEADER = '''(** GENERATED by translator/py2coq_c15.py from eqsig/stockwell.py (generate_gaussian, transform, transform_w_scipy_fft,
    itransform, get_max_tifq_vals_freq, get_max_stockwell_freq) -- do not edit; rewritten on every run.
    One definition per source function, generic over [NumOps T]; temporaries are substituted.  A matrix is the list of its rows;
    a complex vector / matrix is two of them (real parts, imaginary parts).
    Section variables (NOT translated): [fft_re (Some N) a], [fft_im (Some N) a] = np.fft.fft(a, N); [ifft_re re im],
    [ifft_im re im] = np.fft.ifft(re + i im); [sp_*] the same for scipy.fftpack.fft / ifft; [exp_] = np.exp, [pi_] = np.pi,
    [sqrt_ (x*x + y*y)] = abs(x + i y); [ceil_pow_logratio a b c] = int(np.ceil(a ** (np.log(b) / np.log(c)))).
    Inputs: a = the record (acc / asig.values), dt = the time step, (re, im) = a complex matrix (stock / tifq_values),
    swtf = the cached transform asig.swtf when the object has one.
    The readings of the array statements are in lib/NpMat.v (arange_z, npow, slice, outer, transpose, toeplitz, mmap, mmap2,
    sum_axis1, argmax_axis0), lib/NpArr.v (set_slice, zeros), lib/NpList.v (take, vopp, map2); int(a / b) = Z.quot a b,
    a // b = Z.div a b.
    proofs/P_gen_c15.v instantiates the variables (DFT sums of lib/Dft.v, real exp / PI / sqrt) and proves every definition
    equal to the model of model/M_stockwell.v. *)
From Coq Require Import ZArith List Bool.
From EQ Require Import lib.Num lib.NpList lib.PyVal lib.NpArr lib.NpMat.
Import ListNotations.
Local Open Scope num_scope.

Section Generic.
Context {T : Type} `{NumOps T}.
Variable fft_re fft_im : option Z -> list T -> list T.
Variable ifft_re ifft_im : list T -> list T -> list T.
Variable sp_fft_re sp_fft_im : option Z -> list T -> list T.
Variable sp_ifft_re sp_ifft_im : list T -> list T -> list T.
Variable exp_ sqrt_ : T -> T.
Variable pi_ : T.
Variable ceil_pow_logratio : Z -> Z -> Z -> Z.
'''


def translate_sources(read):
    """read(relative path) -> source text"""
    tree = ast.parse(read(SRC))
    try:
        check_module15(tree)
    except Unsupported as e:
        raise Unsupported('%s: %s' % (SRC, e))
    defs = []
    for spec in SPECS:
        try:
            defs.append(translate_function(tree, spec))
        except Unsupported as e:
            raise Unsupported('%s:%s: %s' % (SRC, spec['func'], e))
    return HEADER + '\n' + '\n'.join(defs) + 'End Generic.\n'


def regenerate(repo=None, out=None):
    """returns True iff the file was rewritten; raises Unsupported / OSError / SyntaxError (fail closed).
    On failure the committed copy is left as it is: the caller reports the broken tie."""
    repo = repo or os.environ.get('EQSIG_REPO', '/repo')
    out = out or OUT
    text = translate_sources(lambda rel: open(os.path.join(repo, rel)).read())
    old = open(out).read() if os.path.exists(out) else None
    if old != text:
        os.makedirs(os.path.dirname(out), exist_ok=True)
        tmp = '%s.%d.tmp' % (out, os.getpid())
        with open(tmp, 'w') as f:
            f.write(text)
        os.replace(tmp, out)
        return True
    return False


def main():
    try:
        ch = regenerate(repo=sys.argv[1] if len(sys.argv) > 1 else None)
    except Exception as e:  # fail closed
        print('py2coq_c15: translation FAILED: %s: %s' % (type(e).__name__, e))
        return 1
    print('py2coq_c15: %s %s' % (os.path.relpath(OUT, VERIF), 'rewritten' if ch else 'unchanged'))
    return 0


if __name__ == '__main__':
    sys.exit(main())
