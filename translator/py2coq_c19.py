#!/venv/bin/python
"""Fail-closed translator of the surface-energy / time-shift statements (property C19)  ->  coq/gen/Gen_c19.v

    eqsig/surface.py         trim_to_length                -> gen_trim_to_length
                             calc_surface_energy           -> gen_calc_surface_energy
                             calc_cum_abs_surface_energy   -> gen_calc_cum_abs_surface_energy
                             get_time_shift_motions        -> gen_get_time_shift_motions
    eqsig/fns/time_shift.py  put_array_in_2d_array         -> gen_put_array_in_2d_array
                             join_values_w_shifts          -> gen_join_values_w_shifts

Each function body is evaluated symbolically with Python `ast`, statement by statement; a local assignment becomes a `let`
named by its position in evaluation order, or is substituted into its uses (a renamed temporary gives the same text).  The fixed readings of the NumPy / SciPy operations are the
definitions of coq/lib/NpSurf.v (+ lib/NpList.v).  coq/proofs/P_gen_c19.v proves every generated definition equal to the
model of model/M_surface.v for ALL inputs.  Anything outside the whitelist below raises `Unsupported` (= the tie is broken;
the harness reports it); a changed operand / index / sign / literal / comparison inside the whitelist is translated
faithfully and breaks a proof obligation.  Literals, `dotted` and `Unsupported` come from py2coq_numpy (not edited).

values      : S float scalar | INT python int literal | Z python int | B boolean parameter | STR string parameter
              | IDX loop index | RV float vector | ZV int vector | RM float matrix (list of rows)
              | ROW `v[np.newaxis, :]` | COL `v[:, np.newaxis]` | ARR result that is 1-d or 2-d (pyarr)
              | ARG parameter that is a scalar or an array (pyarg) | REDU / REDD the two reduction parameters (one pyreds)
              | OBJ the signal object | ZEROS2 an untouched np.zeros((len(x), k))
expressions : names; `o.values`, `o.dt`, `o.npts` of the object (npts = len(values));  int / float literals;
              S (+ - * /) S;  Z (+ - *) Z;  INT * RV -> scale;  RV (* /) S;  RV * RV ...;  Z (+ - *) ZV, ZV (+ - *) Z;
              ROW (op) COL -> bc_row_col;  RM (op) COL -> bc_mat_col;  RM (op) RV -> bc_mat_row;  RM (op) RM -> mmap2;
              RM (* /) S, S * RM -> mmap;  unary minus;
              `len(x)`;  `int(S)` -> py_int;  `np.array([S])`, `np.array(RV)`, `np.array(RV, dtype=int)` -> map py_int;
              `np.max(RV)` -> amax;  `np.max(ZV)` / `np.min(ZV)` -> zv_max / zv_min;  `np.max([Z, ..])` -> Z.max;
              `np.pad(RV, (0, Z), mode='constant', constant_values=0)` -> np_pad_right;  `np.arange(Z)` -> np_arange;
              `np.interp(x, np.arange(o.npts), o.values, left=0, right=0)` -> np_interp_arange0 (x an RM or RV);
              `np.zeros_like(ZV)`;  `np.abs`;  `cumulative_trapezoid(RM, dx=S, initial=0, axis=1)` after the local
              `from scipy.integrate import cumulative_trapezoid` -> map (cumtrapz dx);
              `np.diff(ARR, axis=-1, prepend=0)`, `np.abs(ARR)`, `np.cumsum(ARR, axis=-1)` -> arr_map;
              `v[np.newaxis, :]`, `v[:, np.newaxis]`;  `m[0]`;  `zv[i]`;  `m[i, lo:hi]`;  `m[:, lo:hi]` -> py_slice;
              calls of the other translated functions (keywords / defaults resolved from the callee's signature).
conditions  : B;  `not c`;  `c and c`, `c or c`;  Z (< > == <= >= !=) Z;  `STR == 'lit'`;  `STR in ['lit', ..]`;
              `hasattr(x, '__len__')` on an ARG / REDU name -> a `match` that refines the name(s) in its branches.
statements  : docstring;  the local scipy import;  `name = e`;  `name *= e` (and + - /) on an array created in this function
              of which no view was taken;  `if` (branches that do not return and bind the same names to the same kinds
              are merged into conditional terms, otherwise the continuation is duplicated);
              `z = np.zeros((len(x), k))` followed by `for i in range(len(x)):` / `for i, j in enumerate(x):` whose body
              (assignments to names of its own / ifs) stores exactly one row per path, as its last statement:
              `z[i] = RV` or `z[i, lo:hi] = RV` -> map over seq (a body that rebinds a name existing before the loop is rejected);
              `return e`;  reaching the end of a function registered with an optional result -> None.
"""
import ast, os, sys

HERE = os.path.dirname(os.path.abspath(__file__))
sys.path.insert(0, HERE)
from py2coq_numpy import Unsupported, fail, dotted, literal, par, zlit      # noqa: E402

VERIF = os.path.dirname(HERE)
OUT = os.path.join(VERIF, 'coq', 'gen', 'Gen_c19.v')
RESERVED = {'np', 'numpy', 'int', 'len', 'range', 'enumerate', 'abs', 'hasattr', 'True', 'False', 'None',
            'cumulative_trapezoid', 'max', 'min', 'float'}
SURF, TS = 'eqsig/surface.py', 'eqsig/fns/time_shift.py'

# python parameter -> (kind, coq binder);  OBJ expands to the binders dt, a;  REDU and REDD share the binder reds
SPECS = [
    dict(file=SURF, func='trim_to_length', gen='gen_trim_to_length', ret='RM',
         params=[('values', 'RM', 'values'), ('npts', 'Z', 'npts'), ('surf2depth_travel_times', 'RV', 'tts'), ('dt', 'S', 'dt'),
                 ('trim', 'B', 'trim'), ('start', 'B', 'start'), ('s2s_travel_time', 'S', 'stt')]),
    dict(file=SURF, func='calc_surface_energy', gen='gen_calc_surface_energy', ret='ARR',
         params=[('asig', 'OBJ', None), ('travel_times', 'ARG', 'tts'), ('nodal', 'B', 'nodal'), ('up_red', 'REDU', 'reds'),
                 ('down_red', 'REDD', 'reds'), ('stt', 'S', 'stt'), ('trim', 'B', 'trim'), ('start', 'B', 'start')]),
    dict(file=SURF, func='calc_cum_abs_surface_energy', gen='gen_calc_cum_abs_surface_energy', ret='ARR',
         params=[('asig', 'OBJ', None), ('travel_times', 'ARG', 'tts'), ('nodal', 'B', 'nodal'), ('up_red', 'REDU', 'reds'),
                 ('down_red', 'REDD', 'reds'), ('stt', 'S', 'stt'), ('trim', 'B', 'trim'), ('start', 'B', 'start')]),
    dict(file=SURF, func='get_time_shift_motions', gen='gen_get_time_shift_motions', ret='ARR',
         params=[('asig', 'OBJ', None), ('travel_times', 'ARG', 'tts'), ('nodal', 'B', 'nodal'), ('up_red', 'REDU', 'reds'),
                 ('down_red', 'REDD', 'reds'), ('stt', 'S', 'stt'), ('trim', 'B', 'trim'), ('start', 'B', 'start')]),
    dict(file=TS, func='put_array_in_2d_array', gen='gen_put_array_in_2d_array', ret='RM',
         params=[('values', 'RV', 'values'), ('shifts', 'ZV', 'shifts'), ('clip', 'STR', 'clip')]),
    dict(file=TS, func='join_values_w_shifts', gen='gen_join_values_w_shifts', ret='OPT_RM',
         params=[('values', 'RV', 'values'), ('shifts', 'ZV', 'shifts'), ('jtype', 'STR', 'jtype')]),
]
COQ_TYPES = {'S': 'T', 'Z': 'Z', 'B': 'bool', 'STR': 'string', 'RV': 'list T', 'ZV': 'list Z', 'RM': 'list (list T)',
             'ARG': 'pyarg T', 'ARR': 'pyarr T', 'OPT_RM': 'option (list (list T))'}
OPF = {'+': 'nadd', '-': 'nsub', '*': 'nmul', '/': 'ndiv'}
X = 'x'


class Val:
    def __init__(self, kind, term, **meta):
        self.kind, self.term, self.meta = kind, term, meta

    def same(self, o):
        return self.kind == o.kind and self.term == o.term and (self.kind != 'ZEROS2' or self.meta == o.meta)


def zpar(t):
    """parenthesise a Z term unless it is an identifier, a literal k%Z or already one parenthesised group (..) / (..)%Z"""
    core = t[:-2] if t.endswith('%Z') else t
    if core.replace('_', 'a').isalnum():
        return t
    if core.startswith('(') and core.endswith(')'):
        depth = 0
        for k, ch in enumerate(core):
            depth += ch == '('
            depth -= ch == ')'
            if depth == 0 and k < len(core) - 1:
                break
        else:
            return t
    return '(%s)' % t


def zconst(k):
    return '%d%%Z' % k if k >= 0 else '(%d)%%Z' % k


def as_s(v, node):
    if v.kind == 'INT':
        return Val('S', zlit(v.meta['value']))
    if v.kind == 'S':
        return v
    fail(node, 'a float scalar is expected here, got %s' % v.kind)


def as_z(v, node):
    if v.kind == 'INT':
        return Val('Z', zconst(v.meta['value']))
    if v.kind == 'Z':
        return v
    fail(node, 'a python int is expected here, got %s' % v.kind)


def is_int_const(n, k=None):
    return isinstance(n, ast.Constant) and type(n.value) is int and (k is None or n.value == k)


def is_neg1(n):
    return isinstance(n, ast.UnaryOp) and isinstance(n.op, ast.USub) and is_int_const(n.operand, 1)


def str_const(n):
    return n.value if isinstance(n, ast.Constant) and type(n.value) is str else None


def coq_str(s, node=None):
    if not all(c.isalnum() or c in '_- ' for c in s):
        fail(node, 'string literal %r' % s)
    return '"%s"%%string' % s


def has_return(stmts):
    return any(isinstance(n, ast.Return) for s in stmts for n in ast.walk(s))


# ---------------------------------------------------------------- one module
class Module:
    def __init__(self, path, src):
        self.path, self.tree = path, ast.parse(src)
        self.funcs, self.np_ok = {}, False
        for st in self.tree.body:
            if isinstance(st, ast.FunctionDef):
                self.funcs[st.name] = None if st.name in self.funcs else st
                if st.name in RESERVED:
                    fail(st, 'module defines %s' % st.name)
            elif isinstance(st, ast.Import):
                for al in st.names:
                    bound = al.asname or al.name.split('.')[0]
                    if bound == 'np':
                        if al.name != 'numpy':
                            fail(st, 'np is bound to %s' % al.name)
                        self.np_ok = True
                    elif bound in RESERVED:
                        fail(st, 'module binds %s' % bound)
            elif isinstance(st, ast.ImportFrom):
                for al in st.names:
                    if (al.asname or al.name) in RESERVED or al.name == '*':
                        fail(st, 'module binds %s' % (al.asname or al.name))
            elif isinstance(st, ast.Expr) and isinstance(st.value, ast.Constant) and isinstance(st.value.value, str):
                pass
            else:
                fail(st, 'module-level statement %s' % type(st).__name__)
        if not self.np_ok:
            raise Unsupported('%s: `import numpy as np` not found' % path)

    def func(self, name):
        f = self.funcs.get(name)
        if f is None:
            raise Unsupported('function %s not found (or defined twice) in %s' % (name, self.path))
        a = f.args
        if f.decorator_list or a.vararg or a.kwarg or a.kwonlyargs or getattr(a, 'posonlyargs', []):
            fail(f, '%s: decorated / unsupported signature' % name)
        for n in ast.walk(f):
            if isinstance(n, (ast.While, ast.Try, ast.With, ast.Global, ast.Nonlocal, ast.Lambda, ast.NamedExpr, ast.Delete,
                              ast.FunctionDef, ast.ClassDef, ast.Yield, ast.YieldFrom, ast.Await)) and n is not f:
                fail(n, '%s: statement kind %s' % (name, type(n).__name__))
        return f


def spec_binders(spec):
    out = []
    for _, k, b in spec['params']:
        if k == 'OBJ':
            out += [('dt', 'T'), ('a', 'list T')]
        elif k == 'REDU':
            out.append((b, 'pyreds T'))
        elif k == 'REDD':
            continue
        else:
            out.append((b, COQ_TYPES[k]))
    return out


class Frame:
    """env: name -> Val;  lets: the let-bindings (coq name, term) made in this frame, in order;  nolet: assignments are
    substituted instead (inside the branches of a merged `if` and inside a loop body)"""
    def __init__(self, env, ct_local=False, viewed=None, nolet=False):
        self.env, self.ct_local, self.viewed, self.nolet, self.lets = dict(env), ct_local, set(viewed or ()), nolet, []

    def copy(self, nolet=None):
        return Frame(self.env, self.ct_local, self.viewed, self.nolet if nolet is None else nolet)


class Ctx:
    def __init__(self, module, spec, done):
        self.m, self.spec, self.done = module, spec, done      # done: func name -> (spec, FunctionDef) already generated
        self.counter = 0

    LETKINDS = ('S', 'Z', 'RV', 'ZV', 'RM', 'ARR')

    def let(self, fr, val):
        """names a compound value t<k> (k = position in evaluation order, independent of the source spelling)"""
        t = val.term
        if fr.nolet or val.kind not in self.LETKINDS or t.replace('_', 'a').isalnum():
            return val
        self.counter += 1
        n = 't%d' % self.counter
        fr.lets.append((n, t))
        return Val(val.kind, n, **val.meta)

    # ------------------------------------------------------------ expressions
    def name(self, e, fr):
        if e.id in fr.env:
            v = fr.env[e.id]
            if v.kind == 'UNBOUND':
                fail(e, 'name %s is bound on one path only' % e.id)
            return v
        fail(e, 'unknown name %s' % e.id)

    def expr(self, e, fr):
        if isinstance(e, ast.Constant):
            if type(e.value) is int:
                if abs(e.value) > 10 ** 9:
                    fail(e, 'integer literal too large')
                return Val('INT', None, value=e.value)
            if type(e.value) is float:
                return Val('S', literal(e).term)
            fail(e, 'literal %r' % (e.value,))
        if isinstance(e, ast.Name):
            return self.name(e, fr)
        if isinstance(e, ast.Attribute):
            if isinstance(e.value, ast.Name) and e.value.id in fr.env and fr.env[e.value.id].kind == 'OBJ':
                o = e.value.id
                if e.attr == 'values':
                    return Val('RV', 'a', values_of=o)
                if e.attr == 'dt':
                    return Val('S', 'dt')
                if e.attr == 'npts':
                    return Val('Z', 'Z.of_nat (length a)', nat='length a', npts_of=o)
                fail(e, 'attribute .%s of the signal object' % e.attr)
            fail(e, 'attribute %s' % (dotted(e) or '?'))
        if isinstance(e, ast.UnaryOp):
            if not isinstance(e.op, ast.USub):
                fail(e, 'unary operator %s' % type(e.op).__name__)
            x = self.expr(e.operand, fr)
            if x.kind == 'INT':
                return Val('INT', None, value=-x.meta['value'])
            if x.kind == 'S':
                return Val('S', '- %s' % par(x.term))
            if x.kind == 'Z':
                return Val('Z', '(- %s)%%Z' % zpar(x.term))
            if x.kind == 'RV':
                return Val('RV', 'vopp %s' % par(x.term), owned=True)
            if x.kind == 'RM':
                return Val('RM', 'mmap nopp %s' % par(x.term), owned=True)
            fail(e, 'unary minus of %s' % x.kind)
        if isinstance(e, ast.BinOp):
            return self.binop(e, self.expr(e.left, fr), self.expr(e.right, fr))
        if isinstance(e, ast.Subscript):
            return self.subscript(e, fr)
        if isinstance(e, ast.Call):
            return self.call(e, fr)
        fail(e, 'expression %s' % type(e).__name__)

    def binop(self, e, x, y):
        sym = {ast.Add: '+', ast.Sub: '-', ast.Mult: '*', ast.Div: '/'}.get(type(e.op))
        if sym is None:
            fail(e, 'binary operator %s' % type(e.op).__name__)
        kx, ky = x.kind, y.kind
        ints = ('INT', 'Z')
        if kx == 'INT' and ky == 'INT':
            fail(e, 'arithmetic on two int literals')
        if kx in ints and ky in ints:
            if sym == '/':
                fail(e, 'true division of python ints')
            return Val('Z', '(%s %s %s)%%Z' % (zpar(as_z(x, e).term), sym, zpar(as_z(y, e).term)))
        if kx in ints and ky == 'ZV' and sym != '/':
            return Val('ZV', 'map (fun d => (%s %s d)%%Z) %s' % (zpar(as_z(x, e).term), sym, par(y.term)), owned=True)
        if kx == 'ZV' and ky in ints and sym != '/':
            return Val('ZV', 'map (fun d => (d %s %s)%%Z) %s' % (sym, zpar(as_z(y, e).term), par(x.term)), owned=True)
        if kx in ('S', 'INT') and ky in ('S', 'INT'):
            return Val('S', '%s %s %s' % (par(as_s(x, e).term), sym, par(as_s(y, e).term)))
        if kx in ('S', 'INT') and ky == 'RV' and sym == '*':
            return Val('RV', 'scale %s %s' % (par(as_s(x, e).term), par(y.term)), owned=True)
        if kx == 'RV' and ky in ('S', 'INT') and sym in '*/':
            return Val('RV', 'map (fun %s => %s %s %s) %s' % (X, X, sym, par(as_s(y, e).term), par(x.term)), owned=True)
        if kx == 'RV' and ky == 'RV':
            return Val('RV', 'map2 %s %s %s' % (OPF[sym], par(x.term), par(y.term)), owned=True)
        if kx == 'ROW' and ky == 'COL':
            return Val('RM', 'bc_row_col %s %s %s' % (OPF[sym], par(x.term), par(y.term)), owned=True)
        if kx == 'RM' and ky == 'COL':
            return Val('RM', 'bc_mat_col %s %s %s' % (OPF[sym], par(x.term), par(y.term)), owned=True)
        if kx == 'RM' and ky == 'RV':
            return Val('RM', 'bc_mat_row %s %s %s' % (OPF[sym], par(x.term), par(y.term)), owned=True)
        if kx == 'RM' and ky == 'RM':
            return Val('RM', 'mmap2 %s %s %s' % (OPF[sym], par(x.term), par(y.term)), owned=True)
        if kx == 'RM' and ky in ('S', 'INT') and sym in '*/':
            return Val('RM', 'mmap (fun %s => %s %s %s) %s' % (X, X, sym, par(as_s(y, e).term), par(x.term)), owned=True)
        if kx in ('S', 'INT') and ky == 'RM' and sym == '*':
            return Val('RM', 'mmap (fun %s => %s * %s) %s' % (X, par(as_s(x, e).term), X, par(y.term)), owned=True)
        fail(e, 'operands %s %s %s' % (kx, sym, ky))

    def bound(self, n, fr):
        if n is None:
            return 'None'
        return '(Some %s)' % zpar(as_z(self.expr(n, fr), n).term)

    def view(self, node, fr):
        if isinstance(node, ast.Name):
            fr.viewed.add(node.id)

    def subscript(self, e, fr):
        x = self.expr(e.value, fr)
        sl = e.slice
        if isinstance(sl, ast.Index):
            sl = sl.value
        if isinstance(sl, ast.Tuple) and len(sl.elts) == 2:
            p, q = sl.elts
            full = lambda s: isinstance(s, ast.Slice) and s.lower is None and s.upper is None and s.step is None     # noqa: E731
            newax = lambda s: dotted(s) == 'np.newaxis'                                                               # noqa: E731
            if x.kind == 'RV' and newax(p) and full(q):
                self.view(e.value, fr)
                return Val('ROW', x.term)
            if x.kind == 'RV' and full(p) and newax(q):
                self.view(e.value, fr)
                return Val('COL', x.term)
            if x.kind == 'RM' and isinstance(q, ast.Slice) and q.step is None and not full(q):
                lo, hi = self.bound(q.lower, fr), self.bound(q.upper, fr)
                if isinstance(p, ast.Name) and self.name(p, fr).kind == 'IDX':
                    self.view(e.value, fr)
                    return Val('RV', 'py_slice %s %s (nth %s %s [])' % (lo, hi, self.name(p, fr).term, par(x.term)))
                if full(p):
                    self.view(e.value, fr)
                    return Val('RM', 'map (py_slice %s %s) %s' % (lo, hi, par(x.term)))
            fail(e, 'two-dimensional subscript of %s' % x.kind)
        if isinstance(sl, ast.Name) and self.name(sl, fr).kind == 'IDX' and x.kind == 'ZV':
            return Val('Z', 'nth %s %s 0%%Z' % (self.name(sl, fr).term, par(x.term)))
        if is_int_const(sl) and sl.value >= 0 and x.kind == 'RM':
            self.view(e.value, fr)
            return Val('RV', 'nth %d %s []' % (sl.value, par(x.term)))
        fail(e, 'subscript of %s' % x.kind)

    def kwargs(self, e):
        if any(isinstance(a, ast.Starred) for a in e.args) or any(k.arg is None for k in e.keywords):
            fail(e, 'star arguments')
        kws = {}
        for k in e.keywords:
            if k.arg in kws:
                fail(e, 'repeated keyword')
            kws[k.arg] = k.value
        return kws

    def call(self, e, fr):
        d = dotted(e.func)
        if d is None:
            fail(e, 'call of a computed function')
        args, kws = e.args, self.kwargs(e)
        head = d.split('.')[0]
        if head in fr.env:
            fail(e, '%s is a local name' % head)

        def only(n, names=()):
            if len(args) != n or set(kws) != set(names):
                fail(e, 'arguments of %s' % d)
        if d == 'len':
            only(1)
            x = self.expr(args[0], fr)
            if x.kind not in ('RV', 'ZV', 'RM'):
                fail(e, 'len of %s' % x.kind)
            return Val('Z', 'Z.of_nat (length %s)' % par(x.term), nat='length %s' % par(x.term))
        if d == 'int':
            only(1)
            return Val('Z', 'py_int %s' % par(as_s(self.expr(args[0], fr), e).term))
        if d == 'np.array':
            if len(args) != 1 or not set(kws) <= {'dtype'}:
                fail(e, 'arguments of np.array')
            if 'dtype' in kws:
                if not (isinstance(kws['dtype'], ast.Name) and kws['dtype'].id == 'int' and 'int' not in fr.env):
                    fail(e, 'np.array dtype other than int')
                x = self.expr(args[0], fr)
                if x.kind != 'RV':
                    fail(e, 'np.array(.., dtype=int) of %s' % x.kind)
                return Val('ZV', 'map py_int %s' % par(x.term), owned=True)
            if isinstance(args[0], ast.List):
                if len(args[0].elts) != 1:
                    fail(e, 'np.array of a list of other than one scalar')
                return Val('RV', '[%s]' % as_s(self.expr(args[0].elts[0], fr), e).term, owned=True)
            x = self.expr(args[0], fr)
            if x.kind != 'RV':
                fail(e, 'np.array of %s' % x.kind)
            return Val('RV', x.term, owned=True)
        if d in ('np.max', 'np.min'):
            only(1)
            w = d[3:]
            if isinstance(args[0], ast.List):
                zs = [as_z(self.expr(a, fr), a).term for a in args[0].elts]
                if len(zs) < 2:
                    fail(e, '%s of a list of fewer than two ints' % d)
                t = zs[0]
                for z in zs[1:]:
                    t = 'Z.%s %s %s' % (w, zpar(t), zpar(z))
                return Val('Z', t)
            x = self.expr(args[0], fr)
            if x.kind == 'ZV':
                return Val('Z', 'zv_%s %s' % (w, par(x.term)))
            if x.kind == 'RV':
                return Val('S', 'a%s %s' % (w, par(x.term)))
            fail(e, '%s of %s' % (d, x.kind))
        if d == 'np.pad':
            only(2, ('mode', 'constant_values'))
            if str_const(kws['mode']) != 'constant' or not is_int_const(kws['constant_values'], 0):
                fail(e, "np.pad other than mode='constant', constant_values=0")
            w = args[1]
            if not (isinstance(w, ast.Tuple) and len(w.elts) == 2 and is_int_const(w.elts[0], 0)):
                fail(e, 'np.pad width other than (0, k)')
            x, k = self.expr(args[0], fr), as_z(self.expr(w.elts[1], fr), e)
            if x.kind != 'RV':
                fail(e, 'np.pad of %s' % x.kind)
            return Val('RV', 'np_pad_right %s %s' % (par(x.term), zpar(k.term)), owned=True)
        if d == 'np.arange':
            only(1)
            k = self.expr(args[0], fr)
            kz = as_z(k, e)
            return Val('RV', 'np_arange %s' % zpar(kz.term), owned=True, arange_npts_of=k.meta.get('npts_of'))
        if d == 'np.interp':
            only(3, ('left', 'right'))
            if not (is_int_const(kws['left'], 0) and is_int_const(kws['right'], 0)):
                fail(e, 'np.interp other than left=0, right=0')
            x, xp, fp = [self.expr(a, fr) for a in args]
            o = fp.meta.get('values_of')
            if fp.kind != 'RV' or o is None or xp.meta.get('arange_npts_of') != o:
                fail(e, 'np.interp other than (x, np.arange(o.npts), o.values, ..) of one signal object')
            if x.kind == 'RM':
                return Val('RM', 'mmap (np_interp_arange0 %s) %s' % (par(fp.term), par(x.term)), owned=True)
            if x.kind == 'RV':
                return Val('RV', 'map (np_interp_arange0 %s) %s' % (par(fp.term), par(x.term)), owned=True)
            fail(e, 'np.interp of %s' % x.kind)
        if d == 'np.zeros_like':
            only(1)
            x = self.expr(args[0], fr)
            if x.kind != 'ZV':
                fail(e, 'np.zeros_like of %s' % x.kind)
            return Val('ZV', 'map (fun _ => 0%%Z) %s' % par(x.term), owned=True)
        if d == 'np.zeros':
            only(1)
            t = args[0]
            if not (isinstance(t, ast.Tuple) and len(t.elts) == 2):
                fail(e, 'np.zeros other than np.zeros((len(x), k))')
            r, c = self.expr(t.elts[0], fr), as_z(self.expr(t.elts[1], fr), e)
            if r.kind != 'Z' or 'nat' not in r.meta or 'npts_of' in r.meta:
                fail(e, 'np.zeros: the number of rows is not len(x)')
            return Val('ZEROS2', None, rows=r.meta['nat'], cols=c.term)
        if d in ('np.abs', 'abs'):
            only(1)
            x = self.expr(args[0], fr)
            if x.kind == 'S':
                return Val('S', 'nabs %s' % par(x.term))
            if x.kind == 'RV':
                return Val('RV', 'vabs %s' % par(x.term), owned=True)
            if x.kind == 'RM':
                return Val('RM', 'mmap nabs %s' % par(x.term), owned=True)
            if x.kind == 'ARR':
                return Val('ARR', 'arr_map vabs %s' % par(x.term))
            fail(e, 'abs of %s' % x.kind)
        if d == 'np.diff':
            only(1, ('axis', 'prepend'))
            x = self.expr(args[0], fr)
            if not (is_neg1(kws['axis']) and is_int_const(kws['prepend'], 0) and x.kind == 'ARR'):
                fail(e, 'np.diff other than (a, axis=-1, prepend=0) of a 1-d / 2-d result')
            return Val('ARR', 'arr_map (fun r => diff (n0 :: r)) %s' % par(x.term))
        if d == 'np.cumsum':
            only(1, ('axis',))
            x = self.expr(args[0], fr)
            if not (is_neg1(kws['axis']) and x.kind == 'ARR'):
                fail(e, 'np.cumsum other than (a, axis=-1) of a 1-d / 2-d result')
            return Val('ARR', 'arr_map cumsum %s' % par(x.term))
        if d == 'cumulative_trapezoid':
            if not fr.ct_local:
                fail(e, 'cumulative_trapezoid is not imported from scipy.integrate in this function')
            only(1, ('dx', 'initial', 'axis'))
            if not (is_int_const(kws['initial'], 0) and is_int_const(kws['axis'], 1)):
                fail(e, 'cumulative_trapezoid other than initial=0, axis=1')
            y, dx = self.expr(args[0], fr), as_s(self.expr(kws['dx'], fr), e)
            if y.kind != 'RM':
                fail(e, 'cumulative_trapezoid of %s' % y.kind)
            return Val('RM', 'map (cumtrapz %s) %s' % (par(dx.term), par(y.term)), owned=True)
        if d in self.done and isinstance(e.func, ast.Name):
            return self.gen_call(e, fr, d, args, kws)
        fail(e, 'call of %s' % d)

    def gen_call(self, e, fr, fname, args, kws):
        spec, fn = self.done[fname]
        if spec['file'] != self.spec['file']:
            fail(e, '%s is not a function of this module' % fname)
        names = [a.arg for a in fn.args.args]
        if len(args) > len(names):
            fail(e, 'too many arguments')
        given = dict(zip(names, args))
        for k, v in kws.items():
            if k not in names or k in given:
                fail(e, 'keyword argument %s' % k)
            given[k] = v
        dflt = dict(zip(names[len(names) - len(fn.args.defaults):], fn.args.defaults))
        out, red = [], {}
        for pn, kind, _ in spec['params']:
            node = given.get(pn, dflt.get(pn))
            if node is None:
                fail(e, 'argument %s of %s is missing' % (pn, fname))
            if pn not in given:                                  # the callee's default: a constant
                v = default_val(node, kind)
            else:
                v = self.expr(node, fr)
            if kind == 'OBJ':
                if v.kind != 'OBJ':
                    fail(e, 'argument %s is not the signal object' % pn)
                out += ['dt', 'a']
            elif kind in ('REDU', 'REDD'):
                if v.kind != kind:
                    fail(e, 'argument %s is not the (unrefined) parameter of the same role' % pn)
                red[kind] = v.term
                if kind == 'REDU':
                    out.append(v.term)
            elif kind == 'S':
                out.append(par(as_s(v, e).term))
            elif kind == 'Z':
                out.append(zpar(as_z(v, e).term))
            else:
                if v.kind != kind:
                    fail(e, 'argument %s of %s: %s given, %s expected' % (pn, fname, v.kind, kind))
                out.append(par(v.term))
        if red and (set(red) != {'REDU', 'REDD'} or red['REDU'] != red['REDD']):
            fail(e, 'the two reductions are not passed together')
        rk = spec['ret']
        if rk == 'OPT_RM':
            fail(e, 'call of a function with an optional result')
        return Val(rk, '%s %s' % (spec['gen'], ' '.join(out)), owned=True)

    # ------------------------------------------------------------ conditions
    def cond(self, t, fr):
        """-> ('b', term) | ('arg', name, positive) | ('red', positive)"""
        if isinstance(t, ast.Name):
            v = self.name(t, fr)
            if v.kind != 'B':
                fail(t, 'truth value of %s' % v.kind)
            return ('b', v.term)
        if isinstance(t, ast.UnaryOp) and isinstance(t.op, ast.Not):
            c = self.cond(t.operand, fr)
            if c[0] == 'b':
                return ('b', 'negb %s' % par(c[1]))
            if c[0] == 'arg':
                return ('arg', c[1], not c[2])
            return ('red', not c[1])
        if isinstance(t, ast.BoolOp):
            cs = [self.cond(v, fr) for v in t.values]
            if any(c[0] != 'b' for c in cs):
                fail(t, 'hasattr inside and / or')
            return ('b', (' && ' if isinstance(t.op, ast.And) else ' || ').join('(%s)' % c[1] for c in cs))
        if isinstance(t, ast.Call) and dotted(t.func) == 'hasattr' and 'hasattr' not in fr.env:
            if len(t.args) != 2 or t.keywords or str_const(t.args[1]) != '__len__' or not isinstance(t.args[0], ast.Name):
                fail(t, "hasattr other than hasattr(name, '__len__')")
            v = self.name(t.args[0], fr)
            if v.kind == 'ARG':
                return ('arg', t.args[0].id, True)
            if v.kind == 'REDU':
                return ('red', True)
            fail(t, 'hasattr on %s' % v.kind)
        if isinstance(t, ast.Compare) and len(t.ops) == 1:
            op, l, r = t.ops[0], t.left, t.comparators[0]
            if isinstance(op, ast.In):
                x = self.expr(l, fr)
                if x.kind != 'STR' or not isinstance(r, ast.List) or not r.elts or any(str_const(s) is None for s in r.elts):
                    fail(t, '`in` other than <string parameter> in [literals]')
                return ('b', ' || '.join('String.eqb %s %s' % (x.term, coq_str(str_const(s), t)) for s in r.elts))
            x = self.expr(l, fr)
            if x.kind == 'STR':
                if isinstance(op, ast.Eq) and str_const(r) is not None:
                    return ('b', 'String.eqb %s %s' % (x.term, coq_str(str_const(r), t)))
                fail(t, 'comparison of a string parameter other than == literal')
            y = self.expr(r, fr)
            sym = {ast.Lt: '<?', ast.Gt: '>?', ast.LtE: '<=?', ast.GtE: '>=?', ast.Eq: '=?'}.get(type(op))
            if x.kind in ('Z', 'INT') and y.kind in ('Z', 'INT') and not (x.kind == y.kind == 'INT'):
                if sym is not None:
                    return ('b', '(%s %s %s)%%Z' % (zpar(as_z(x, t).term), sym, zpar(as_z(y, t).term)))
                if isinstance(op, ast.NotEq):
                    return ('b', 'negb (%s =? %s)%%Z' % (zpar(as_z(x, t).term), zpar(as_z(y, t).term)))
            fail(t, 'comparison of %s and %s' % (x.kind, y.kind))
        if isinstance(t, ast.Constant) and isinstance(t.value, str):
            fail(t, 'string as a condition')
        fail(t, 'condition %s' % type(t).__name__)

    def branches(self, c, fr, nolet=None):
        """frames of the two branches and the function rendering the conditional of two terms"""
        f1, f2 = fr.copy(nolet), fr.copy(nolet)
        if c[0] == 'b':
            return f1, f2, (lambda a, b: '(if %s then %s else %s)' % (c[1], a, b)), ('if', c[1])
        if c[0] == 'arg':
            name, pos = c[1], c[2]
            b = fr.env[name].term
            fa, fs = (f1, f2) if pos else (f2, f1)
            fa.env[name] = Val('RV', b + '_v')
            fs.env[name] = Val('S', b + '_s')
            how = ('match', 'match %s with' % b, 'ArgArr %s_v' % b, 'ArgScalar %s_s' % b, pos)
        else:
            pos = c[1]
            ru = [n for n, v in fr.env.items() if v.kind == 'REDU']
            rd = [n for n, v in fr.env.items() if v.kind == 'REDD']
            if len(ru) != 1 or len(rd) != 1:
                raise Unsupported('the two reduction parameters are not both unrefined')
            b = fr.env[ru[0]].term
            fa, fs = (f1, f2) if pos else (f2, f1)
            fa.env[ru[0]], fa.env[rd[0]] = Val('RV', 'ru'), Val('RV', 'rd')
            fs.env[ru[0]], fs.env[rd[0]] = Val('S', 'ru'), Val('S', 'rd')
            how = ('match', 'match %s with' % b, 'RedArrays ru rd', 'RedScalars ru rd', pos)
        mk = (lambda x, y: '(%s %s => %s | %s => %s end)' % ((how[1], how[2], x, how[3], y) if pos else (how[1], how[2], y, how[3], x)))
        return f1, f2, mk, how

    # ------------------------------------------------------------ statements
    MERGEABLE = ('S', 'Z', 'RV', 'ZV', 'RM', 'ARR')

    def merge(self, fr, f1, f2, mk):
        """frame after an `if` whose branches ended in f1 / f2, or None when they cannot be merged"""
        out = fr.copy()
        out.viewed = f1.viewed | f2.viewed
        for n in list(f1.env) + [k for k in f2.env if k not in f1.env]:
            a, b = f1.env.get(n), f2.env.get(n)
            if a is None or b is None or 'UNBOUND' in (a.kind, b.kind):
                out.env[n] = Val('UNBOUND', None)
            elif a is b or a.same(b):
                out.env[n] = a
            elif a.kind == b.kind and a.kind in self.MERGEABLE:
                out.env[n] = self.let(fr, Val(a.kind, mk(a.term, b.term), owned=a.meta.get('owned') and b.meta.get('owned')))
            elif a.kind in ('S', 'INT') and b.kind in ('S', 'INT'):
                out.env[n] = self.let(fr, Val('S', mk(as_s(a, None).term, as_s(b, None).term)))
            elif a.kind in ('Z', 'INT') and b.kind in ('Z', 'INT'):
                out.env[n] = self.let(fr, Val('Z', mk(as_z(a, None).term, as_z(b, None).term)))
            else:
                return None
        return out

    def bind(self, fr, name, val, node):
        if name in RESERVED or name in self.done or name in self.m.funcs:
            fail(node, 'assignment to %s' % name)
        old = fr.env.get(name)
        if old is not None and old.kind in ('B', 'OBJ', 'STR', 'IDX', 'REDU', 'REDD'):
            fail(node, 'assignment to the parameter / index %s' % name)
        if val.kind in ('B', 'OBJ', 'STR', 'IDX', 'ARG', 'REDU', 'REDD', 'ROW', 'COL', 'UNBOUND'):
            fail(node, 'a name is bound to a value of kind %s' % val.kind)
        val = self.let(fr, val)
        fr.env[name] = val
        fr.viewed.discard(name)
        if val.kind in ('RV', 'ZV', 'RM', 'ARR') and not val.meta.get('owned'):
            # a second name for (or a view of) an existing array: from here on no array of this function is modified in place
            fr.viewed.update(n for n, v in fr.env.items() if v.kind in ('RV', 'ZV', 'RM', 'ARR'))

    def straight(self, stmts, fr):
        """statements without return: executes them in fr (updated in place); returns False if an `if` cannot be merged"""
        for s in stmts:
            if isinstance(s, ast.If):
                c = self.cond(s.test, fr)
                f1, f2, mk, _ = self.branches(c, fr, nolet=True)
                if not self.straight(s.body, f1) or not self.straight(s.orelse, f2):
                    return False
                m = self.merge(fr, f1, f2, mk)
                if m is None:
                    return False
                fr.env, fr.viewed = m.env, m.viewed
            else:
                self.simple(s, fr)
        return True

    def simple(self, s, fr):
        if isinstance(s, ast.Expr) and isinstance(s.value, ast.Constant) and isinstance(s.value.value, str):
            return
        if isinstance(s, ast.ImportFrom):
            if (s.module == 'scipy.integrate' and not s.level and len(s.names) == 1
                    and s.names[0].name == 'cumulative_trapezoid' and s.names[0].asname is None):
                fr.ct_local = True
                return
            fail(s, 'import other than `from scipy.integrate import cumulative_trapezoid`')
        if isinstance(s, ast.Assign):
            if len(s.targets) != 1 or not isinstance(s.targets[0], ast.Name):
                fail(s, 'assignment target')
            self.bind(fr, s.targets[0].id, self.expr(s.value, fr), s)
            return
        if isinstance(s, ast.AugAssign):
            if not isinstance(s.target, ast.Name):
                fail(s, 'augmented assignment target')
            n = s.target.id
            old = self.name(s.target, fr)
            if old.kind in ('RV', 'ZV', 'RM') and (not old.meta.get('owned') or n in fr.viewed):
                fail(s, 'in-place operation on an array that is a parameter or has a view')
            val = self.binop(ast.BinOp(left=s.target, op=s.op, right=s.value, lineno=s.lineno), old, self.expr(s.value, fr))
            if val.kind != old.kind:
                fail(s, 'in-place operation changes the shape')
            self.bind(fr, n, val, s)
            return
        if isinstance(s, ast.For):
            self.loop(s, fr)
            return
        fail(s, 'statement %s' % type(s).__name__)

    def loop(self, s, fr):
        if s.orelse:
            fail(s, 'for-else')
        it = s.iter
        inner = fr.copy(nolet=True)
        if (isinstance(it, ast.Call) and dotted(it.func) == 'range' and 'range' not in fr.env and len(it.args) == 1
                and not it.keywords and isinstance(s.target, ast.Name)):
            n = self.expr(it.args[0], fr)
            if n.kind != 'Z' or 'nat' not in n.meta or 'npts_of' in n.meta:
                fail(s, 'range of other than len(x)')
            rows, iv = n.meta['nat'], s.target.id
        elif (isinstance(it, ast.Call) and dotted(it.func) == 'enumerate' and 'enumerate' not in fr.env and len(it.args) == 1
              and not it.keywords and isinstance(s.target, ast.Tuple) and len(s.target.elts) == 2
              and all(isinstance(x, ast.Name) for x in s.target.elts)):
            x = self.expr(it.args[0], fr)
            if x.kind != 'ZV':
                fail(s, 'enumerate of %s' % x.kind)
            rows, iv = 'length %s' % par(x.term), s.target.elts[0].id
            jv = s.target.elts[1].id
            if jv == iv or jv in RESERVED or jv in fr.env:
                fail(s, 'loop variable %s' % jv)
            inner.env[jv] = Val('Z', 'nth i %s 0%%Z' % par(x.term))
        else:
            fail(s, 'loop other than `for i in range(len(x))` / `for i, j in enumerate(x)`')
        if iv in RESERVED or iv in fr.env:
            fail(s, 'loop variable %s shadows a name' % iv)
        inner.env[iv] = Val('IDX', 'i')
        zs = [n for n, v in fr.env.items() if v.kind == 'ZEROS2']
        self.outer = set(inner.env)
        row = self.rowtree(list(s.body), inner, iv, zs, s)
        z = fr.env[row[0]]
        if z.meta['rows'] != rows:
            fail(s, 'the loop does not run over the rows of %s' % row[0])
        fr.env[row[0]] = self.let(fr, Val('RM', 'map (fun i => %s) (seq 0 (%s))' % (row[1].replace('@COLS@', zpar(z.meta['cols'])), rows), owned=True))
        fr.viewed.discard(row[0])

    def rowtree(self, stmts, fr, iv, zs, node):
        """loop body -> (name of the zeros array, term of row i); exactly one row store on every path, as last statement"""
        stmts = list(stmts)
        while stmts:
            s = stmts.pop(0)
            if isinstance(s, ast.If):
                c = self.cond(s.test, fr)
                if c[0] != 'b':
                    fail(s, 'hasattr inside a loop')
                a = self.rowtree(list(s.body) + stmts, fr.copy(), iv, zs, s)
                b = self.rowtree(list(s.orelse) + stmts, fr.copy(), iv, zs, s)
                if a[0] != b[0]:
                    fail(s, 'the branches store into different arrays')
                return (a[0], 'if %s then %s else %s' % (c[1], a[1], b[1]))
            if isinstance(s, ast.Assign) and len(s.targets) == 1 and isinstance(s.targets[0], ast.Subscript):
                t = s.targets[0]
                if stmts:
                    fail(stmts[0], 'statement after the row store')
                if not (isinstance(t.value, ast.Name) and t.value.id in zs):
                    fail(s, 'store into something other than the untouched np.zeros array')
                sl = t.slice
                if isinstance(sl, ast.Index):
                    sl = sl.value
                v = self.expr(s.value, fr)
                if v.kind != 'RV':
                    fail(s, 'row store of %s' % v.kind)
                if isinstance(sl, ast.Name) and sl.id == iv:
                    return (t.value.id, v.term)
                if (isinstance(sl, ast.Tuple) and len(sl.elts) == 2 and isinstance(sl.elts[0], ast.Name) and sl.elts[0].id == iv
                        and isinstance(sl.elts[1], ast.Slice) and sl.elts[1].step is None):
                    lo, hi = self.bound(sl.elts[1].lower, fr), self.bound(sl.elts[1].upper, fr)
                    return (t.value.id, 'py_set_slice %s %s %s (np_zeros @COLS@)' % (lo, hi, par(v.term)))
                fail(s, 'row store other than z[i] = v / z[i, lo:hi] = v')
            if isinstance(s, (ast.Assign, ast.AugAssign)):
                t = s.targets[0] if isinstance(s, ast.Assign) and len(s.targets) == 1 else getattr(s, 'target', None)
                if not isinstance(t, ast.Name) or t.id in self.outer:
                    fail(s, 'a loop body may only bind names of its own (no name that exists before the loop)')
                self.simple(s, fr)
                continue
            fail(s, 'statement %s in a loop body' % type(s).__name__)
        fail(node, 'a path through the loop body stores no row')

    def block(self, stmts, fr, depth=0):
        """-> ('ret', Val | None) | ('if', term, t1, t2) | ('match', head, array arm, scalar arm, positive, t1, t2)"""
        if depth > 6:
            raise Unsupported('nesting too deep')
        fr = fr.copy()
        stmts = list(stmts)
        while stmts:
            s = stmts.pop(0)
            if isinstance(s, ast.Return):
                if s.value is None:
                    fail(s, 'bare return')
                return ('seq', fr.lets, ('ret', self.expr(s.value, fr)))
            if isinstance(s, ast.If):
                if not has_return(s.body) and not has_return(s.orelse):
                    trial, saved = fr.copy(), self.counter
                    trial.lets = list(fr.lets)
                    if self.straight([s], trial):
                        fr = trial
                        continue
                    self.counter = saved
                c = self.cond(s.test, fr)
                f1, f2, _, how = self.branches(c, fr)
                t1 = self.block(list(s.body) + stmts, f1, depth + 1)
                t2 = self.block(list(s.orelse) + stmts, f2, depth + 1)
                return ('seq', fr.lets, (how[0],) + tuple(how[1:]) + (t1, t2))
            self.simple(s, fr)
        return ('seq', fr.lets, ('ret', None))


def default_val(node, kind):
    if kind == 'B' and isinstance(node, ast.Constant) and isinstance(node.value, bool):
        return Val('B', 'true' if node.value else 'false')
    if kind == 'STR' and str_const(node) is not None:
        return Val('STR', coq_str(node.value, node))
    if kind == 'S' and isinstance(node, ast.Constant) and type(node.value) in (int, float):
        return Val('S', literal(node).term)
    fail(node, 'default value of a %s parameter' % kind)


def render(tree, ret, ind=2):
    sp = ' ' * ind
    if tree[0] == 'seq':
        return ''.join('%slet %s := %s in\n' % (sp, n, t) for n, t in tree[1]) + render(tree[2], ret, ind)
    if tree[0] == 'if':
        return '%sif %s then\n%s\n%selse\n%s' % (sp, tree[1], render(tree[2], ret, ind + 2), sp, render(tree[3], ret, ind + 2))
    if tree[0] == 'match':
        head, arm_a, arm_s, pos, t1, t2 = tree[1:]
        ta, ts = (t1, t2) if pos else (t2, t1)
        return '%s%s\n%s| %s =>\n%s\n%s| %s =>\n%s\n%send' % (sp, head, sp, arm_a, render(ta, ret, ind + 4), sp, arm_s, render(ts, ret, ind + 4), sp)
    v = tree[1]
    if ret == 'OPT_RM':
        if v is None:
            return sp + 'None'
        if v.kind != 'RM':
            raise Unsupported('result of kind %s where a matrix is expected' % v.kind)
        return '%sSome (%s)' % (sp, v.term)
    if v is None:
        raise Unsupported('control reaches the end of the function without a return')
    if ret == 'ARR':
        if v.kind == 'RV':
            return '%sArr1 (%s)' % (sp, v.term)
        if v.kind == 'RM':
            return '%sArr2 (%s)' % (sp, v.term)
        if v.kind == 'ARR':
            return sp + v.term
    elif v.kind == ret:
        return sp + v.term
    raise Unsupported('result of kind %s where %s is expected' % (v.kind, ret))


def translate_function(module, spec, done):
    fn = module.func(spec['func'])
    names = [a.arg for a in fn.args.args]
    if names != [p[0] for p in spec['params']]:
        raise Unsupported('%s: parameters are %r, expected %r' % (spec['func'], names, [p[0] for p in spec['params']]))
    env = {}
    for pn, kind, b in spec['params']:
        if pn in RESERVED:
            raise Unsupported('parameter named %s' % pn)
        env[pn] = Val(kind, b, owned=False)
    ctx = Ctx(module, spec, done)
    tree = ctx.block(list(fn.body), Frame(env))
    body = render(tree, spec['ret'])
    sig = ' '.join('(%s : %s)' % b for b in spec_binders(spec))
    extra = []
    defaults = dict(zip(names[len(names) - len(fn.args.defaults):], fn.args.defaults))
    for pn, kind, b in spec['params']:
        if pn in defaults:
            k = 'S' if kind in ('REDU', 'REDD') else kind
            v = default_val(defaults[pn], k)
            extra.append('Definition %s_default_%s : %s := %s.' % (spec['gen'], pn, COQ_TYPES[k], v.term))
    pysig = ast.unparse(fn.args)
    text = '(** %s: %s(%s) *)\nDefinition %s %s : %s :=\n%s.\n%s\n' % (
        spec['file'], spec['func'], pysig, spec['gen'], sig, COQ_TYPES[spec['ret']], body, '\n'.join(extra))
    done[spec['func']] = (spec, fn)
    return text


HEADER = '''(** GENERATED by translator/py2coq_c19.py from eqsig/surface.py (trim_to_length, calc_surface_energy,
    calc_cum_abs_surface_energy, get_time_shift_motions) and eqsig/fns/time_shift.py (put_array_in_2d_array,
    join_values_w_shifts) -- do not edit; rewritten on every run.
    One definition per source function, generic over [NumOps T], obtained by symbolic execution: every assignment of a compound
    value is a [let] named by its position in evaluation order (t1, t2, ...; assignments inside the branches of a merged [if]
    and inside a loop body are substituted); an [if] whose branches bind the same names to the same kinds is a conditional
    term, otherwise it duplicates what follows it.
    Inputs: (dt, a) = asig.dt, asig.values (asig.npts = length a); tts = the travel times (pyarg: a scalar or an array;
    [hasattr(., '__len__')] is the [match]); reds = up_red and down_red together (pyreds: both scalars or both arrays);
    a 2-d array is the list of its rows; a result that is 1-d or 2-d is a pyarr; python ints are Z.
    The readings of the array statements (py_int, zv_max, py_slice, py_set_slice, np_zeros, np_pad_right, np_arange,
    bc_row_col, bc_mat_col, bc_mat_row, mmap, mmap2, np_interp_arange0, arr_map) are in lib/NpSurf.v; scale, map2, vopp, vabs,
    amax, cumtrapz, cumsum, diff in lib/NpList.v.  A loop over the rows of an np.zeros array is a [map] over [seq].
    proofs/P_gen_c19.v proves every definition equal to the model of model/M_surface.v. *)
From Coq Require Import ZArith Bool String List.
From EQ Require Import lib.Num lib.NpList lib.NpSurf.
Import ListNotations.
Local Open Scope num_scope.

Section Generic.
Context {T : Type} `{NumOps T}.
'''


def translate_sources(read):
    mods, defs, done = {}, [], {}
    for spec in SPECS:
        if spec['file'] not in mods:
            mods[spec['file']] = Module(spec['file'], read(spec['file']))
        try:
            defs.append(translate_function(mods[spec['file']], spec, done))
        except Unsupported as e:
            raise Unsupported('%s:%s: %s' % (spec['file'], spec['func'], e))
    return HEADER + '\n' + '\n'.join(defs) + 'End Generic.\n'


def regenerate(repo=None, out=None):
    """returns True iff the file was rewritten; raises Unsupported / OSError / SyntaxError (fail closed).
    On failure the committed copy is left as it is: the caller reports the broken tie."""
    repo = repo or os.environ.get('EQSIG_REPO', '/repo')
    out = out or OUT
    text = translate_sources(lambda rel: open(os.path.join(repo, rel)).read())
    old = open(out).read() if os.path.exists(out) else None
    if old != text:
        os.makedirs(os.path.dirname(out), exist_ok=True)
        tmp = '%s.%d.tmp' % (out, os.getpid())
        with open(tmp, 'w') as f:
            f.write(text)
        os.replace(tmp, out)
        return True
    return False


def main():
    try:
        ch = regenerate(repo=sys.argv[1] if len(sys.argv) > 1 else None)
    except Exception as e:  # fail closed
        print('py2coq_c19: translation FAILED: %s: %s' % (type(e).__name__, e))
        return 1
    print('py2coq_c19: %s %s' % (os.path.relpath(OUT, VERIF), 'rewritten' if ch else 'unchanged'))
    return 0


if __name__ == '__main__':
    sys.exit(main())
