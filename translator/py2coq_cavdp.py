#!/venv/bin/python
"""Fail-closed translator of a Python function with a state-carrying loop:
    eqsig/im.py: calc_cav_dp  ->  coq/gen/Gen_cavdp.v                                   (property C09)

The function is executed symbolically, statement by statement.  Every assignment of a compound expression becomes a
`let tK := .. in` (K = order of appearance, so a renamed temporary gives byte-identical text); a statement that can
raise becomes `res_bind (..) (fun tK => ..)` (lib/NpLoop.v); the body of the `for _ in range(..)` loop becomes a separate
definition `<gen>_step` over the tuple of the names that the loop carries from one pass to the next (the names bound
before the loop and assigned in it, in the order of their first binding: s1, s2, ..), with the other names it reads as
parameters (p1, p2, .. in the order of their binding before the loop), iterated by `res_iter`.
coq/proofs/P_gen_cavdp.v proves the generated function equal to the hand-written model `cav_dp` (model/M_im.v) on every
record for which dt * pps = 1 (the hypothesis of the model's own theorems) -- so a changed operand, index, literal,
comparison or slice bound changes the generated term and breaks a proof obligation of Prop_C09 on the next run.
Anything outside the whitelist below raises `Unsupported` (= the tie is broken; the harness reports it).

kinds       : Z python int | T float | V 1-d float array / list of floats | M boolean array | B bool | the object parameter
expressions : names; int / float literals (floats as the exact decimal rational of their repr);
              `asig.dt`, `asig.values`, `asig.time` -> inputs dt, a, time;
              + - * on ints -> Z arithmetic; + - * / with a float operand -> T arithmetic, ints coerced by nofZ
              (literals 0, 1 -> n0, n1); `/` on two ints -> T (true division);
              V / T -> map (fun x => x / c) V;  T * V -> scale;  V * T -> map (fun x => x * c) V;
              comparisons < <= > >= of scalars -> <? <=? (operands swapped for > >=); of a scalar and an array -> M
              (map (fun x => a <=? x) V ..);  M * M -> map2 andb;
              int(T) -> py_int;  abs / np.abs -> nabs / vabs;  np.array(V) -> V;  max(V) -> of_opt ValueError (py_max V);
              V[-1] -> of_opt IndexError (py_last V);  V[np.where(M)] -> np_select V M;
              np.arange(T, T, T) -> np_arange3;  np.arange(Z) -> np_arange1;
              trapezoid(V, V) (after `from scipy.integrate import trapezoid` in the function) -> np_trapezoid_res;
              np.interp(V, V, V) -> np_interp_res.
statements  : docstring;  `from scipy.integrate import trapezoid`;  `name = e`;  `name = []`;
              `for j in range(Z, Z): name.append(V[j])` directly on a `name = []` -> py_gather V lo hi;
              `name.append(T)` on a list of floats -> name ++ [e];
              `if c: names = .. [elif ..] [else: names = ..]` (plain assignments only) -> `if c then .. else ..` per name;
              the same chain ending in `else: raise ValueError(..)` (one name assigned in every branch)
                  -> res_bind (if c then PyOk .. else if .. else PyRaise ValueError);
              one `for _ in range([0,] Z):` whose variable is not used;  `return V`.
"""
import ast, os, sys
from fractions import Fraction

HERE = os.path.dirname(os.path.abspath(__file__))
VERIF = os.path.dirname(HERE)
OUT = os.path.join(VERIF, 'coq', 'gen', 'Gen_cavdp.v')

SPEC = dict(file='eqsig/im.py', func='calc_cav_dp', gen='gen_cav_dp', param='asig',
            attrs={'dt': ('dt', 'T'), 'time': ('time', 'V'), 'values': ('a', 'V')},
            inputs=[('dt', 'T'), ('time', 'V'), ('a', 'V')])
RESERVED = {'np', 'numpy', 'scipy', 'abs', 'max', 'min', 'len', 'int', 'range', 'trapezoid', 'ValueError', 'IndexError'}
COQ_T = {'Z': 'Z', 'T': 'T', 'V': 'list T', 'M': 'list bool', 'B': 'bool'}
EXCS = ('ValueError', 'IndexError')


class Unsupported(Exception):
    pass


def fail(node, msg):
    raise Unsupported('%s (line %s)' % (msg, getattr(node, 'lineno', '?')))


class Val:
    def __init__(self, kind, term, lit=None):
        self.kind, self.term, self.lit = kind, term, lit     # lit: the int of an int literal (kind Z) / True for `[]`


def atom(t):
    return t.replace('_', 'a').isalnum()


def par(t):
    return t if atom(t) or t.endswith('%Z') and t.startswith('(') else '(%s)' % t


def zlit_T(k):
    if k == 0:
        return 'n0'
    if k == 1:
        return 'n1'
    return 'nofZ %d' % k if k > 0 else 'nofZ (%d)' % k


def zlit_Z(k):
    return '%d%%Z' % k if k >= 0 else '(%d)%%Z' % k


def literal(node):
    v = node.value
    if isinstance(v, bool) or not isinstance(v, (int, float)):
        fail(node, 'literal %r' % (v,))
    if isinstance(v, int):
        if abs(v) > 10 ** 9:
            fail(node, 'integer literal too large')
        return Val('Z', zlit_Z(v), lit=v)
    fr = Fraction(repr(v))
    if float(fr) != v or fr.denominator > 10 ** 12 or abs(fr.numerator) > 10 ** 15:
        fail(node, 'float literal %r is not a short decimal' % v)
    if fr.denominator == 1:
        return Val('T', zlit_T(fr.numerator))
    return Val('T', '%s / %s' % (par(zlit_T(fr.numerator)), par(zlit_T(fr.denominator))))


def as_T(v, node):
    if v.kind == 'T':
        return v.term
    if v.kind == 'Z':
        return zlit_T(v.lit) if v.lit is not None else 'nofZ %s' % par(v.term)
    fail(node, 'a number is expected here, found kind %s' % v.kind)


def dotted(node):
    parts = []
    while isinstance(node, ast.Attribute):
        parts.append(node.attr)
        node = node.value
    if isinstance(node, ast.Name):
        parts.append(node.id)
        return '.'.join(reversed(parts))
    return None


def is_int(node, k):
    return isinstance(node, ast.Constant) and type(node.value) is int and node.value == k


def is_neg1(node):
    return isinstance(node, ast.UnaryOp) and isinstance(node.op, ast.USub) and is_int(node.operand, 1)


class Frame:
    """one generated definition: environment, emitted lines, fresh-name counter"""
    def __init__(self, env, prefix='t'):
        self.env = dict(env)
        self.lines = []          # ('let', name, term) | ('bind', pattern, term)
        self.n = 0
        self.prefix = prefix
        self.reads = []          # names of the enclosing frame read here (loop body only)
        self.outer = {}          # name -> Val of the enclosing frame (loop body only)
        self.trapezoid_ok = False

    def fresh(self):
        self.n += 1
        return '%s%d' % (self.prefix, self.n)

    def let(self, kind, term):
        n = self.fresh()
        self.lines.append(('let', n, term))
        return Val(kind, n)

    def bind(self, kind, term):
        n = self.fresh()
        self.lines.append(('bind', n, term))
        return Val(kind, n)

    def render(self, final, ind=2):
        sp = ' ' * ind
        out, closes = [], 0
        for k, n, t in self.lines:
            if k == 'let':
                out.append('%slet %s := %s in' % (sp, n, t))
            else:
                out.append('%sres_bind (%s) (fun %s =>' % (sp, t, n))
                closes += 1
        out.append('%s%s%s' % (sp, final, ')' * closes))
        return '\n'.join(out)


class Translator:
    def __init__(self, src, spec):
        self.spec = spec
        tree = ast.parse(src)
        self.np_ok = False
        fns = []
        for st in tree.body:
            if isinstance(st, ast.FunctionDef):
                if st.name in RESERVED:
                    fail(st, 'module defines %s' % st.name)
                if st.name == spec['func']:
                    fns.append(st)
            elif isinstance(st, ast.Import):
                for al in st.names:
                    bound = al.asname or al.name.split('.')[0]
                    if bound == 'np':
                        if al.name != 'numpy':
                            fail(st, 'np is bound to %s' % al.name)
                        self.np_ok = True
                    elif bound in RESERVED and bound != 'scipy':
                        fail(st, 'module binds %s' % bound)
            elif isinstance(st, ast.ImportFrom):
                for al in st.names:
                    bound = al.asname or al.name
                    if bound in RESERVED or al.name == '*':
                        fail(st, 'module binds %s' % bound)
            else:
                for n in ast.walk(st):
                    if isinstance(n, ast.Name) and isinstance(n.ctx, (ast.Store, ast.Del)) and (n.id in RESERVED or n.id == spec['func']):
                        fail(st, 'module assigns %s' % n.id)
                    if isinstance(n, (ast.FunctionDef, ast.ClassDef)) and getattr(n, 'name', None) in RESERVED | {spec['func']}:
                        fail(st, 'module defines %s' % n.name)
        if len(fns) != 1:
            raise Unsupported('%s is defined %d times in %s' % (spec['func'], len(fns), spec['file']))
        self.fn = fns[0]
        a = self.fn.args
        if self.fn.decorator_list or a.vararg or a.kwarg or a.kwonlyargs or getattr(a, 'posonlyargs', []) or a.defaults:
            fail(self.fn, 'unsupported signature')
        if [x.arg for x in a.args] != [spec['param']]:
            fail(self.fn, 'parameters are not (%s)' % spec['param'])
        if not self.np_ok:
            raise Unsupported('np is not `import numpy as np`')
        self.step_text = None

    # ------------------------------------------------------------ expressions
    def lookup(self, fr, node, name):
        if name in fr.env:
            return fr.env[name]
        if name in fr.outer:
            if name not in fr.reads:
                fr.reads.append(name)
            v = fr.outer[name]
            pn = fr.pnames.get(name)
            if pn is None:                              # kind-inference pass: the term is irrelevant
                return Val(v.kind, '?' + name, v.lit)
            return Val(v.kind, pn)                      # a parameter of the step: never a literal there
        fail(node, 'unknown name %s' % name)

    def expr(self, e, fr):
        if isinstance(e, ast.Constant):
            return literal(e)
        if isinstance(e, ast.Name):
            if e.id == self.spec['param']:
                fail(e, 'the object parameter is used other than by attribute reads')
            return self.lookup(fr, e, e.id)
        if isinstance(e, ast.Attribute):
            if isinstance(e.value, ast.Name) and e.value.id == self.spec['param'] and self.spec['param'] not in fr.env:
                if e.attr not in self.spec['attrs']:
                    fail(e, 'attribute .%s of the object parameter' % e.attr)
                name, kind = self.spec['attrs'][e.attr]
                if name not in fr.inputs_read:
                    fr.inputs_read.append(name)
                return Val(kind, name)
            fail(e, 'attribute %s' % (dotted(e) or '?'))
        if isinstance(e, ast.UnaryOp):
            if isinstance(e.op, ast.USub):
                if isinstance(e.operand, ast.Constant) and type(e.operand.value) is int:
                    return Val('Z', zlit_Z(-e.operand.value), lit=-e.operand.value)
                x = self.expr(e.operand, fr)
                if x.kind == 'Z':
                    return Val('Z', '(- %s)%%Z' % par(x.term))
                if x.kind == 'T':
                    return Val('T', '- %s' % par(x.term))
            fail(e, 'unary operator')
        if isinstance(e, ast.BinOp):
            return self.binop(e, fr)
        if isinstance(e, ast.Compare):
            return self.compare(e, fr)
        if isinstance(e, ast.Subscript):
            return self.subscript(e, fr)
        if isinstance(e, ast.Call):
            return self.call(e, fr)
        fail(e, 'expression %s' % type(e).__name__)

    def binop(self, e, fr):
        ops = {ast.Add: '+', ast.Sub: '-', ast.Mult: '*', ast.Div: '/'}
        sym = ops.get(type(e.op))
        if sym is None:
            fail(e, 'binary operator %s' % type(e.op).__name__)
        x, y = self.expr(e.left, fr), self.expr(e.right, fr)
        kx, ky = x.kind, y.kind
        if kx == 'Z' and ky == 'Z' and sym != '/':
            return Val('Z', '(%s %s %s)%%Z' % (par(x.term), sym, par(y.term)))
        if kx in 'ZT' and ky in 'ZT':
            return Val('T', '%s %s %s' % (par(as_T(x, e)), sym, par(as_T(y, e))))
        if kx == 'V' and ky in 'ZT' and sym in '*/':
            return Val('V', 'map (fun x => x %s %s) %s' % (sym, par(as_T(y, e)), par(x.term)))
        if kx in 'ZT' and ky == 'V' and sym == '*':
            return Val('V', 'scale %s %s' % (par(as_T(x, e)), par(y.term)))
        if kx == 'M' and ky == 'M' and sym == '*':
            return Val('M', 'map2 andb %s %s' % (par(x.term), par(y.term)))
        fail(e, 'operands of %s: %s, %s' % (sym, kx, ky))

    def compare(self, e, fr):
        if len(e.ops) != 1:
            fail(e, 'chained comparison')
        op = type(e.ops[0])
        if op not in (ast.Lt, ast.LtE, ast.Gt, ast.GtE):
            fail(e, 'comparison %s' % op.__name__)
        x, y = self.expr(e.left, fr), self.expr(e.comparators[0], fr)
        sym = '<?' if op in (ast.Lt, ast.Gt) else '<=?'
        swap = op in (ast.Gt, ast.GtE)
        if x.kind == 'Z' and y.kind == 'Z':
            l, r = (y, x) if swap else (x, y)
            return Val('B', '(%s %s %s)%%Z' % (par(l.term), sym, par(r.term)))
        if x.kind in 'ZT' and y.kind in 'ZT':
            l, r = (y, x) if swap else (x, y)
            return Val('B', '%s %s %s' % (par(as_T(l, e)), sym, par(as_T(r, e))))
        if x.kind in 'ZT' and y.kind == 'V':
            l, r = ('x', par(as_T(x, e))) if swap else (par(as_T(x, e)), 'x')
            return Val('M', 'map (fun x => %s %s %s) %s' % (l, sym, r, par(y.term)))
        if x.kind == 'V' and y.kind in 'ZT':
            l, r = (par(as_T(y, e)), 'x') if swap else ('x', par(as_T(y, e)))
            return Val('M', 'map (fun x => %s %s %s) %s' % (l, sym, r, par(x.term)))
        fail(e, 'comparison of %s and %s' % (x.kind, y.kind))

    def subscript(self, e, fr):
        sl = e.slice
        if isinstance(sl, ast.Index):
            sl = sl.value
        x = self.expr(e.value, fr)
        if x.kind != 'V':
            fail(e, 'subscript of a non-array')
        if is_neg1(sl):
            return fr.bind('T', 'of_opt IndexError (py_last %s)' % par(x.term))
        if isinstance(sl, ast.Call) and dotted(sl.func) == 'np.where' and len(sl.args) == 1 and not sl.keywords:
            m = self.expr(sl.args[0], fr)
            if m.kind != 'M':
                fail(e, 'np.where of a non-boolean array')
            return fr.bind('V', 'np_select %s %s' % (par(x.term), par(m.term)))
        fail(e, 'subscript other than [-1] / [np.where(mask)]')

    def call(self, e, fr):
        d = dotted(e.func)
        if d is None:
            fail(e, 'call of a computed function')
        if e.keywords or any(isinstance(a, ast.Starred) for a in e.args):
            fail(e, 'keyword / star arguments in a call of %s' % d)
        if d.split('.')[0] in fr.env or d.split('.')[0] in fr.outer:
            fail(e, 'call of a local name')
        args = e.args
        if d == 'int' and len(args) == 1:
            x = self.expr(args[0], fr)
            if x.kind == 'Z':
                return x
            if x.kind == 'T':
                return Val('Z', 'py_int %s' % (x.term if atom(x.term) else '(%s)%%num' % x.term))
            fail(e, 'int of a non-number')
        if d in ('abs', 'np.abs') and len(args) == 1:
            x = self.expr(args[0], fr)
            if x.kind == 'V':
                return Val('V', 'vabs %s' % par(x.term))
            if x.kind in 'ZT':
                return Val('T', 'nabs %s' % par(as_T(x, e)))
            fail(e, 'abs of kind %s' % x.kind)
        if d == 'np.array' and len(args) == 1:
            x = self.expr(args[0], fr)
            if x.kind != 'V':
                fail(e, 'np.array of kind %s' % x.kind)
            return x
        if d == 'max' and len(args) == 1:
            x = self.expr(args[0], fr)
            if x.kind != 'V':
                fail(e, 'max of kind %s' % x.kind)
            return fr.bind('T', 'of_opt ValueError (py_max %s)' % par(x.term))
        if d == 'np.arange' and len(args) == 3:
            xs = [self.expr(a, fr) for a in args]
            if not any(x.kind == 'T' for x in xs):
                fail(e, 'np.arange of three ints')
            return Val('V', 'np_arange3 %s' % ' '.join(par(as_T(x, e)) for x in xs))
        if d == 'np.arange' and len(args) == 1:
            x = self.expr(args[0], fr)
            if x.kind != 'Z':
                fail(e, 'np.arange of a single non-int')
            return Val('V', 'np_arange1 %s' % par(x.term))
        if d == 'trapezoid' and len(args) == 2:
            if not fr.trapezoid_ok:
                fail(e, 'trapezoid is not imported from scipy.integrate in this function')
            y, x = self.expr(args[0], fr), self.expr(args[1], fr)
            if y.kind != 'V' or x.kind != 'V':
                fail(e, 'trapezoid operands')
            return fr.bind('T', 'np_trapezoid_res %s %s' % (par(y.term), par(x.term)))
        if d == 'np.interp' and len(args) == 3:
            xs = [self.expr(a, fr) for a in args]
            if any(x.kind != 'V' for x in xs):
                fail(e, 'np.interp operands')
            return fr.bind('V', 'np_interp_res %s' % ' '.join(par(x.term) for x in xs))
        fail(e, 'call of %s with %d arguments' % (d, len(args)))

    # ------------------------------------------------------------ statements
    def assign_value(self, fr, s, val, node):
        """bind python name s to val; compound terms get a let"""
        if s in RESERVED or s == self.spec['param']:
            fail(node, 'assignment to %s' % s)
        if val.kind not in ('Z', 'T', 'V', 'EMPTY'):
            fail(node, 'assignment of kind %s' % val.kind)
        if val.kind != 'EMPTY' and not (atom(val.term) or val.lit is not None):
            val = fr.let(val.kind, val.term)
        fr.env[s] = val

    def range_bounds(self, node, fr):
        if not (isinstance(node, ast.Call) and dotted(node.func) == 'range' and not node.keywords and len(node.args) in (1, 2)):
            fail(node, 'loop over something other than range(n) / range(lo, hi)')
        if 'range' in fr.env or 'range' in fr.outer:
            fail(node, 'range is a local name')
        xs = [self.expr(a, fr) for a in node.args]
        if any(x.kind != 'Z' for x in xs):
            fail(node, 'range of non-ints')
        return (Val('Z', zlit_Z(0), lit=0), xs[0]) if len(xs) == 1 else (xs[0], xs[1])

    def simple_branch(self, stmts, fr):
        """a branch made of plain `name = pure expression` statements -> {name: Val}; no emission allowed"""
        out = {}
        n_lines = len(fr.lines)
        saved = dict(fr.env)
        for s in stmts:
            if not (isinstance(s, ast.Assign) and len(s.targets) == 1 and isinstance(s.targets[0], ast.Name)):
                fail(s, 'statement other than a plain assignment in a branch')
            v = self.expr(s.value, fr)
            if v.kind not in 'ZT':
                fail(s, 'branch assigns kind %s' % v.kind)
            if len(fr.lines) != n_lines:
                fail(s, 'a branch contains an operation that can raise')
            out[s.targets[0].id] = v
            fr.env[s.targets[0].id] = v
        fr.env = saved
        return out

    def if_chain(self, s, fr):
        conds, bodies = [], []
        node = s
        while True:
            n_lines = len(fr.lines)
            c = self.expr(node.test, fr)
            if c.kind != 'B':
                fail(node, 'condition of kind %s' % c.kind)
            if len(fr.lines) != n_lines and conds:
                fail(node, 'an elif condition contains an operation that can raise')
            conds.append(c.term)
            bodies.append(self.simple_branch(node.body, fr))
            if len(node.orelse) == 1 and isinstance(node.orelse[0], ast.If):
                node = node.orelse[0]
                continue
            tail = node.orelse
            break
        raises = None
        if len(tail) == 1 and isinstance(tail[0], ast.Raise):
            r = tail[0]
            if not (r.cause is None and isinstance(r.exc, ast.Call) and isinstance(r.exc.func, ast.Name) and r.exc.func.id in EXCS):
                fail(r, 'raise of something other than ValueError(..) / IndexError(..)')
            if r.exc.func.id in fr.env or r.exc.func.id in fr.outer:
                fail(r, 'the exception name is a local')
            raises = r.exc.func.id
        else:
            bodies.append(self.simple_branch(tail, fr))
        names = []
        for b in bodies:
            for n in b:
                if n not in names:
                    names.append(n)
        if raises:
            if len(names) != 1 or any(set(b) != set(names) for b in bodies):
                fail(s, 'a chain ending in raise must assign the same single name in every branch')
            n = names[0]
            kinds = {b[n].kind for b in bodies}
            kind = 'T' if 'T' in kinds else 'Z'
            term = 'PyRaise %s' % raises
            for c, b in reversed(list(zip(conds, bodies))):
                t = as_T(b[n], s) if kind == 'T' else b[n].term
                term = 'if %s then PyOk %s else %s' % (c, par(t), term)
            fr.env[n] = fr.bind(kind, term)
            return
        for n in names:
            vals = []
            for b in bodies:
                if n in b:
                    vals.append(b[n])
                else:
                    vals.append(self.lookup(fr, s, n))
            kinds = {v.kind for v in vals}
            if not kinds <= {'Z', 'T'}:
                fail(s, 'branches give %s kinds %s' % (n, kinds))
            kind = 'T' if 'T' in kinds else 'Z'
            ts = [as_T(v, s) if kind == 'T' else v.term for v in vals]
            term = ts[-1]
            for c, t in reversed(list(zip(conds, ts[:-1]))):
                term = 'if %s then %s else %s' % (c, par(t), par(term) if term.startswith('if ') else term)
            fr.env[n] = fr.let(kind, term)

    def stmt(self, s, fr, rest):
        """one statement of a straight-line region; `rest` = the statements after it (consumed by the gather pattern)"""
        if isinstance(s, ast.Expr):
            v = s.value
            if isinstance(v, ast.Constant) and isinstance(v.value, str):
                return
            if (isinstance(v, ast.Call) and isinstance(v.func, ast.Attribute) and v.func.attr == 'append'
                    and isinstance(v.func.value, ast.Name) and len(v.args) == 1 and not v.keywords):
                name = v.func.value.id
                x = self.lookup(fr, s, name)
                if x.kind not in ('V', 'EMPTY') or name in fr.arrays:
                    fail(s, '.append on something that is not a list of floats built here')
                if name in fr.outer and name not in fr.env:
                    fail(s, '.append on a list that the loop does not carry')
                a = self.expr(v.args[0], fr)
                item = as_T(a, s)
                fr.env[name] = fr.let('V', '%s ++ [%s]' % (par('[]' if x.kind == 'EMPTY' else x.term), item))
                return
            fail(s, 'expression statement')
        if isinstance(s, ast.ImportFrom):
            if (s.module == 'scipy.integrate' and not s.level and len(s.names) == 1
                    and s.names[0].name == 'trapezoid' and s.names[0].asname is None):
                fr.trapezoid_ok = True
                return
            fail(s, 'import other than `from scipy.integrate import trapezoid`')
        if isinstance(s, ast.Assign):
            if len(s.targets) != 1 or not isinstance(s.targets[0], ast.Name):
                fail(s, 'assignment target')
            name = s.targets[0].id
            if isinstance(s.value, ast.List) and not s.value.elts:
                if name in RESERVED or name == self.spec['param']:
                    fail(s, 'assignment to %s' % name)
                fr.env[name] = Val('EMPTY', '[]', lit=True)
                fr.arrays.discard(name)
                return
            val = self.expr(s.value, fr)
            self.assign_value(fr, name, val, s)
            if val.kind == 'V':
                fr.arrays.add(name)          # an ndarray (or an alias of one): no .append
            return
        if isinstance(s, ast.If):
            self.if_chain(s, fr)
            return
        if isinstance(s, ast.For) and not fr.is_top:
            # out = []; for j in range(lo, hi): out.append(v[j])
            if s.orelse or not isinstance(s.target, ast.Name) or len(s.body) != 1:
                fail(s, 'inner loop other than `for j in range(lo, hi): out.append(v[j])`')
            j = s.target.id
            b = s.body[0]
            ok = (isinstance(b, ast.Expr) and isinstance(b.value, ast.Call) and isinstance(b.value.func, ast.Attribute)
                  and b.value.func.attr == 'append' and isinstance(b.value.func.value, ast.Name)
                  and len(b.value.args) == 1 and not b.value.keywords and isinstance(b.value.args[0], ast.Subscript))
            if not ok:
                fail(s, 'inner loop other than `for j in range(lo, hi): out.append(v[j])`')
            out = b.value.func.value.id
            sub = b.value.args[0]
            sl = sub.slice.value if isinstance(sub.slice, ast.Index) else sub.slice
            if not (isinstance(sl, ast.Name) and sl.id == j):
                fail(s, 'the appended item is not v[<loop variable>]')
            if j in fr.env or j in fr.outer or j == out:
                fail(s, 'the inner loop variable %s is already bound' % j)
            cur = fr.env.get(out)
            if cur is None or cur.kind != 'EMPTY':
                fail(s, 'the list filled by the inner loop is not a fresh []')
            lo, hi = self.range_bounds(s.iter, fr)
            v = self.expr(sub.value, fr)
            if v.kind != 'V':
                fail(s, 'the inner loop reads a non-array')
            fr.env[out] = fr.bind('V', 'py_gather %s %s %s' % (par(v.term), par(lo.term), par(hi.term)))
            return
        fail(s, 'statement %s' % type(s).__name__)

    # ------------------------------------------------------------ the loop
    def run_body(self, loop, outer_fr, carried, kinds, pnames):
        fr = Frame({}, 't')
        fr.is_top = False
        fr.outer = {k: v for k, v in outer_fr.env.items() if k not in carried}
        fr.pnames = pnames
        fr.inputs_read = []
        fr.arrays = set(n for n, v in fr.outer.items() if v.kind == 'V')
        fr.trapezoid_ok = outer_fr.trapezoid_ok
        for i, n in enumerate(carried):
            fr.env[n] = Val(kinds[n], 's%d' % (i + 1), lit=(True if kinds[n] == 'EMPTY' else None))
        body = list(loop.body)
        while body:
            s = body.pop(0)
            self.stmt(s, fr, body)
        return fr

    def loop(self, s, fr):
        if s.orelse or not isinstance(s.target, ast.Name):
            fail(s, 'loop form')
        ivar = s.target.id
        lo, hi = self.range_bounds(s.iter, fr)
        stored = set()
        for n in ast.walk(s):
            if isinstance(n, ast.Name) and isinstance(n.ctx, (ast.Store, ast.Del)):
                stored.add(n.id)
            if isinstance(n, ast.Call) and isinstance(n.func, ast.Attribute) and n.func.attr == 'append' and isinstance(n.func.value, ast.Name):
                stored.add(n.func.value.id)
            if isinstance(n, (ast.While, ast.Break, ast.Continue, ast.Return, ast.Try, ast.With, ast.FunctionDef, ast.Lambda,
                              ast.ListComp, ast.GeneratorExp, ast.Global, ast.Nonlocal, ast.Delete, ast.AugAssign)):
                fail(n, '%s inside the loop' % type(n).__name__)
            if isinstance(n, ast.Name) and n.id == ivar and n is not s.target:
                fail(n, 'the loop variable %s is used in the body' % ivar)
        if ivar in fr.env or ivar in RESERVED:
            fail(s, 'the loop variable %s is already bound' % ivar)
        carried = [n for n in fr.env if n in stored]
        if not carried:
            fail(s, 'the loop carries no state')
        kinds = {n: fr.env[n].kind for n in carried}
        for n in carried:
            if kinds[n] not in ('Z', 'T', 'V', 'EMPTY'):
                fail(s, 'carried name %s of kind %s' % (n, kinds[n]))
        for _ in range(4):                                 # kind inference: int 0 -> float, [] -> list of floats
            b = self.run_body(s, fr, carried, kinds, {})
            new = {}
            for n in carried:
                k_in, k_out = kinds[n], b.env[n].kind
                if k_in == k_out:
                    new[n] = k_in
                elif (k_in, k_out) in (('Z', 'T'), ('EMPTY', 'V')):
                    new[n] = k_out
                else:
                    fail(s, 'carried name %s changes kind %s -> %s' % (n, k_in, k_out))
            if new == kinds:
                break
            kinds = new
        else:
            fail(s, 'kind inference does not converge')
        if any(k == 'EMPTY' for k in kinds.values()):
            fail(s, 'a carried [] is never appended to')
        reads = [n for n in fr.env if n in b.reads]
        pnames = {n: 'p%d' % (i + 1) for i, n in enumerate(reads)}
        b = self.run_body(s, fr, carried, kinds, pnames)
        inputs = [(n, k) for n, k in self.spec['inputs'] if n in b.inputs_read]
        params = inputs + [(pnames[n], fr.env[n].kind) for n in reads]
        st_ty = ' * '.join(COQ_T[kinds[n]] for n in carried)
        st_pat = ', '.join('s%d' % (i + 1) for i in range(len(carried)))
        final = 'PyOk (%s)' % ', '.join(b.env[n].term for n in carried)
        gen = self.spec['gen'] + '_step'
        sig = ' '.join('(%s : %s)' % (n, COQ_T[k]) for n, k in params)
        pat = "let '(%s) := st in" % st_pat if len(carried) > 1 else 'let %s := st in' % st_pat
        self.step_text = ('(** the body of `for %s in range(..)`; carried names (in the order of their first binding) = st, the other\n'
                          '    names it reads = parameters *)\n'
                          'Definition %s %s (st : %s) : pyres (%s) :=\n  %s\n%s.\n'
                          % ('_', gen, sig, st_ty, st_ty, pat, b.render(final)))
        self.state_ty = st_ty
        # the call in the enclosing definition
        init = []
        for n in carried:
            v, k = fr.env[n], kinds[n]
            if k == 'T':
                init.append(as_T(v, s))
            elif k == 'V' and v.kind == 'EMPTY':
                init.append('[]')
            else:
                init.append(v.term)
        actual = [n for n, _ in inputs] + [as_T(fr.env[n], s) if fr.env[n].kind == 'T' else fr.env[n].term for n in reads]
        for n, _ in inputs:
            if n not in fr.inputs_read:
                fr.inputs_read.append(n)
        count = 'Z.to_nat %s' % par('(%s - %s)%%Z' % (par(hi.term), par(lo.term)))
        call = 'res_iter (%s) (%s %s) (%s)' % (count, gen, ' '.join(par(a) for a in actual), ', '.join(init))
        names = [fr.fresh() for _ in carried]
        patn = "'(%s)" % ', '.join(names) if len(names) > 1 else names[0]
        fr.lines.append(('bind', patn, call))
        for n, nm in zip(carried, names):
            fr.env[n] = Val(kinds[n], nm)
            if kinds[n] == 'V':
                fr.arrays.discard(n)

    def translate(self):
        fr = Frame({}, 't')
        fr.is_top = True
        fr.pnames = {}
        fr.inputs_read = []
        fr.arrays = set()
        body = list(self.fn.body)
        seen_loop = False
        ret = None
        while body:
            s = body.pop(0)
            if isinstance(s, ast.For):
                if seen_loop:
                    fail(s, 'a second loop')
                seen_loop = True
                self.loop(s, fr)
                continue
            if isinstance(s, ast.Return):
                if body:
                    fail(s, 'statements after return')
                if s.value is None:
                    fail(s, 'bare return')
                v = self.expr(s.value, fr)
                if v.kind != 'V':
                    fail(s, 'the function returns kind %s' % v.kind)
                ret = v
                break
            if isinstance(s, ast.If):
                fail(s, 'if outside the loop')
            self.stmt(s, fr, body)
        if ret is None:
            raise Unsupported('control reaches the end of %s without a return' % self.spec['func'])
        if not seen_loop:
            raise Unsupported('no loop found in %s' % self.spec['func'])
        sig = ' '.join('(%s : %s)' % (n, COQ_T[k]) for n, k in self.spec['inputs'])
        pysig = ast.unparse(self.fn.args)
        main = ('(** %s: %s(%s) *)\nDefinition %s %s : pyres (list T) :=\n%s.\n'
                % (self.spec['file'], self.spec['func'], pysig, self.spec['gen'], sig, fr.render('PyOk %s' % par(ret.term))))
        return self.step_text + '\n' + main


HEADER = '''(** GENERATED by translator/py2coq_cavdp.py from eqsig/im.py (calc_cav_dp) -- do not edit; rewritten on every run.
    Generic over [NumOps T].  Inputs: dt = asig.dt, time = asig.time, a = asig.values.  Temporaries are t1, t2, .. in order of
    appearance; a statement that can raise is a [res_bind]; the readings of the NumPy / SciPy / builtin calls are the fixed
    definitions of lib/NpLoop.v (see its header).  proofs/P_gen_cavdp.v proves [gen_cav_dp] equal to the model [cav_dp]. *)
From Coq Require Import ZArith List Bool.
From EQ Require Import lib.Num lib.NpList lib.PyVal lib.PyRes lib.PySeq lib.NpLoop.
Import ListNotations.
Local Open Scope num_scope.

Section Generic.
Context {T : Type} `{NumOps T}.

'''


def translate_sources(read):
    try:
        body = Translator(read(SPEC['file']), SPEC).translate()
    except Unsupported as e:
        raise Unsupported('%s:%s: %s' % (SPEC['file'], SPEC['func'], e))
    return HEADER + body + 'End Generic.\n'


def regenerate(repo=None, out=None):
    """returns True iff the file was rewritten; raises Unsupported / OSError / SyntaxError (fail closed).
    On failure the committed copy is left as it is: the caller reports the broken tie."""
    repo = repo or os.environ.get('EQSIG_REPO', '/repo')
    out = out or OUT
    text = translate_sources(lambda rel: open(os.path.join(repo, rel)).read())
    old = open(out).read() if os.path.exists(out) else None
    if old != text:
        os.makedirs(os.path.dirname(out), exist_ok=True)
        with open(out, 'w') as f:
            f.write(text)
        return True
    return False


def main():
    try:
        ch = regenerate(repo=sys.argv[1] if len(sys.argv) > 1 else None)
    except Exception as e:  # fail closed
        print('py2coq_cavdp: translation FAILED: %s: %s' % (type(e).__name__, e))
        return 1
    print('py2coq_cavdp: %s %s' % (os.path.relpath(OUT, VERIF), 'rewritten' if ch else 'unchanged'))
    return 0


if __name__ == '__main__':
    sys.exit(main())
