#!/venv/bin/python
"""py2ir_effects — fail-closed translator: every function and method of the eqsig package -> alias/effect IR term
(coq/model/M_effects.v), written to coq/gen/Gen_effects.v (definitions) and coq/gen/Gen_effects_obl.v (one
`no_param_mutation ir_f = true` obligation per function, `owns_values` / `keeps_nd` obligations per class).

What is trusted here (and validated dynamically by harness/props/c05.py on every run):
  * the classification table of NumPy / SciPy / builtin calls below (copy / view / in place / scalar);
  * Python name resolution as implemented here (package functions are inlined at their call sites, methods and
    properties are resolved along the class MRO, objects are records of field variables `prefix.field`);
  * calls of caller-supplied callbacks (a *parameter* that is called) are assumed not to modify their arguments: listed
    in the generated file as `assumed_pure_callbacks`;
  * scipy.fftpack.fft(x, overwrite_x=True) overwrites x only when x is complex (observed, SciPy 1.18): listed as
    `dtype_conditional`; the obligation of the functions using it holds for real (float / integer) records.
Anything the translator does not understand raises Unsupported: the tie is then broken (the check fails closed).
"""
import ast, os, sys

FUEL_NOTE = 'loop post-fixpoints are checked inside Coq (M_effects.iter)'


class Unsupported(Exception):
    pass


# ----------------------------------------------------------------------------------------------- classification tables
# results: 'nd' fresh ndarray, 'fresh' fresh non-array object, 'scalar', 'view' (may share memory with its array arguments or be fresh)
NP = {
    'array': 'nd', 'arange': 'nd', 'where': 'nd', 'abs': 'nd', 'zeros': 'nd', 'mean': 'scalar', 'max': 'scalar', 'min': 'scalar',
    'insert': 'nd', 'take': 'nd', 'mod': 'nd', 'sum': 'nd', 'zeros_like': 'nd', 'cumsum': 'nd', 'diff': 'nd', 'log10': 'nd',
    'linspace': 'nd', 'sqrt': 'nd', 'sin': 'nd', 'cos': 'nd', 'ones': 'nd', 'flipud': 'view', 'ceil': 'nd', 'trapz': 'scalar', 'logspace': 'nd',
    'fft.fft': 'nd', 'fft.ifft': 'nd', 'conj': 'nd', 'argmax': 'nd', 'argmin': 'nd', 'interp': 'nd', 'exp': 'nd', 'concatenate': 'nd',
    'sign': 'nd', 'pad': 'nd', 'log2': 'nd', 'clip': 'nd', 'genfromtxt': 'nd', 'floor': 'nd', 'flip': 'view', 'ediff1d': 'nd', 'real': 'view',
    'polyfit': 'nd', 'ones_like': 'nd', 'log': 'nd', 'dot': 'nd', 'triu': 'nd', 'tril': 'nd', 'searchsorted': 'nd', 'reshape': 'view',
    'asarray': 'view', 'asanyarray': 'view', 'ascontiguousarray': 'view', 'ravel': 'view', 'squeeze': 'view', 'transpose': 'view',
    'copy': 'nd', 'empty': 'nd', 'empty_like': 'nd', 'full': 'nd', 'full_like': 'nd', 'add': 'nd', 'subtract': 'nd', 'multiply': 'nd',
    'divide': 'nd', 'power': 'nd', 'negative': 'nd', 'square': 'nd', 'maximum': 'nd', 'minimum': 'nd', 'sort': 'nd', 'argsort': 'nd',
    'unique': 'nd', 'roll': 'nd', 'hstack': 'nd', 'vstack': 'nd', 'stack': 'nd', 'tile': 'nd', 'repeat': 'nd', 'append': 'nd',
    'nonzero': 'nd', 'flatnonzero': 'nd', 'cumprod': 'nd', 'prod': 'nd', 'std': 'scalar', 'var': 'scalar', 'median': 'scalar',
    'amax': 'scalar', 'amin': 'scalar', 'all': 'scalar', 'any': 'scalar', 'round': 'nd', 'around': 'nd', 'tan': 'nd', 'arctan2': 'nd',
    'hanning': 'nd', 'convolve': 'nd', 'cross': 'nd', 'fft.rfft': 'nd', 'fft.irfft': 'nd', 'fft.fftfreq': 'nd', 'meshgrid': 'nd',
    'copyto': 'put', 'place': 'put', 'putmask': 'put', 'fill_diagonal': 'put',
    'radians': 'nd', 'outer': 'nd', 'maximum.accumulate': 'nd', 'isclose': 'nd', 'delete': 'nd', 'atleast_1d': 'view', 'put': 'put',
}
NP_CONST = {'pi', 'newaxis', 'ndarray', 'inf', 'nan'}
EXT = {  # fully qualified external callables
    'scipy.integrate.cumulative_trapezoid': 'nd', 'scipy.integrate.trapezoid': 'scalar', 'scipy.interpolate.interp1d': 'fresh',
    'scipy.signal.butter': 'fresh', 'scipy.signal.filtfilt': 'nd', 'scipy.signal.detrend': 'nd', 'scipy.signal.resample': 'nd',
    'scipy.linalg.toeplitz': 'nd', 'scipy.fftpack.fft': 'fftpack', 'scipy.fftpack.ifft': 'fftpack',
    'warnings.warn': 'scalar', 'collections.OrderedDict': 'fresh',
}
BUILTIN = {
    'len': 'scalar', 'int': 'scalar', 'float': 'scalar', 'abs': 'nd', 'max': 'elem', 'min': 'elem', 'sum': 'elem', 'range': 'fresh',
    'enumerate': 'iter', 'list': 'copy', 'tuple': 'copy', 'isinstance': 'scalar', 'hasattr': 'scalar', 'print': 'scalar', 'str': 'scalar',
    'open': 'fresh', 'getattr': 'getattr', 'ValueError': 'fresh', 'MemoryError': 'fresh', 'NotImplemented': 'fresh', 'IndexError': 'fresh',
    'TypeError': 'fresh', 'bool': 'scalar', 'zip': 'iter', 'sorted': 'copy', 'round': 'scalar',
}
BUILTIN_CONST = {'True', 'False', 'None', 'NotImplemented', 'ValueError', 'IndexError', 'MemoryError', 'TypeError', 'Warning', 'Exception', '__name__'}
# methods of arrays / lists / dicts / strings / files: receiver effect and result
METH = {
    'copy': 'nd', 'astype': 'nd', 'flatten': 'nd', 'tolist': 'fresh', 'max': 'elem', 'min': 'elem', 'sum': 'elem', 'mean': 'scalar', 'any': 'scalar',
    'all': 'scalar', 'transpose': 'view', 'reshape': 'view', 'ravel': 'view', 'sort': 'mut', 'fill': 'mut', 'append': 'append',
    'get': 'elem', 'items': 'elem', 'keys': 'elem', 'values': 'elem', 'split': 'fresh', 'splitlines': 'fresh', 'read': 'fresh',
    'readlines': 'fresh', 'join': 'fresh', 'format': 'fresh', 'write': 'mut', 'close': 'mut', 'index': 'scalar',
}
ARRAY_ATTR = {'T': 'view', 'real': 'view', 'imag': 'view', 'shape': 'scalar', 'size': 'scalar', 'dtype': 'scalar', 'ndim': 'scalar', 'names': 'fresh'}
EXCLUDE = {  # public entry points that are not translated, with the reason (printed into the generated file)
    'stockwell.plot_stock': 'plotting: draws on (mutates) the matplotlib axes passed in, by design; not an analysis function',
    'stockwell.plot_tifq_vals': 'plotting (matplotlib axes)', 'stockwell.plot_fas_at_time': 'plotting (matplotlib axes)',
    'stockwell.plot_windowed_fas_at_time': 'plotting (matplotlib axes)', 'stockwell.plot_max_freq_azimuth': 'plotting (matplotlib axes)',
    'multiple.Cluster.calculate_ratios': 'refers to the undefined attribute Cluster.motions (always raises AttributeError)',
    'sdof.time_the_generation_of_response_spectra': 'benchmark without parameters',
}
OWN = ['_values', '_cached_params']   # fields whose buffers a signal object owns (may write in place)


# ----------------------------------------------------------------------------------------------- values
class Val:
    __slots__ = ('al', 'fresh', 'nd', 'obj', 'tup', 'cont', 'like', 'elts')

    def __init__(self, al=(), fresh=None, nd=False, obj=None, tup=None, cont=None):
        self.al = list(dict.fromkeys(al))
        self.fresh = (not self.al) if fresh is None else (fresh or not self.al)
        self.nd = nd
        self.obj = obj
        self.tup = tup
        self.cont = cont
        self.like = []
        self.elts = []


def join_vals(vals, nd=False):
    al = []
    for v in vals:
        al += v.al
    return Val(al, fresh=True, nd=nd)


# ----------------------------------------------------------------------------------------------- package model
class Package:
    def __init__(self, repo):
        self.repo = repo
        self.mods = {}      # short module name ('single', 'fns.average') -> ast.Module
        self.funcs = {}     # simple name -> (mod, FunctionDef)
        self.classes = {}   # class name -> (mod, ClassDef)
        self.imports = {}   # mod -> {local name: dotted}
        root = os.path.join(repo, 'eqsig')
        for dp, dn, fn in os.walk(root):
            dn.sort()
            for f in sorted(fn):
                if not f.endswith('.py'):
                    continue
                rel = os.path.relpath(os.path.join(dp, f), root)[:-3].replace(os.sep, '.')
                if rel.endswith('__init__') or rel in ('__about__', 'duhamels'):
                    continue
                tree = ast.parse(open(os.path.join(dp, f)).read(), filename=os.path.join(dp, f))
                self.mods[rel] = tree
        for mod, tree in self.mods.items():
            imp = {}
            for node in tree.body:
                if isinstance(node, (ast.Import, ast.ImportFrom)):
                    self.add_import(imp, node, mod)
                elif isinstance(node, ast.FunctionDef):
                    if node.name in self.funcs and self.funcs[node.name][0] != mod:
                        raise Unsupported('function name %s defined in two modules' % node.name)
                    self.funcs[node.name] = (mod, node)
                elif isinstance(node, ast.ClassDef):
                    self.classes[node.name] = (mod, node)
            self.imports[mod] = imp
        self.methods = {}   # class -> {name: FunctionDef}, getters, setters
        self.getters, self.setters, self.fields, self.bases = {}, {}, {}, {}
        for cname, (mod, cd) in self.classes.items():
            ms, gs, ss, fs = {}, {}, {}, []
            for node in cd.body:
                if isinstance(node, ast.FunctionDef):
                    decs = [ast.unparse(d) for d in node.decorator_list]
                    if 'property' in decs:
                        gs[node.name] = node
                    elif any(d.endswith('.setter') for d in decs):
                        ss[node.name] = node
                    elif decs:
                        raise Unsupported('decorator %s on %s.%s' % (decs, cname, node.name))
                    else:
                        ms[node.name] = node
                    for sub in ast.walk(node):
                        if isinstance(sub, ast.Attribute) and isinstance(sub.value, ast.Name) and sub.value.id == 'self' and isinstance(sub.ctx, ast.Store):
                            if sub.attr not in fs:
                                fs.append(sub.attr)
                elif isinstance(node, ast.Assign):
                    for t in node.targets:
                        if isinstance(t, ast.Name) and t.id not in fs:
                            fs.append(t.id)
            self.methods[cname], self.getters[cname], self.setters[cname], self.fields[cname] = ms, gs, ss, fs
            self.bases[cname] = [ast.unparse(b) for b in cd.bases if ast.unparse(b) != 'object']
        # ad hoc attribute stores on objects from outside the class (asig.swtf = ...)
        self.adhoc = []
        for mod, tree in self.mods.items():
            for sub in ast.walk(tree):
                if isinstance(sub, ast.Attribute) and isinstance(sub.ctx, ast.Store) and isinstance(sub.value, ast.Name) and sub.value.id != 'self':
                    if sub.attr not in self.adhoc:
                        self.adhoc.append(sub.attr)

    def add_import(self, imp, node, mod):
        if isinstance(node, ast.Import):
            for a in node.names:
                if a.asname:
                    imp[a.asname] = a.name
                else:
                    imp[a.name.split('.')[0]] = a.name.split('.')[0]
        else:
            base = node.module or ''
            if node.level:
                pk = ('eqsig.' + mod).split('.')[:-node.level]
                base = '.'.join(pk + ([base] if base else []))
            for a in node.names:
                if a.name == '*':
                    continue
                imp[a.asname or a.name] = base + '.' + a.name

    def mro(self, cname):
        out = [cname]
        for b in self.bases.get(cname, []):
            out += self.mro(b)
        return out

    def all_fields(self, cname):
        fs = []
        for c in self.mro(cname):
            for f in self.fields[c]:
                if f not in fs:
                    fs.append(f)
        if cname in ('Signal', 'AccSignal'):
            for f in self.adhoc:
                if f not in fs:
                    fs.append(f)
        return fs

    def find(self, cname, table, name):
        for c in self.mro(cname):
            if name in table[c]:
                return c, table[c][name]
        return None, None

    def sig_attrs(self):
        s = set()
        for c in ('Signal', 'AccSignal'):
            s |= set(self.methods[c]) | set(self.getters[c]) | set(self.fields[c])
        return s | set(self.adhoc)


# ----------------------------------------------------------------------------------------------- IR helpers
def seq(items):
    flat = []
    for s in items:
        if s[0] == 'seq':
            flat += s[1]
        elif s[0] != 'skip':
            flat.append(s)
    if not flat:
        return ('skip',)
    if len(flat) == 1:
        return flat[0]
    return ('seq', flat)


SKIP = ('skip',)


class Scope:
    def __init__(self, mod, pfx, fname, imports):
        self.mod, self.pfx, self.fname = mod, pfx, fname
        self.names, self.objs = {}, {}
        self.imports = dict(imports)
        self.callbacks = set()      # parameters of a top-level function (calling one = calling a caller-supplied callback)
        self.ret = pfx + '$ret'
        self.ret_arity = None
        self.ret_strong = False
        self.ret_objs = []
        self.selfclass = None
        self.multi = set()


class Translator:
    def __init__(self, pkg):
        self.pkg = pkg
        self.counter = 0
        self.objclass = {}
        self.stack = []
        self.assumed_pure = set()
        self.dtype_conditional = set()
        self.current = None
        self.comp = set()

    # ---------------------------------------------------------------- names
    def dotted(self, e, sc):
        if isinstance(e, ast.Name):
            if e.id in sc.names or e.id in sc.objs:
                return None
            if e.id in sc.imports:
                return sc.imports[e.id]
            if e.id in self.pkg.funcs:
                return 'eqsig.%s.%s' % (self.pkg.funcs[e.id][0], e.id)
            if e.id in self.pkg.classes:
                return 'eqsig.%s.%s' % (self.pkg.classes[e.id][0], e.id)
            if e.id in BUILTIN or e.id in BUILTIN_CONST:
                return 'builtins.' + e.id
            return None
        if isinstance(e, ast.Attribute):
            b = self.dotted(e.value, sc)
            if b is None:
                return None
            last = b.split('.')[-1]
            if b.startswith('eqsig') and (last in self.pkg.funcs or last in self.pkg.classes) and b != 'eqsig':
                # attribute of a package function/class: not a module path
                if last in self.pkg.funcs and not any(m == last or m.endswith('.' + last) for m in self.pkg.mods):
                    return None
            return b + '.' + e.attr
        return None

    def fresh_id(self):
        self.counter += 1
        return self.counter

    # ---------------------------------------------------------------- emit
    def assign(self, var, v, out, weak=False, flatten=False):
        """bind IR variable var to value v (flatten: var stands for the value and its elements, used for "$ret")"""
        if flatten:
            v2 = mk(v.al + v.elts, fresh=v.fresh or not v.al, nd=v.nd, like=v.like)
            return self.assign(var, v2, out, weak=weak)
        if v.elts or var in self.comp:
            self.comp.add(var)
            out.append(('alias', var + '@', ([var + '@'] if weak else []) + v.elts))
        like = [x for x in (getattr(v, 'like', None) or [])]
        fresh = ('fresh', var, bool(v.nd), like)
        if weak:
            al = [var] + [a for a in v.al if a != var]
            st = ('alias', var, al)
            out.append(('if', fresh, st) if v.fresh else st)
            return
        if not v.al:
            out.append(fresh)
        elif v.fresh:
            out.append(('if', fresh, ('alias', var, v.al)))
        else:
            out.append(('alias', var, v.al))

    def mut(self, v, out):
        for a in v.al:
            out.append(('mut', a))

    def mut_deep(self, v, out):
        for a in v.al + v.elts:
            out.append(('mut', a))

    def objval(self, p):
        v = Val([p + '._values'], fresh=False, obj=p)
        v_like(v, [p + '._values'])
        if p.endswith('.signals[*]'):
            v.cont = p      # an element of (or a (key, element) pair from) the container of signal objects
        return v

    # ---------------------------------------------------------------- expressions
    def ev(self, e, sc, out):
        return self._ev(e, sc, out)

    def _ev(self, e, sc, out):
        if isinstance(e, ast.Constant):
            return mk()
        if isinstance(e, ast.Name):
            if e.id in sc.objs:
                return self.objval(sc.objs[e.id])
            if e.id in sc.names:
                var = sc.names[e.id]
                return mk([var], fresh=False, like=[var], elts=[var + '@'] if var in self.comp else [])
            if self.dotted(e, sc) is not None:
                return mk()
            return mk(['$global'], fresh=False)
        if isinstance(e, ast.Attribute):
            d = self.dotted(e, sc)
            if d is not None:
                if d.startswith('numpy.') and d[6:] in NP_CONST:
                    return mk()
                raise Unsupported('%s: reference to %s (not called)' % (sc.fname, d))
            v = self.ev(e.value, sc, out)
            if v.obj is not None:
                return self.getattr_obj(v.obj, e.attr, sc, out)
            k = ARRAY_ATTR.get(e.attr)
            if k == 'scalar':
                return mk()
            if k == 'fresh':
                return mk()
            if k == 'view':
                return mk(v.al, fresh=True, nd=v.nd, like=v.like)
            return mk(v.al + v.elts, fresh=True, elts=v.elts)       # unknown attribute of a non-object value: may be the value itself
        if isinstance(e, ast.Subscript):
            v = self.ev(e.value, sc, out)
            self.ev_index(e.slice, sc, out)
            if v.cont is not None:
                r = mk([v.cont + '._values'], fresh=True)
                r.obj, r.cont = v.cont, v.cont
                return r
            if v.tup is not None and isinstance(e.slice, ast.Constant) and isinstance(e.slice.value, int) and -len(v.tup) <= e.slice.value < len(v.tup):
                return v.tup[e.slice.value]
            sl = isinstance(e.slice, ast.Slice) or (isinstance(e.slice, ast.Tuple) and any(isinstance(x, ast.Slice) for x in e.slice.elts))
            return mk(v.al + v.elts, fresh=True, nd=v.nd and sl, like=v.like if sl else [], elts=v.elts)
        if isinstance(e, (ast.BinOp,)):
            a = self.ev(e.left, sc, out)
            b = self.ev(e.right, sc, out)
            return mk([], nd=a.nd or b.nd, like=a.like + b.like, elts=a.elts + b.elts)
        if isinstance(e, ast.UnaryOp):
            a = self.ev(e.operand, sc, out)
            if isinstance(e.op, ast.Not):
                return mk()
            return mk([], nd=a.nd, like=a.like)
        if isinstance(e, ast.Compare):
            vs = [self.ev(x, sc, out) for x in [e.left] + list(e.comparators)]
            return mk([], nd=any(x.nd for x in vs), like=sum([x.like for x in vs], []))
        if isinstance(e, ast.BoolOp):
            vs = [self.ev(x, sc, out) for x in e.values]
            return mk(sum([x.al for x in vs], []), fresh=True, elts=sum([x.elts for x in vs], []))
        if isinstance(e, ast.IfExp):
            self.ev(e.test, sc, out)
            vs = [self.ev(e.body, sc, out), self.ev(e.orelse, sc, out)]
            return mk(sum([x.al for x in vs], []), fresh=True, elts=sum([x.elts for x in vs], []))
        if isinstance(e, (ast.Tuple, ast.List)):
            vs = [self.ev(x, sc, out) for x in e.elts]
            r = mk([], elts=flat(vs))      # a new container; its elements are the listed objects
            r.tup = vs
            return r
        if isinstance(e, ast.Dict):
            vs = [self.ev(x, sc, out) for x in list(e.keys) + list(e.values) if x is not None]
            return mk([], elts=flat(vs))
        if isinstance(e, ast.Starred):
            return self.ev(e.value, sc, out)
        if isinstance(e, ast.Call):
            return self.call(e, sc, out)
        raise Unsupported('%s: expression %s at line %d' % (sc.fname, type(e).__name__, getattr(e, 'lineno', 0)))

    def ev_index(self, s, sc, out):
        if isinstance(s, ast.Slice):
            for p in (s.lower, s.upper, s.step):
                if p is not None:
                    self.ev(p, sc, out)
        elif isinstance(s, ast.Tuple):
            for p in s.elts:
                self.ev_index(p, sc, out)
        else:
            self.ev(s, sc, out)

    # ---------------------------------------------------------------- objects
    def getattr_obj(self, p, attr, sc, out):
        cname = self.objclass[p]
        c, g = self.pkg.find(cname, self.pkg.getters, attr)
        if g is not None:
            return self.inline(self.pkg.classes[c][0], g, [], {}, sc, out, selfpfx=p, cname=c)
        c, m = self.pkg.find(cname, self.pkg.methods, attr)
        if m is not None:
            raise Unsupported('%s: bound method %s.%s used as a value' % (sc.fname, cname, attr))
        if cname == 'Cluster' and attr == 'signals':
            S = p + '.signals[*]'
            self.objclass[S] = 'AccSignal'
            r = mk([], fresh=True)
            r.cont = S
            return r
        if attr not in self.pkg.all_fields(cname):
            raise Unsupported('%s: unknown attribute %s of a %s object' % (sc.fname, attr, cname))
        var = p + '.' + attr
        return mk([var], fresh=False, like=[var])

    def setattr_obj(self, p, attr, v, sc, out):
        cname = self.objclass[p]
        c, s = self.pkg.find(cname, self.pkg.setters, attr)
        if s is not None:
            self.inline(self.pkg.classes[c][0], s, [v], {}, sc, out, selfpfx=p, cname=c)
            return
        c, g = self.pkg.find(cname, self.pkg.getters, attr)
        if g is not None:
            raise Unsupported('%s: assignment to read-only property %s' % (sc.fname, attr))
        if cname == 'Cluster' and attr == 'signals':
            return
        if attr not in self.pkg.all_fields(cname):
            raise Unsupported('%s: store to unknown attribute %s of a %s object' % (sc.fname, attr, cname))
        self.assign(p + '.' + attr, v, out)

    def copy_obj(self, dst, src, out):
        """dst (a summary / merged object) may now be src: weak field-wise copy"""
        for f in self.pkg.all_fields(self.objclass[src]):
            out.append(('alias', dst + '.' + f, [dst + '.' + f, src + '.' + f]))

    def construct(self, cname, args, kws, sc, out):
        if cname not in ('Signal', 'AccSignal'):
            raise Unsupported('%s: construction of %s inside the package' % (sc.fname, cname))
        p = 'new%d' % self.fresh_id()
        self.objclass[p] = cname
        c, init = self.pkg.find(cname, self.pkg.methods, '__init__')
        self.inline(self.pkg.classes[c][0], init, args, kws, sc, out, selfpfx=p, cname=c)
        return self.objval(p)

    # ---------------------------------------------------------------- calls
    def call(self, e, sc, out):
        f = e.func
        # super(C, self).__init__(...)
        if isinstance(f, ast.Attribute) and isinstance(f.value, ast.Call) and isinstance(f.value.func, ast.Name) and f.value.func.id == 'super':
            args = [self.ev(a, sc, out) for a in e.args]
            kws = {k.arg: self.ev(k.value, sc, out) for k in e.keywords}
            base = self.pkg.bases[sc.selfclass][0]
            c, m = self.pkg.find(base, self.pkg.methods, f.attr)
            return self.inline(self.pkg.classes[c][0], m, args, kws, sc, out, selfpfx=sc.objs['self'], cname=c)
        d = self.dotted(f, sc)
        recv = None
        if d is None and isinstance(f, ast.Attribute):
            recv = self.ev(f.value, sc, out)
        args = [self.ev(a, sc, out) for a in e.args]
        kws = {}
        for k in e.keywords:
            if k.arg is None:
                v = self.ev(k.value, sc, out)
                kws['**'] = v
            else:
                kws[k.arg] = self.ev(k.value, sc, out)
        allv = args + list(kws.values())
        al_all = flat(allv)
        elts_all = sum([x.elts for x in allv], [])
        if d is not None:
            if d.startswith('numpy.'):
                k = NP.get(d[6:])
                if k is None:
                    raise Unsupported('%s: numpy function %s is not in the classification table' % (sc.fname, d))
                if 'out' in kws:
                    self.mut(kws['out'], out)
                    return mk(kws['out'].al, fresh=False, nd=True)
                if d == 'numpy.array' and any(kw.arg == 'copy' and not (isinstance(kw.value, ast.Constant) and kw.value.value is True) for kw in e.keywords):
                    k = 'view'
                if k == 'nd':
                    return mk([], nd=True)
                if k == 'scalar':
                    return mk()
                if k == 'view':
                    return mk(al_all, fresh=True, nd=True)
                if k == 'put':
                    self.mut(args[0], out)
                    return mk()
            if d in EXT:
                k = EXT[d]
                if k == 'fftpack':
                    ow = [kw for kw in e.keywords if kw.arg == 'overwrite_x']
                    if ow and not (isinstance(ow[0].value, ast.Constant) and ow[0].value.value is False):
                        self.dtype_conditional.add(self.current)   # overwrites x iff x is complex: nothing for real records
                    return mk([], nd=True)
                return mk([], nd=(k == 'nd'))
            if d.startswith('builtins.'):
                k = BUILTIN.get(d[9:])
                if k is None:
                    raise Unsupported('%s: builtin %s' % (sc.fname, d))
                if k == 'scalar':
                    return mk()
                if k == 'nd':
                    return mk([], nd=any(x.nd for x in args), like=sum([x.like for x in args], []))
                if k == 'fresh':
                    return mk()
                if k in ('elem', 'iter', 'copy'):
                    r = mk([], elts=al_all) if k == 'copy' else mk(al_all, fresh=True, elts=elts_all)
                    for x in args:
                        if x.cont is not None:
                            r.cont = x.cont
                    return r
                if k == 'getattr':
                    if args and args[0].obj is not None:
                        p = args[0].obj
                        return mk([p + '.' + fl for fl in self.pkg.all_fields(self.objclass[p])], fresh=True)
                    return mk(al_all, fresh=True)
            if d.startswith('eqsig'):
                last = d.split('.')[-1]
                if last in self.pkg.classes:
                    if last in ('Signal', 'AccSignal', 'Cluster'):
                        return self.construct(last, args, kws, sc, out)
                    return mk()
                if last in self.pkg.funcs:
                    mod, fd = self.pkg.funcs[last]
                    return self.inline(mod, fd, args, kws, sc, out)
            raise Unsupported('%s: call of %s is not in the classification table' % (sc.fname, d))
        if recv is not None:
            attr = f.attr
            if recv.obj is not None:
                cname = self.objclass[recv.obj]
                c, m = self.pkg.find(cname, self.pkg.methods, attr)
                if m is not None:
                    return self.inline(self.pkg.classes[c][0], m, args, kws, sc, out, selfpfx=recv.obj, cname=c)
                raise Unsupported('%s: unknown method %s of a %s object' % (sc.fname, attr, cname))
            k = METH.get(attr)
            if k in ('nd',):
                return mk([], nd=True)
            if k in ('fresh', 'scalar'):
                return mk()
            if k == 'elem':
                r = mk(recv.al + recv.elts + al_all, fresh=True, elts=recv.elts + elts_all)
                r.cont = recv.cont
                return r
            if k == 'view':
                return mk(recv.al, fresh=True, nd=True)
            if k == 'mut':
                self.mut(recv, out)
                return mk()
            if k == 'append':
                self.mut(recv, out)
                if al_all:
                    if len(recv.al) == 1 and not recv.fresh:
                        self.comp.add(recv.al[0])
                        out.append(('alias', recv.al[0] + '@', [recv.al[0] + '@'] + al_all))
                    else:
                        raise Unsupported('%s: append of a non-scalar to a container that is not a plain variable' % sc.fname)
                return mk()
            # unknown method of a non-object value: may write into the receiver and the arguments
            self.mut_deep(recv, out)
            for x in allv:
                self.mut_deep(x, out)
            return mk(recv.al + recv.elts + al_all, fresh=True, elts=recv.elts + elts_all)
        if isinstance(f, ast.Name) and f.id in sc.callbacks:
            self.assumed_pure.add('%s.%s' % (self.current, f.id))
            return mk(al_all, fresh=True, elts=elts_all)
        # call of a local callable (e.g. an interp1d object) or of an unknown global: conservative
        fv = self.ev(f, sc, out)
        self.mut_deep(fv, out)
        for x in allv:
            self.mut_deep(x, out)
        return mk(fv.al + fv.elts + al_all, fresh=True, elts=fv.elts + elts_all)

    # ---------------------------------------------------------------- inlining
    def inline(self, mod, fd, args, kws, sc_caller, out, selfpfx=None, cname=None):
        key = (mod, cname, fd.name)
        if key in self.stack:
            raise Unsupported('recursive call of %s' % (key,))
        if len(self.stack) > 14:
            raise Unsupported('call depth > 14 at %s' % (key,))
        pfx = '%d/' % self.fresh_id()
        sc = Scope(mod, pfx, (cname + '.' if cname else '') + fd.name, self.pkg.imports[mod])
        sc.selfclass = cname
        self.stack.append(key)
        try:
            self.bind_params(fd, args, kws, sc, out, selfpfx)
            self.scan_returns(fd, sc)
            body, _ = self.block(fd.body, sc)
            out.append(body)
        finally:
            self.stack.pop()
        return self.ret_val(sc, out)

    def ret_val(self, sc, out):
        objs = list(dict.fromkeys(sc.ret_objs))
        if len(objs) == 1:
            r = self.objval(objs[0])
            return r
        if len(objs) > 1:
            R = 'obj%d' % self.fresh_id()
            self.objclass[R] = 'AccSignal' if any(self.objclass[o] == 'AccSignal' for o in objs) else self.objclass[objs[0]]
            for o in objs:
                self.copy_obj_into(R, o, out)
            return self.objval(R)
        def rv(var):
            return mk([var], fresh=False, like=[var], elts=[var + '@'] if var in self.comp else [])
        r = rv(sc.ret)
        if sc.ret_arity:
            r.tup = [rv('%s.%d' % (sc.ret, i)) for i in range(sc.ret_arity)]
        return r

    def copy_obj_into(self, R, o, out):
        for f in self.pkg.all_fields(self.objclass[o]):
            out.append(('alias', R + '.' + f, [R + '.' + f, o + '.' + f]))

    def bind_params(self, fd, args, kws, sc, out, selfpfx):
        a = fd.args
        if a.vararg or a.kwonlyargs or a.posonlyargs:
            raise Unsupported('%s: *args / keyword-only parameters' % fd.name)
        params = [x.arg for x in a.args]
        defaults = dict(zip(params[len(params) - len(a.defaults):], a.defaults))
        kws = dict(kws)
        star = kws.pop('**', None)
        if selfpfx is not None:
            if not params or params[0] != 'self':
                raise Unsupported('%s: method without self' % fd.name)
            sc.objs['self'] = selfpfx
            params = params[1:]
        if len(args) > len(params):
            raise Unsupported('%s: too many positional arguments' % fd.name)
        bound = {}
        for p, v in zip(params, args):
            bound[p] = v
        for p in params:
            if p in bound:
                continue
            if p in kws:
                bound[p] = kws.pop(p)
            elif p in defaults:
                dsc = Scope(sc.mod, sc.pfx, sc.fname, self.pkg.imports[sc.mod])
                bound[p] = self.ev(defaults[p], dsc, out)
                if star is not None:   # f(**kwargs): the parameter may come from the caller's dict
                    bound[p] = mk(bound[p].al + flat([star]), fresh=True, elts=bound[p].elts + star.elts)
            elif star is not None:
                bound[p] = mk(flat([star]), fresh=True, elts=star.elts)
            else:
                raise Unsupported('%s: missing argument %s' % (fd.name, p))
        if a.kwarg:
            rest = list(kws.values()) + ([star] if star is not None else [])
            bound[a.kwarg.arg] = mk([], elts=flat(rest))
            params = params + [a.kwarg.arg]
        elif kws:
            raise Unsupported('%s: unexpected keyword arguments %s' % (fd.name, sorted(kws)))
        for p in params:
            v = bound[p]
            if v.obj is not None:
                sc.objs[p] = v.obj
            else:
                var = sc.pfx + p
                sc.names[p] = var
                self.assign(var, v, out)
                if v.cont is not None:
                    raise Unsupported('%s: container of objects passed as an argument' % fd.name)

    def scan_returns(self, fd, sc):
        rets = []

        def walk(stmts, top):
            for i, s in enumerate(stmts):
                if isinstance(s, ast.Return):
                    rets.append((s, top and i == len(stmts) - 1))
                for fld in ('body', 'orelse', 'finalbody', 'handlers'):
                    sub = getattr(s, fld, None)
                    if isinstance(sub, list) and not isinstance(s, (ast.FunctionDef, ast.ClassDef)):
                        walk([x for x in sub if isinstance(x, ast.stmt)], False)
                        for h in sub:
                            if isinstance(h, ast.ExceptHandler):
                                walk(h.body, False)
        walk(fd.body, True)
        ar = set()
        for r, _ in rets:
            if isinstance(r.value, ast.Tuple):
                ar.add(len(r.value.elts))
            else:
                ar.add(None)
        cnt = {}
        for n in ast.walk(fd):
            if isinstance(n, ast.Name) and isinstance(n.ctx, ast.Store):
                cnt[n.id] = cnt.get(n.id, 0) + 1
        sc.multi = {k for k, c in cnt.items() if c > 1}
        sc.ret_arity = ar.pop() if len(ar) == 1 and None not in ar else None
        sc.ret_strong = len(rets) == 1 and rets[0][1]

    # ---------------------------------------------------------------- statements
    def block(self, stmts, sc):
        out = []
        for i, s in enumerate(stmts):
            if isinstance(s, ast.If):
                self.ev(s.test, sc, out)
                a, ta = self.block(s.body, sc)
                b, tb = self.block(s.orelse, sc)
                if ta or tb:
                    rest, tr = self.block(stmts[i + 1:], sc)
                    a2 = a if ta else seq([a, rest])
                    b2 = b if tb else seq([b, rest])
                    out.append(('if', a2, b2))
                    return seq(out), (ta or tr) and (tb or tr)
                out.append(('if', a, b))
                continue
            if self.stmt(s, sc, out):
                return seq(out), True
        return seq(out), False

    def store(self, t, v, sc, out):
        if isinstance(t, ast.Name):
            if t.id in sc.multi and v.cont is None:
                # assigned more than once in this function: kept as a plain value variable (an object is represented by its values buffer)
                var = sc.pfx + t.id
                sc.names[t.id] = var
                self.assign(var, v, out)
                return
            if t.id in sc.objs and (v.obj is None or v.obj != sc.objs[t.id]):
                raise Unsupported('%s: object variable %s rebound' % (sc.fname, t.id))
            if v.obj is not None and v.cont is None:
                if t.id in sc.names:
                    raise Unsupported('%s: variable %s holds both objects and values' % (sc.fname, t.id))
                sc.objs[t.id] = v.obj
                return
            if v.cont is not None and v.obj is not None:
                # element (or (key, element) pair) of a container of signal objects
                if t.id in sc.names:
                    raise Unsupported('%s: variable %s holds both objects and values' % (sc.fname, t.id))
                sc.objs[t.id] = v.obj
                self.contvars = getattr(self, 'contvars', {})
                return
            var = sc.pfx + t.id
            sc.names[t.id] = var
            self.assign(var, v, out)
            if v.cont is not None:
                sc.conts = getattr(sc, 'conts', {})
                sc.conts[t.id] = v.cont
            return
        if isinstance(t, ast.Attribute):
            b = self.ev(t.value, sc, out)
            if b.obj is None:
                raise Unsupported('%s: attribute store on a non-object value (line %d)' % (sc.fname, t.lineno))
            self.setattr_obj(b.obj, t.attr, v, sc, out)
            return
        if isinstance(t, ast.Subscript):
            b = self.ev(t.value, sc, out)
            self.ev_index(t.slice, sc, out)
            if b.cont is not None:
                if v.obj is None:
                    raise Unsupported('%s: non-object stored into a container of signal objects' % sc.fname)
                self.copy_obj(b.cont, v.obj, out)
                return
            self.mut(b, out)
            return
        if isinstance(t, (ast.Tuple, ast.List)):
            if v.tup is not None and len(v.tup) == len(t.elts):
                for tt, vv in zip(t.elts, v.tup):
                    self.store(tt, vv, sc, out)
            else:
                for tt in t.elts:
                    ev_ = mk(v.al + v.elts, fresh=True, elts=v.elts)
                    ev_.cont, ev_.obj = v.cont, v.cont
                    self.store(tt, ev_, sc, out)
            return
        raise Unsupported('%s: assignment target %s' % (sc.fname, type(t).__name__))

    def stmt(self, s, sc, out):
        """append the IR of one statement to out; return True if control does not reach the next statement"""
        if isinstance(s, ast.Expr):
            if isinstance(s.value, ast.Constant):
                return False
            self.ev(s.value, sc, out)
            return False
        if isinstance(s, ast.Assign):
            v = self.ev(s.value, sc, out)
            for t in s.targets:
                self.store(t, v, sc, out)
            return False
        if isinstance(s, ast.AugAssign):
            v = self.ev(s.value, sc, out)
            t = s.target
            if isinstance(t, ast.Name):
                if t.id in sc.names:
                    out.append(('mut', sc.names[t.id]))
                elif t.id in sc.objs:
                    raise Unsupported('%s: augmented assignment to an object' % sc.fname)
                else:
                    out.append(('mut', '$global'))
            elif isinstance(t, ast.Attribute):
                b = self.ev(t.value, sc, out)
                if b.obj is None:
                    raise Unsupported('%s: augmented attribute assignment on a non-object' % sc.fname)
                cname = self.objclass[b.obj]
                if self.pkg.find(cname, self.pkg.getters, t.attr)[1] is not None or t.attr not in self.pkg.all_fields(cname):
                    raise Unsupported('%s: augmented assignment to property %s' % (sc.fname, t.attr))
                out.append(('mut', b.obj + '.' + t.attr))
            elif isinstance(t, ast.Subscript):
                b = self.ev(t.value, sc, out)
                self.ev_index(t.slice, sc, out)
                self.mut(b, out)
            else:
                raise Unsupported('%s: augmented assignment target' % sc.fname)
            return False
        if isinstance(s, ast.Return):
            if s.value is None:
                return True
            v = self.ev(s.value, sc, out)
            if v.obj is not None and v.cont is None:
                sc.ret_objs.append(v.obj)
                return True
            if v.obj is not None:
                sc.ret_objs.append(v.obj)
                return True
            if sc.ret_arity and v.tup is not None:
                for i, x in enumerate(v.tup):
                    self.assign('%s.%d' % (sc.ret, i), x, out, weak=not sc.ret_strong)
                self.assign(sc.ret, mk(flat(v.tup), fresh=True), out, weak=not sc.ret_strong)
            elif sc.pfx == '':
                self.assign(sc.ret, v, out, weak=not sc.ret_strong, flatten=True)
            else:
                self.assign(sc.ret, v, out, weak=not sc.ret_strong)
            return True
        if isinstance(s, ast.For):
            it = self.ev(s.iter, sc, out)
            body = []
            el = mk(it.al + it.elts, fresh=True, elts=it.elts)
            if it.cont is not None:
                el.cont, el.obj = it.cont, it.cont
            self.store(s.target, el, sc, body)
            b, _ = self.block(s.body, sc)
            body.append(b)
            out.append(('loop', seq(body)))
            if s.orelse:
                o, _ = self.block(s.orelse, sc)
                out.append(o)
            return False
        if isinstance(s, ast.While):
            body = []
            self.ev(s.test, sc, body)
            b, _ = self.block(s.body, sc)
            body.append(b)
            out.append(('loop', seq(body)))
            return False
        if isinstance(s, ast.Try):
            acc = SKIP
            for st in reversed(s.body):
                one, _ = self.block([st], sc)
                acc = ('if', SKIP, seq([one, acc]))
            out.append(acc)
            for h in s.handlers:
                hb, _ = self.block(h.body, sc)
                out.append(('if', SKIP, hb))
            for extra in (s.orelse, s.finalbody):
                if extra:
                    eb, _ = self.block(extra, sc)
                    out.append(('if', SKIP, eb))
            return False
        if isinstance(s, ast.With):
            for it in s.items:
                v = self.ev(it.context_expr, sc, out)
                if it.optional_vars is not None:
                    self.store(it.optional_vars, v, sc, out)
            b, t = self.block(s.body, sc)
            out.append(b)
            return t
        if isinstance(s, ast.Raise):
            if s.exc is not None:
                self.ev(s.exc, sc, out)
            return True
        if isinstance(s, ast.Assert):
            self.ev(s.test, sc, out)
            if s.msg is not None:
                self.ev(s.msg, sc, out)
            return False
        if isinstance(s, (ast.Pass,)):
            return False
        if isinstance(s, (ast.Continue, ast.Break)):
            return True
        if isinstance(s, (ast.Import, ast.ImportFrom)):
            self.pkg.add_import(sc.imports, s, sc.mod)
            return False
        raise Unsupported('%s: statement %s at line %d' % (sc.fname, type(s).__name__, s.lineno))

    # ---------------------------------------------------------------- entry points
    def infer_obj_params(self, fd):
        sig = self.pkg.sig_attrs() - set(ARRAY_ATTR) - set(METH) | {'values'}
        res = set()
        params = {x.arg for x in fd.args.args}
        for n in ast.walk(fd):
            if isinstance(n, ast.Attribute) and isinstance(n.value, ast.Name) and n.value.id in params and n.attr in sig:
                res.add(n.value.id)
        return res

    def function(self, mod, fd):
        self.current = '%s.%s' % (mod, fd.name)
        self.counter = 0
        self.objclass = {}
        self.comp = set()
        sc = Scope(mod, '', fd.name, self.pkg.imports[mod])
        a = fd.args
        if a.vararg or a.kwonlyargs or a.posonlyargs:
            raise Unsupported('%s: *args / keyword-only parameters' % fd.name)
        objp = self.infer_obj_params(fd)
        roots, arrays, objs = [], [], []
        params = [x.arg for x in a.args] + ([a.kwarg.arg] if a.kwarg else [])
        for p in params:
            sc.callbacks.add(p)
            if p in objp:
                self.objclass[p] = 'AccSignal'
                sc.objs[p] = p
                roots += [p + '.' + f for f in self.pkg.all_fields('AccSignal')]
                objs.append(p)
            else:
                sc.names[p] = p
                roots.append(p)
                arrays.append(p)
        roots.append('$global')
        self.scan_returns(fd, sc)
        body, _ = self.block(fd.body, sc)
        rv = self.ret_val(sc, [])
        extra = []
        if rv.obj is not None:
            # the function returns a signal object: "$ret" stands for its values buffer
            extra.append(('alias', '$ret', [rv.obj + '._values']))
        return {'name': self.current, 'roots': roots, 'prot': roots, 'body': seq([body] + extra), 'arrays': arrays, 'objs': objs,
                'ret_obj': rv.obj is not None}

    def klass(self, cname):
        mod, cd = self.pkg.classes[cname]
        fields = ['self.' + f for f in self.pkg.all_fields(cname)]
        own = ['self.' + f for f in OWN if f in self.pkg.all_fields(cname)]
        if cname == 'Cluster':
            S = 'self.signals[*]'
            fields += [S + '.' + f for f in self.pkg.all_fields('AccSignal')]
            own = [S + '.' + f for f in OWN]
        methods = []
        seen = set()
        for c in self.pkg.mro(cname):
            for table, kind in ((self.pkg.methods, ''), (self.pkg.getters, '.get'), (self.pkg.setters, '.set')):
                for name, fd in table[c].items():
                    if (name, kind) in seen:
                        continue
                    seen.add((name, kind))
                    qual = '%s.%s.%s%s' % (mod, cname, name, kind)
                    if '%s.%s.%s' % (mod, cname, name) in EXCLUDE:
                        continue
                    self.current = qual
                    self.comp = set()
                    self.counter = 0
                    self.objclass = {'self': cname}
                    sc = Scope(self.pkg.classes[c][0], '', cname + '.' + name, self.pkg.imports[self.pkg.classes[c][0]])
                    sc.selfclass = c
                    sc.objs['self'] = 'self'
                    a = fd.args
                    if a.vararg or a.kwonlyargs or a.posonlyargs:
                        raise Unsupported('%s: *args / keyword-only parameters' % qual)
                    params = [x.arg for x in a.args][1:] + ([a.kwarg.arg] if a.kwarg else [])
                    objp = self.infer_obj_params(fd) - {'self'}
                    ps = []
                    for p in params:
                        sc.callbacks.add(p)
                        if p in objp:
                            self.objclass[p] = 'AccSignal'
                            sc.objs[p] = p
                            ps += [p + '.' + f for f in self.pkg.all_fields('AccSignal')]
                        else:
                            sc.names[p] = p
                            ps.append(p)
                    ps.append('$global')
                    self.scan_returns(fd, sc)
                    body, _ = self.block(fd.body, sc)
                    rv = self.ret_val(sc, [])
                    extra = [('alias', '$ret', [rv.obj + '._values'])] if rv.obj is not None else []
                    methods.append({'name': qual, 'params': ps, 'body': seq([body] + extra), 'py': name, 'kind': kind})
        return {'name': cname, 'fields': fields, 'own': own, 'methods': methods}


def mk(al=(), fresh=None, nd=False, like=None, elts=None):
    v = Val(al, fresh=fresh, nd=nd)
    v_like(v, like or [])
    v.elts = list(dict.fromkeys(elts or []))
    return v


def flat(vs):
    """everything the values (or their elements) may share memory with"""
    out = []
    for x in vs:
        out += x.al + x.elts
    return out


def v_like(v, like):
    v.like = list(dict.fromkeys(like))
    return v


# ----------------------------------------------------------------------------------------------- Coq output
def cstr(x):
    assert '"' not in x
    return '"%s"' % x


def clist(xs):
    return '[' + '; '.join(cstr(x) for x in xs) + ']'


def cstmt(s):
    k = s[0]
    if k == 'skip':
        return 'Skip'
    if k == 'fresh':
        return '(Assign %s (Fresh %s %s))' % (cstr(s[1]), 'true' if s[2] else 'false', clist(s[3]))
    if k == 'alias':
        return '(Assign %s (AliasOf %s))' % (cstr(s[1]), clist(s[2]))
    if k == 'mut':
        return '(Mut %s)' % cstr(s[1])
    if k == 'seq':
        return '(seqs [' + ';\n '.join(cstmt(x) for x in s[1]) + '])'
    if k == 'if':
        return '(If %s %s)' % (cstmt(s[1]), cstmt(s[2]))
    if k == 'loop':
        return '(Loop %s)' % cstmt(s[1])
    raise ValueError(k)


def ident(q):
    return 'ir_' + ''.join(ch if ch.isalnum() else '_' for ch in q)


def translate(repo):
    pkg = Package(repo)
    tr = Translator(pkg)
    funcs, classes, excluded = [], [], []
    for mod in sorted(pkg.mods):
        for node in pkg.mods[mod].body:
            if isinstance(node, ast.FunctionDef) and pkg.funcs[node.name][1] is node:
                q = '%s.%s' % (mod, node.name)
                if q in EXCLUDE:
                    excluded.append((q, EXCLUDE[q]))
                    continue
                if node.name.startswith('_'):
                    continue      # private helpers are inlined at their call sites
                funcs.append(tr.function(mod, node))
    for cname in ('Signal', 'AccSignal', 'Cluster'):
        classes.append(tr.klass(cname))
        mod = pkg.classes[cname][0]
        for q, why in EXCLUDE.items():
            if q.startswith('%s.%s.' % (mod, cname)):
                excluded.append((q, why))
    return {'funcs': funcs, 'classes': classes, 'excluded': excluded, 'assumed_pure': sorted(tr.assumed_pure),
            'dtype_conditional': sorted(tr.dtype_conditional)}


def render(res):
    o = ['(** GENERATED by translator/py2ir_effects.py from the eqsig sources - do not edit. *)',
         'From Coq Require Import String List.', 'From EQ Require Import model.M_effects.', 'Import ListNotations.',
         'Local Open Scope string_scope.', '']
    for f in res['funcs']:
        o.append('Definition %s : func := let R := %s in mkFunc %s R R\n %s.' % (ident(f['name']), clist(f['roots']), cstr(f['name']), cstmt(f['body'])))
    o.append('Definition all_funcs : list func := [%s].' % '; '.join(ident(f['name']) for f in res['funcs']))
    for c in res['classes']:
        ms = []
        for m in c['methods']:
            o.append('Definition %s : method := mkMethod %s %s\n %s.' % (ident(m['name']), cstr(m['name']), clist(m['params']), cstmt(m['body'])))
            ms.append(ident(m['name']))
        o.append('Definition cls_%s : class := mkClass %s %s %s [%s].' % (c['name'], cstr(c['name']), clist(c['fields']), clist(c['own']), '; '.join(ms)))
    o.append('Definition all_classes : list class := [%s].' % '; '.join('cls_' + c['name'] for c in res['classes']))
    o.append('Definition excluded : list (string * string) := [%s].' % '; '.join('(%s, %s)' % (cstr(a), cstr(b)) for a, b in res['excluded']))
    o.append('Definition assumed_pure_callbacks : list string := %s.' % clist(res['assumed_pure']))
    o.append('Definition dtype_conditional : list string := %s.' % clist(res['dtype_conditional']))
    return '\n'.join(o) + '\n'


def render_obl(res):
    o = ['(** GENERATED by translator/py2ir_effects.py - one obligation per translated function / class. *)',
         'From Coq Require Import String List Bool.', 'From EQ Require Import model.M_effects gen.Gen_effects.', 'Import ListNotations.',
         'Local Open Scope string_scope.', '']
    # (which function / method fails is reported by K_C05.failing_funcs / failing_methods; one aggregated obligation keeps the build short)
    for c in res['classes']:
        o.append('Lemma obl_owns_%s : owns_values cls_%s = true. Proof. vm_compute. reflexivity. Qed.' % (c['name'], c['name']))
    for c in res['classes']:
        x = c['own'][0]
        o.append('Lemma obl_nd_field_%s : mem "%s" (c_fields cls_%s) = true. Proof. vm_compute. reflexivity. Qed.' % (c['name'], x, c['name']))
        o.append('Lemma obl_nd_%s : forallb (keeps_nd "%s" true) (c_methods cls_%s) = true. Proof. vm_compute. reflexivity. Qed.' % (c['name'], x, c['name']))
        init = [m for m in c['methods'] if m['py'] == '__init__']
        if init and c['name'] != 'Cluster':
            o.append('Lemma obl_nd_init_%s : keeps_nd "%s" false %s = true. Proof. vm_compute. reflexivity. Qed.' % (c['name'], x, ident(init[0]['name'])))
    o.append('Lemma obl_prot_all : forallb (fun f => subset (f_roots f) (f_prot f)) all_funcs = true. Proof. vm_compute. reflexivity. Qed.')
    o.append('Lemma obl_all_funcs : forallb no_param_mutation all_funcs = true. Proof. vm_compute. reflexivity. Qed.')
    return '\n'.join(o) + '\n'


def write_if_changed(path, text):
    if os.path.exists(path) and open(path).read() == text:
        return False
    os.makedirs(os.path.dirname(path), exist_ok=True)
    with open(path, 'w') as f:
        f.write(text)
    return True


def generate(repo, dest):
    """dest = .../coq/gen/Gen_effects.v ; the obligations go to Gen_effects_obl.v next to it"""
    res = translate(repo)
    write_if_changed(dest, render(res))
    write_if_changed(os.path.join(os.path.dirname(dest), 'Gen_effects_obl.v'), render_obl(res))
    return res


if __name__ == '__main__':
    repo = os.environ.get('EQSIG_REPO', '/repo')
    here = os.path.dirname(os.path.abspath(__file__))
    r = generate(repo, os.path.join(os.path.dirname(here), 'coq', 'gen', 'Gen_effects.v'))
    print('%d functions, %d classes (%s methods), %d excluded' % (len(r['funcs']), len(r['classes']),
          '+'.join(str(len(c['methods'])) for c in r['classes']), len(r['excluded'])))


def regenerate(repo=None, out=None):
    """uniform entry point for translator/regen.py: returns True iff Gen_effects.v was rewritten"""
    repo = repo or os.environ.get('EQSIG_REPO', '/repo')
    here = os.path.dirname(os.path.dirname(os.path.abspath(__file__)))
    out = out or os.path.join(here, 'coq', 'gen', 'Gen_effects.v')
    old = open(out).read() if os.path.exists(out) else None
    generate(repo, out)
    return open(out).read() != old
