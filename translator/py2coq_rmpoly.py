#!/venv/bin/python
"""Fail-closed translator of polynomial detrending  ->  coq/gen/Gen_rmpoly.v                                   (property C17)

    eqsig/fns/generic.py : remove_poly(values, poly_fit=0)       -> gen_remove_poly       (the returned array)
    eqsig/single.py      : Signal.remove_poly(self, poly_fit=0)  -> gen_sig_remove_poly   (the array handed to
                           self.reset_values; `self.values` is the input `a`, `self.npts` its length: the accessors and
                           reset_values are checked to be the plain ones, as in translator/py2coq_c17.py)

np.polyfit is NOT translated: it is the function parameter `PF` of both definitions, applied to the operands of the call in
the order of the source text (`PF x values poly_fit`).  Everything around it is: the x grid (np.linspace with its three
operands), the start value `0 * x`, the range of the loop, the power `poly_fit - co`, the coefficient index, the product,
the accumulation, the final subtraction and what it is subtracted from.

The grammar is the one of translator/py2coq_helpers.py (imported, not modified: every assignment `name = e` is one
`let tK := e in`, K counting the assignments in textual order, so a renamed temporary -- the loop variable included, which
is always printed `i` -- gives byte-identical text), extended by
    self.values / self.npts                -> a / Z.of_nat (length a)            (methods only)
    np.linspace(lit, lit, I)               -> np_linspace a b (Z.to_nat n)       (lib/PySeq.v)
    np.polyfit(V, V, I)                    -> PF v1 v2 k
    V[I]  (I the loop variable)            -> nth (Z.to_nat i) v n0              (0 <= i < len(v) inside `range(len(v))`)
    for i in range(len(V)): <name = e>* ; acc += e
                                           -> fold_left (fun acc i => <lets> map2 nadd acc e) (py_range (Z.of_nat (length v))) acc0
                                              acc an array this function created (`0 * x`), not aliased, of the kind V; the
                                              names bound in the body are local to it (not visible after the loop, and must
                                              not be bound before it)
    self.reset_values(e) as the last statement of a method -> the result e
coq/proofs/P_gen_rmpoly.v proves both definitions equal to `remove_poly` of model/M_signalops.v for all inputs (at R).
"""
import ast, os, sys

HERE = os.path.dirname(os.path.abspath(__file__))
sys.path.insert(0, HERE)
import py2coq_numpy as base                                                   # noqa: E402
from py2coq_numpy import Unsupported, fail, par, dotted                        # noqa: E402
from py2coq_durations import builtin_untouched                                 # noqa: E402
import py2coq_helpers as H                                                     # noqa: E402
from py2coq_helpers import Val, tofloat, int_lit                               # noqa: E402
import py2coq_c17 as C17                                                       # noqa: E402

VERIF = os.path.dirname(HERE)
OUT = os.path.join(VERIF, 'coq', 'gen', 'Gen_rmpoly.v')
GEN, SINGLE = 'eqsig/fns/generic.py', 'eqsig/single.py'

SPECS = [
    dict(file=GEN, func='remove_poly', gen='gen_remove_poly', method=False,
         params=[('values', 'V', 'v'), ('poly_fit', 'I', 'k')]),
    dict(file=SINGLE, func='remove_poly', gen='gen_sig_remove_poly', method=True,
         params=[('poly_fit', 'I', 'k')]),
]
LOOPVAR = 'i'
ACC = 'acc'


class SelfObj:
    kind = 'SELF'
    term = None


class RCtx(H.HCtx):
    def __init__(self, module, spec):
        H.HCtx.__init__(self, module, spec, {})
        self.in_loop = False

    def expr(self, e, env):
        if isinstance(e, ast.Attribute):
            if isinstance(e.value, ast.Name) and isinstance(env.get(e.value.id), SelfObj):
                if e.attr == 'values':
                    v = Val('V', 'a')
                    v.param = True
                    return v
                if e.attr == 'npts':
                    return Val('I', 'Z.of_nat (length a)')
            fail(e, 'attribute %s' % (dotted(e) or '?'))
        if isinstance(e, ast.Name) and isinstance(env.get(e.id), SelfObj):
            fail(e, 'self used as a value')
        return H.HCtx.expr(self, e, env)

    def subscript(self, e, env):
        sl = e.slice
        if isinstance(sl, ast.Index):      # python < 3.9
            sl = sl.value
        if isinstance(sl, ast.Name) and sl.id in env and env[sl.id].kind == 'I' and getattr(env[sl.id], 'loopvar', None) is not None:
            x = self.expr(e.value, env)
            if x.kind != 'V' or x.term != env[sl.id].loopvar:
                fail(e, 'subscript by the loop variable of something other than the array whose length bounds the loop')
            return Val('S', 'nth (Z.to_nat %s) %s n0' % (env[sl.id].term, par(x.term)))
        return H.HCtx.subscript(self, e, env)

    def call(self, e, env):
        d = dotted(e.func)
        if d in ('np.linspace', 'np.polyfit'):
            if 'np' in env:
                fail(e, 'np is a local name')
            self.need_np(e)
            if len(e.args) != 3 or e.keywords or any(isinstance(a, ast.Starred) for a in e.args):
                fail(e, '%s arguments' % d)
            xs = [self.expr(a, env) for a in e.args]
            if d == 'np.linspace':
                a, b, n = tofloat(xs[0]), tofloat(xs[1]), xs[2]
                if (a.kind, b.kind, n.kind) != ('S', 'S', 'I'):
                    fail(e, 'np.linspace(%s, %s, %s)' % (xs[0].kind, xs[1].kind, n.kind))
                return Val('V', 'np_linspace %s %s (Z.to_nat %s)' % (par(a.term), par(b.term), par(n.term)), owned=True)
            if [x.kind for x in xs] != ['V', 'V', 'I']:
                fail(e, 'np.polyfit(%s)' % ', '.join(x.kind for x in xs))
            return Val('V', 'PF %s %s %s' % tuple(par(x.term) for x in xs), owned=True)
        return H.HCtx.call(self, e, env)

    # ------------------------------------------------------------ statements
    def for_loop(self, s, env, items):
        if self.in_loop or s.orelse or not isinstance(s.target, ast.Name) or 'range' in env or 'len' in env:
            fail(s, 'loop form')
        it = s.iter
        if not (isinstance(it, ast.Call) and dotted(it.func) == 'range' and len(it.args) == 1 and not it.keywords
                and isinstance(it.args[0], ast.Call) and dotted(it.args[0].func) == 'len' and len(it.args[0].args) == 1
                and not it.args[0].keywords and isinstance(it.args[0].args[0], ast.Name)):
            fail(s, 'loop other than `for i in range(len(<array name>))`')
        arr = self.expr(it.args[0].args[0], env)
        if arr.kind != 'V':
            fail(s, 'range(len(.)) of a %s' % arr.kind)
        ivar = s.target.id
        if ivar in env or ivar in base.RESERVED or ivar in H.BUILTINS:
            fail(s, 'loop variable %s shadows a name' % ivar)
        body = list(s.body)
        if not body or not isinstance(body[-1], ast.AugAssign):
            fail(s, 'the loop body does not end in `acc += e`')
        last = body[-1]
        if not (isinstance(last.op, ast.Add) and isinstance(last.target, ast.Name)):
            fail(last, 'augmented assignment other than `name += e`')
        accname = last.target.id
        acc = env.get(accname)
        if acc is None or acc.kind != 'V' or not acc.owned or acc.param:
            fail(last, 'the accumulator is not an array this function created')
        if sum(1 for w in env.values() if w is acc) != 1:
            fail(last, 'the accumulator has a second name')
        stored = set()
        for st in body[:-1]:
            if not (isinstance(st, ast.Assign) and len(st.targets) == 1 and isinstance(st.targets[0], ast.Name)):
                fail(st, 'statement in the loop body other than `name = e` and the final `acc += e`')
            if st.targets[0].id in env or st.targets[0].id in (ivar, accname):
                fail(st, 'the loop body re-binds a name of the enclosing function')
            stored.add(st.targets[0].id)
        for n in ast.walk(s):
            if isinstance(n, ast.Name) and n.id == accname and n is not last.target:
                fail(n, 'the loop body reads the accumulator')
            if isinstance(n, ast.Name) and n.id == ivar and isinstance(n.ctx, ast.Store) and n is not s.target:
                fail(n, 'the loop body assigns the loop variable')
        e2 = dict(env)
        del e2[accname]
        iv = Val('I', LOOPVAR)
        iv.loopvar = arr.term
        e2[ivar] = iv
        inner = []
        self.in_loop = True
        if self.block(body[:-1], e2, inner, top=False) is not None:
            fail(s, 'internal: loop body returned')
        add = self.expr(last.value, e2)
        self.in_loop = False
        if add.kind != 'V':
            fail(last, 'the accumulated term is a %s' % add.kind)
        if any(k != 'let' for k, _, _ in inner):
            fail(s, 'assert in the loop body')
        step = H.local_lets(inner, 'map2 nadd %s %s' % (ACC, par(add.term)))
        t = self.fresh()
        items.append(('let', t, 'fold_left (fun (%s : list T) (%s : Z) => %s) (py_range (Z.of_nat (length %s))) %s'
                      % (ACC, LOOPVAR, step, par(arr.term), acc.term)))
        env[accname] = Val('V', t, owned=True)

    def block(self, stmts, env, items, top):
        for k, s in enumerate(stmts):
            if isinstance(s, ast.For):
                if not top:
                    fail(s, 'nested loop')
                self.for_loop(s, env, items)
                continue
            if (isinstance(s, ast.Expr) and isinstance(s.value, ast.Call) and top and self.spec['method']
                    and isinstance(s.value.func, ast.Attribute) and isinstance(s.value.func.value, ast.Name)
                    and isinstance(env.get(s.value.func.value.id), SelfObj)):
                c = s.value
                if c.func.attr != 'reset_values' or len(c.args) != 1 or c.keywords or isinstance(c.args[0], ast.Starred):
                    fail(s, 'call of self.%s' % c.func.attr)
                if k != len(stmts) - 1:
                    fail(stmts[k + 1], 'statements after self.reset_values(..)')
                return self.expr(c.args[0], env)
            if isinstance(s, (ast.If, ast.Assert)):
                fail(s, 'statement %s' % type(s).__name__)
            if isinstance(s, ast.Return) and self.spec['method']:
                fail(s, 'return in the method')
            r = H.HCtx.block(self, [s], env, items, top)
            if r is not None:
                if k != len(stmts) - 1:
                    fail(stmts[k + 1], 'statements after return')
                return r
        return None


def translate(module, fn, spec, where):
    a = fn.args
    names = [x.arg for x in a.args]
    want = (['self'] if spec['method'] else []) + [p[0] for p in spec['params']]
    if names != want or a.vararg or a.kwarg or a.kwonlyargs or getattr(a, 'posonlyargs', []):
        raise Unsupported('%s: parameters are %r, expected %r' % (where, names, want))
    for n in ast.walk(fn):
        if isinstance(n, (ast.While, ast.Try, ast.With, ast.Global, ast.Nonlocal, ast.Lambda, ast.Delete, ast.FunctionDef, ast.ClassDef,
                          ast.Yield, ast.YieldFrom, ast.Await, ast.ListComp, ast.GeneratorExp, ast.If, ast.Assert, ast.Raise)) and n is not fn:
            fail(n, '%s: statement kind %s is not accepted' % (where, type(n).__name__))
    ctx = RCtx(module, spec)
    env = {}
    if spec['method']:
        env['self'] = SelfObj()
    for n, kind, cn in spec['params']:
        if n in base.RESERVED or n in H.BUILTINS or n == 'self':
            raise Unsupported('parameter named %s' % n)
        env[n] = Val(kind, cn)
        env[n].param = True
    items = []
    r = ctx.block(list(fn.body), env, items, top=True)
    if r is None:
        raise Unsupported('control reaches the end of %s without a result' % where)
    if isinstance(r, list) or r.kind != 'V' or ctx.has_assert:
        raise Unsupported('%s: the result is not one float array' % where)
    binders = '(PF : list T -> list T -> Z -> list T) ' + ('(k : Z) (a : list T)' if spec['method'] else '(v : list T) (k : Z)')
    text = '(** %s: %s(%s) *)\nDefinition %s %s : list T :=\n%s.\n' % (
        spec['file'], where, ast.unparse(fn.args), spec['gen'], binders, H.render_top(items, r.term))
    # the default of poly_fit
    defaults = dict(zip(names[len(names) - len(a.defaults):], a.defaults))
    consts = []
    for n, d in defaults.items():
        if n != 'poly_fit' or int_lit(d) is None:
            fail(d, 'default for %s' % n)
        consts.append('Definition %s_default_poly_fit : Z := %s.\n' % (spec['gen'], H.zlit(int_lit(d))))
    return text, consts


HEADER = '''(** GENERATED by translator/py2coq_rmpoly.py from eqsig/fns/generic.py (remove_poly) and eqsig/single.py
    (Signal.remove_poly) -- do not edit; rewritten on every run.  Generic over [NumOps T]; every assignment of the source is
    one [let tK] (K = its position in the text); the loop is a [fold_left] over [py_range (len cofs)] whose accumulator is
    the array the source updates in place ([y_cor += ..]), the loop variable is printed [i].  [PF x y k] stands for
    [np.polyfit(x, y, k)] (operands in the order of the source).  gen_sig_remove_poly: a = self.values, the result is the
    array handed to self.reset_values.  Python ints are Z.  Readings: lib/PySeq.v (np_linspace, py_range), lib/NpHelpers.v
    (npow).  proofs/P_gen_rmpoly.v proves both definitions equal to [remove_poly] of model/M_signalops.v. *)
From Coq Require Import String.
From Coq Require Import ZArith List Bool.
From EQ Require Import lib.Num lib.NpList lib.NpHelpers lib.PySeq.
Import ListNotations.
Local Open Scope num_scope.

Section Generic.
Context {T : Type} `{NumOps T}.
'''


def translate_sources(read):
    defs, consts = [], []
    for spec in SPECS:
        src = read(spec['file'])
        try:
            if spec['method']:
                pm = C17.PyModule(spec['file'], src)
                for b in C17.BUILTINS + ('float', 'min', 'max', 'abs', 'hasattr'):
                    if not builtin_untouched(pm, b):
                        raise Unsupported('the module binds %s' % b)
                if not pm.np_ok:
                    raise Unsupported('np is not `import numpy as np`')
                cls = C17.SignalClass(pm)
                cls.check_accessors()
                fn = cls.method(spec['func'])
                where = '%s.%s' % (C17.CLASS, spec['func'])
                text, extra = translate(pm, fn, spec, where)
            else:
                m = base.Module(spec['file'], src)
                for b in H.BUILTINS + ('float', 'range'):
                    if not builtin_untouched(m, b):
                        raise Unsupported('the module binds %s' % b)
                text, extra = translate(m, m.func(spec['func']), spec, spec['func'])
        except Unsupported as e:
            raise Unsupported('%s:%s: %s' % (spec['file'], spec['func'], e))
        defs.append(text)
        consts.extend(extra)
    return HEADER + '\n' + '\n'.join(defs) + 'End Generic.\n\n' + ''.join(consts)


def regenerate(repo=None, out=None):
    """returns True iff the file was rewritten; raises Unsupported / OSError / SyntaxError (fail closed).
    On failure the committed copy is left as it is: the caller reports the broken tie."""
    repo = repo or os.environ.get('EQSIG_REPO', '/repo')
    out = out or OUT
    text = translate_sources(lambda rel: open(os.path.join(repo, rel)).read())
    old = open(out).read() if os.path.exists(out) else None
    if old != text:
        os.makedirs(os.path.dirname(out), exist_ok=True)
        tmp = '%s.%d.tmp' % (out, os.getpid())
        with open(tmp, 'w') as f:
            f.write(text)
        os.replace(tmp, out)
        return True
    return False


def main():
    try:
        ch = regenerate(repo=sys.argv[1] if len(sys.argv) > 1 else None)
    except Exception as e:  # fail closed
        print('py2coq_rmpoly: translation FAILED: %s: %s' % (type(e).__name__, e))
        return 1
    print('py2coq_rmpoly: %s %s' % (os.path.relpath(OUT, VERIF), 'rewritten' if ch else 'unchanged'))
    return 0


if __name__ == '__main__':
    sys.exit(main())
