#!/venv/bin/python
"""Fail-closed translator for the statements of eqsig/sdof.py that sit AROUND compute_a_and_b (properties C01, C03):

  nigam_and_jennings_response : the sign of the load (`acc = -np.array(acc, dtype=float)`), the angular frequency
      (`w = 6.2831853 / periods[s:]`), the zero initial state (`np.zeros`), the two subscript-assignments of the
      `for i in range(len(acc) - 1)` loop, the third series (both branches of `if s:`) and the T = 0 row
  pseudo_response_spectra     : `w = 2 * np.pi / periods` (both branches), `svs = w * sds`, `sas = w ** 2 * sds`,
      `np.where(periods < dt * 6, absmax(motion), sas)`
  true_response_spectra       : which series each spectrum is the absmax of, and its `np.where(periods < dt * 6, ...)`

-> coq/gen/Gen_sdof_loop.v : scalar definitions over R of exactly what the source says for ONE oscillator and ONE sample
(array slicing / broadcasting dropped; the accepted syntactic forms are listed in the generated header).

The statements are located STRUCTURALLY with Python `ast` (never by line number or by the spelling of a temporary): the
names of the parameters come from the signature, the names of the state arrays from the `return`, the names of A, B from
the call of compute_a_and_b, the loop variable from the `for`, `s` from the `if periods[0] == 0` block. Every statement of
the three functions must be recognised; anything else raises Unsupported (reported by the harness as a broken translator
tie). A change of an operand, operator, sign, index or literal is NOT rejected here: it is translated faithfully and makes
the proofs of coq/proofs/P_C01_loop.v / P_C03_loop.v fail.
"""
import ast, os, sys
from fractions import Fraction

sys.path.insert(0, os.path.dirname(os.path.abspath(__file__)))
from py2coq_scalar import Unsupported, num  # noqa: E402

RESERVED = {'xi', 'w', 'u', 'v', 'f0', 'f1', 'P', 'a', 'f', 'sd', 'dt', 'PI', 'R', 'let', 'in', 'fun', 'forall', 'exists',
            'if', 'then', 'else', 'match', 'with', 'end', 'as', 'at', 'return', 'Type', 'Prop', 'Set', 'sqrt', 'exp', 'sin', 'cos',
            'a11', 'a12', 'a21', 'a22', 'b11', 'b12', 'b21', 'b22'}


# ----------------------------------------------------------------------------- small structural helpers
def same(x, y):
    return ast.dump(x) == ast.dump(y)


def parse_expr(s):
    return ast.parse(s, mode='eval').body


def is_name(e, n=None):
    return isinstance(e, ast.Name) and (n is None or e.id == n)


def is_const(e, v=None):
    return isinstance(e, ast.Constant) and not isinstance(e.value, bool) and isinstance(e.value, (int, float)) \
        and (v is None or (e.value == v and type(e.value) is type(v)))


def where(st):
    return 'line %s' % getattr(st, 'lineno', '?')


def bad(st, msg):
    raise Unsupported('%s (%s): %s' % (msg, where(st), ast.unparse(st).splitlines()[0][:120]))


def cname(n):
    """Coq identifier for a source temporary"""
    return ('tmp_' + n) if n in RESERVED else n


def tr(e, leaf, env):
    """arithmetic expression -> Coq R expression; `leaf(e)` maps the accepted array forms to scalar names (or None);
    `env` maps source temporaries to Coq identifiers. Returns (text, set of temporaries used)."""
    used = set()

    def go(e):
        r = leaf(e)
        if r is not None:
            return r
        if isinstance(e, ast.Name):
            if e.id in env:
                used.add(e.id)
                return env[e.id]
            raise Unsupported('name `%s` is not a recognised scalar here (line %s)' % (e.id, e.lineno))
        if isinstance(e, ast.Constant):
            if not is_const(e):
                raise Unsupported('constant %r (line %s)' % (e.value, e.lineno))
            return num(e.value)
        if isinstance(e, ast.UnaryOp) and isinstance(e.op, ast.USub):
            return '(- %s)' % go(e.operand)
        if isinstance(e, ast.UnaryOp) and isinstance(e.op, ast.UAdd):
            return go(e.operand)
        if isinstance(e, ast.BinOp):
            if isinstance(e.op, ast.Pow):
                if is_const(e.right) and isinstance(e.right.value, int) and 0 <= e.right.value <= 8:
                    return '(%s ^ %d)' % (go(e.left), e.right.value)
                raise Unsupported('power with a non-literal or non-integer exponent (line %s)' % e.lineno)
            op = {ast.Add: '+', ast.Sub: '-', ast.Mult: '*', ast.Div: '/'}.get(type(e.op))
            if op is None:
                raise Unsupported('operator %s (line %s)' % (type(e.op).__name__, e.lineno))
            return '(%s %s %s)' % (go(e.left), op, go(e.right))
        raise Unsupported('expression form `%s` is not accepted (line %s)' % (ast.unparse(e)[:80], getattr(e, 'lineno', '?')))
    return go(e), used


class Lets:
    """ordered scalar temporaries of one function stage; `chain(used)` gives the let-prefix of the transitive dependencies"""

    def __init__(self):
        self.items = []          # (source name, coq name, text, used)
        self.env = {}

    def add(self, st, name, text, used):
        if name in self.env:
            bad(st, 're-assignment of the temporary `%s`' % name)
        self.items.append((name, cname(name), text, used))
        self.env[name] = cname(name)

    def chain(self, used):
        need, out = set(used), []
        for name, cn, text, u in reversed(self.items):
            if name in need:
                out.append('let %s := %s in ' % (cn, text))
                need |= u
        return ''.join(reversed(out))


def get_function(tree, fname, nparams):
    fn = [n for n in tree.body if isinstance(n, ast.FunctionDef) and n.name == fname]
    if len(fn) != 1:
        raise Unsupported('function %s not found exactly once' % fname)
    fn = fn[0]
    a = fn.args
    if a.vararg or a.kwarg or a.kwonlyargs or a.defaults or a.posonlyargs or len(a.args) != nparams:
        raise Unsupported('%s: expected %d plain parameters' % (fname, nparams))
    body = fn.body
    if body and isinstance(body[0], ast.Expr) and isinstance(body[0].value, ast.Constant) and isinstance(body[0].value.value, str):
        body = body[1:]
    for n in ast.walk(fn):
        if isinstance(n, (ast.AugAssign, ast.While, ast.Try, ast.With, ast.Global, ast.Nonlocal, ast.Lambda, ast.NamedExpr, ast.Delete)):
            bad(n, '%s: statement kind %s is not accepted' % (fname, type(n).__name__))
    return fn, [x.arg for x in a.args], body


def single_target(st):
    return st.targets[0] if isinstance(st, ast.Assign) and len(st.targets) == 1 else None


def is_float_array_of(e, name):
    """np.array(<name>, dtype=float)"""
    return same(e, parse_expr('np.array(%s, dtype=float)' % name))


def lead_zero_test(e, per):
    return same(e, parse_expr('%s[0] == 0' % per))


def int_flag_assign(st):
    """`name = <int literal>` -> (name, value) or None"""
    t = single_target(st)
    if t is not None and is_name(t) and is_const(st.value) and isinstance(st.value.value, int):
        return t.id, st.value.value
    return None


def loads_of(fn, name):
    return [n for n in ast.walk(fn) if isinstance(n, ast.Name) and n.id == name and isinstance(n.ctx, ast.Load)]


# ----------------------------------------------------------------------------- nigam_and_jennings_response
def translate_nj(tree):
    fn, (ACC, DT, PER, XI), body = get_function(tree, 'nigam_and_jennings_response', 4)
    rets = [s for s in body if isinstance(s, ast.Return)]
    if len(rets) != 1 or body[-1] is not rets[0] or not isinstance(rets[0].value, ast.Tuple) or len(rets[0].value.elts) != 3 \
            or not all(is_name(x) for x in rets[0].value.elts):
        raise Unsupported('nigam_and_jennings_response: expected a final `return <u>, <v>, <acc>` of three names')
    U, V, A3 = [x.id for x in rets[0].value.elts]
    if len({U, V, A3, ACC, DT, PER, XI}) != 7:
        raise Unsupported('nigam_and_jennings_response: returned names are not three distinct local arrays')

    g = {}                       # generated pieces
    S = W = A = B = LOOPVAR = None
    pre, post = Lets(), Lets()   # temporaries before the call of compute_a_and_b (per period) / after the loop (per oscillator)
    zeros = set()
    stage = 0                    # 0: before compute_a_and_b, 1: between the call and the loop, 2: after the loop, 3: third series done
    seen_per_conv = False

    def per_leaf(e):             # periods[s:]  ->  P
        if S is not None and same(e, parse_expr('%s[%s:]' % (PER, S))):
            return 'P'
        return None

    for st in body[:-1]:
        t = single_target(st)
        # -- acc = -np.array(acc, dtype=float)
        if t is not None and is_name(t, ACC):
            if 'load' in g or stage != 0:
                bad(st, 'second assignment to the record `%s`' % ACC)

            hit = []

            def leaf(e):
                if is_float_array_of(e, ACC):
                    hit.append(1)
                    return 'a'
                return None
            text, used = tr(st.value, leaf, {})
            if not hit:
                bad(st, 'the new value of `%s` does not read np.array(%s, dtype=float)' % (ACC, ACC))
            g['load'] = text
            continue
        # -- periods = np.array(periods, dtype=float); dt = float(dt); xi = float(xi): conversions that keep the value
        if t is not None and is_name(t, PER):
            if not is_float_array_of(st.value, PER) or stage != 0 or seen_per_conv or S is not None:
                bad(st, 'assignment to `%s` is not the conversion np.array(%s, dtype=float) at the top' % (PER, PER))
            seen_per_conv = True
            continue
        if t is not None and (is_name(t, DT) or is_name(t, XI)):
            if not same(st.value, parse_expr('float(%s)' % t.id)):
                bad(st, 'assignment to `%s` is not the conversion float(%s)' % (t.id, t.id))
            continue
        # -- if periods[0] == 0: s = 1 else: s = 0
        if isinstance(st, ast.If) and lead_zero_test(st.test, PER):
            if S is not None or stage != 0 or len(st.body) != 1 or len(st.orelse) != 1:
                bad(st, 'unexpected shape of the leading-zero-period test')
            f1, f0 = int_flag_assign(st.body[0]), int_flag_assign(st.orelse[0])
            if f1 is None or f0 is None or f1[0] != f0[0] or (f1[1], f0[1]) != (1, 0):
                bad(st, 'the leading-zero-period test must set one flag to 1 / 0')
            S = f1[0]
            continue
        # -- a, b = compute_a_and_b(xi, w, dt)
        if t is not None and isinstance(t, ast.Tuple) and isinstance(st.value, ast.Call) and is_name(st.value.func, 'compute_a_and_b'):
            c = st.value
            if stage != 0 or len(t.elts) != 2 or not all(is_name(x) for x in t.elts) or c.keywords or len(c.args) != 3 \
                    or not is_name(c.args[0], XI) or not is_name(c.args[1]) or not is_name(c.args[2], DT):
                bad(st, 'expected `<a>, <b> = compute_a_and_b(%s, <w>, %s)`' % (XI, DT))
            A, B, W = t.elts[0].id, t.elts[1].id, c.args[1].id
            if W not in pre.env:
                bad(st, 'the angular frequency `%s` is not assigned before this call' % W)
            stage = 1
            continue
        # -- resp_u = np.zeros([len(periods), len(acc)], dtype=float)
        if t is not None and is_name(t) and t.id in (U, V):
            if not same(st.value, parse_expr('np.zeros([len(%s), len(%s)], dtype=float)' % (PER, ACC))) or t.id in zeros or stage > 1:
                bad(st, 'the state array `%s` must be created once by np.zeros([len(%s), len(%s)], dtype=float) before the loop' % (t.id, PER, ACC))
            zeros.add(t.id)
            continue
        # -- the loop
        if isinstance(st, ast.For):
            if stage != 1 or zeros != {U, V} or 'load' not in g:
                bad(st, 'the loop must follow the call of compute_a_and_b, the creation of both state arrays and the load assignment')
            if st.orelse or not is_name(st.target) or not same(st.iter, parse_expr('range(len(%s) - 1)' % ACC)):
                bad(st, 'expected `for <i> in range(len(%s) - 1)`' % ACC)
            LOOPVAR = st.target.id
            if len(st.body) != 2:
                bad(st, 'expected exactly two subscript-assignments in the loop body')
            forms = {}
            for k, nm in enumerate(('a11', 'a12', 'a21', 'a22')):
                forms[ast.dump(parse_expr('%s[%d][%d]' % (A, k // 2, k % 2)))] = nm
            for k, nm in enumerate(('b11', 'b12', 'b21', 'b22')):
                forms[ast.dump(parse_expr('%s[%d][%d]' % (B, k // 2, k % 2)))] = nm
            forms[ast.dump(parse_expr('%s[%s:, %s]' % (U, S, LOOPVAR)))] = 'u'
            forms[ast.dump(parse_expr('%s[%s:, %s]' % (V, S, LOOPVAR)))] = 'v'
            forms[ast.dump(parse_expr('%s[%s]' % (ACC, LOOPVAR)))] = 'f0'
            forms[ast.dump(parse_expr('%s[%s + 1]' % (ACC, LOOPVAR)))] = 'f1'

            def leaf(e):
                return forms.get(ast.dump(e))
            for b in st.body:
                bt = single_target(b)
                which = None
                for arr, key in ((U, 'step_u'), (V, 'step_v')):
                    if bt is not None and same(bt, ast.parse('%s[%s:, %s + 1] = 0' % (arr, S, LOOPVAR)).body[0].targets[0]):
                        which = key
                if which is None or which in g:
                    bad(b, 'loop statement is not an assignment to %s[%s:, %s + 1] / %s[%s:, %s + 1] (one each)' % (U, S, LOOPVAR, V, S, LOOPVAR))
                g[which], _ = tr(b.value, leaf, {})
            stage = 2
            continue
        # -- third series: if s: ... else: ...
        if isinstance(st, ast.If) and is_name(st.test, S) and stage == 2:
            def leaf(e):
                if same(e, parse_expr('%s[:, np.newaxis]' % W)):
                    return 'w'
                for name, cn, _, _ in post.items:
                    if same(e, parse_expr('%s[:, np.newaxis]' % name)):
                        used3.add(name)
                        return cn
                if same(e, parse_expr('%s[%s:]' % (U, S))):
                    return 'u'
                if same(e, parse_expr('%s[%s:]' % (V, S))):
                    return 'v'
                if is_name(e, XI):
                    return 'xi'
                return None
            if len(st.body) != 3 or len(st.orelse) != 1:
                bad(st, 'expected three statements in the `if %s:` branch and one in the else branch' % S)
            s0, s1, s2 = st.body
            if not (is_name(single_target(s0), A3) and same(s0.value, parse_expr('np.zeros_like(%s, dtype=float)' % U))):
                bad(s0, 'expected `%s = np.zeros_like(%s, dtype=float)`' % (A3, U))
            if not (single_target(s1) is not None and same(single_target(s1), ast.parse('%s[%s:] = 0' % (A3, S)).body[0].targets[0])):
                bad(s1, 'expected an assignment to %s[%s:]' % (A3, S))
            used3 = set()
            text, _ = tr(s1.value, leaf, {})
            g['resp_acc_lead0'] = post.chain(used3) + text
            if not (single_target(s2) is not None and same(single_target(s2), ast.parse('%s[0] = 0' % A3).body[0].targets[0])):
                bad(s2, 'expected an assignment to %s[0]' % A3)
            text, _ = tr(s2.value, lambda e: 'f' if is_name(e, ACC) else None, {})
            g['zero_row_acc'] = text
            e0 = st.orelse[0]
            if not is_name(single_target(e0), A3):
                bad(e0, 'expected an assignment to `%s`' % A3)
            used3 = set()
            text, _ = tr(e0.value, leaf, {})
            g['resp_acc'] = post.chain(used3) + text
            stage = 3
            continue
        # -- scalar temporaries
        if t is not None and is_name(t) and t.id not in (ACC, DT, PER, XI, U, V, A3, S, A, B):
            if stage == 0:
                text, used = tr(st.value, per_leaf, pre.env)
                pre.add(st, t.id, text, used)
                if is_const(st.value.left if isinstance(st.value, ast.BinOp) else None) and isinstance(st.value.op, ast.Div) \
                        and per_leaf(st.value.right) == 'P':
                    g.setdefault('const_of', {})[t.id] = num(st.value.left.value)
                continue
            if stage == 2:
                def leaf(e):
                    return 'w' if is_name(e, W) else ('xi' if is_name(e, XI) else None)
                text, used = tr(st.value, leaf, post.env)
                post.add(st, t.id, text, used)
                continue
        bad(st, 'nigam_and_jennings_response: statement not recognised')

    for key, what in (('load', 'the load assignment'), ('step_u', 'the loop'), ('step_v', 'the loop'), ('resp_acc', 'the third series'),
                      ('resp_acc_lead0', 'the third series'), ('zero_row_acc', 'the T = 0 row')):
        if key not in g:
            raise Unsupported('nigam_and_jennings_response: %s was not found' % what)
    if len(loads_of(fn, W)) == 0 or S is None:
        raise Unsupported('nigam_and_jennings_response: angular frequency / leading-zero flag not found')
    wdef = [it for it in pre.items if it[0] == W][0]
    g['w'] = pre.chain(wdef[3]) + wdef[2]
    if W not in g.get('const_of', {}):
        raise Unsupported('nigam_and_jennings_response: the assignment to `%s` is not <numeric literal> / %s[%s:]' % (W, PER, S))
    g['c2pi'] = g['const_of'][W]
    return g


# ----------------------------------------------------------------------------- the spectra functions
REL = {ast.Lt: '<', ast.LtE: '<=', ast.Gt: '>', ast.GtE: '>='}


def cut_of(st, PER, DT, MOT, fname):
    """`X = np.where(periods <op> <thr(dt)>, absmax(motion), X)` -> (X, relation, threshold text, factor text)"""
    t = single_target(st)
    c = st.value if isinstance(st, ast.Assign) else None
    if not (t is not None and is_name(t) and isinstance(c, ast.Call) and same(c.func, parse_expr('np.where')) and not c.keywords and len(c.args) == 3):
        return None
    cond, yes, no = c.args
    if not (isinstance(cond, ast.Compare) and len(cond.ops) == 1 and type(cond.ops[0]) in REL and is_name(cond.left, PER)):
        bad(st, '%s: the np.where condition must compare `%s` with a threshold' % (fname, PER))
    if not same(yes, parse_expr('absmax(%s)' % MOT)) or not is_name(no, t.id):
        bad(st, '%s: expected np.where(<cond>, absmax(%s), %s)' % (fname, MOT, t.id))
    thr = cond.comparators[0]
    text, _ = tr(thr, lambda e: 'dt' if is_name(e, DT) else None, {})
    if not (isinstance(thr, ast.BinOp) and isinstance(thr.op, ast.Mult) and
            ((is_name(thr.left, DT) and is_const(thr.right)) or (is_name(thr.right, DT) and is_const(thr.left)))):
        bad(st, '%s: the threshold is not `%s * <literal>`' % (fname, DT))
    fac = num((thr.right if is_name(thr.left, DT) else thr.left).value)
    return t.id, REL[type(cond.ops[0])], text, fac


def response_call(st, MOT, DT, PER, XI):
    t = single_target(st)
    if t is not None and isinstance(t, ast.Tuple) and len(t.elts) == 3 and all(is_name(x) for x in t.elts) \
            and same(st.value, parse_expr('nigam_and_jennings_response(%s, %s, %s, %s)' % (MOT, DT, PER, XI))):
        return [x.id for x in t.elts]
    return None


def absmax_rows(st):
    """`X = absmax(<rows>, axis=1)` -> (X, rows)"""
    t = single_target(st)
    c = st.value if isinstance(st, ast.Assign) else None
    if t is not None and is_name(t) and isinstance(c, ast.Call) and is_name(c.func, 'absmax') and len(c.args) == 1 and is_name(c.args[0]) \
            and len(c.keywords) == 1 and c.keywords[0].arg == 'axis' and is_const(c.keywords[0].value, 1):
        return t.id, c.args[0].id
    return None


def ret_names(body, fname):
    r = body[-1]
    if not (isinstance(r, ast.Return) and isinstance(r.value, ast.Tuple) and len(r.value.elts) == 3 and all(is_name(x) for x in r.value.elts)) \
            or any(isinstance(s, ast.Return) for s in body[:-1]):
        raise Unsupported('%s: expected a single final `return <sd>, <sv>, <sa>`' % fname)
    return [x.id for x in r.value.elts]


def translate_pseudo(tree):
    fname = 'pseudo_response_spectra'
    fn, (MOT, DT, PER, XI), body = get_function(tree, fname, 4)
    R0, R1, R2 = ret_names(body, fname)
    g = {}
    W = SDS = rows = None
    lets = Lets()
    cut = None
    defs_after_cut = False
    conv = False
    for st in body[:-1]:
        t = single_target(st)
        if t is not None and is_name(t, PER):
            if conv or W is not None or not is_float_array_of(st.value, PER):
                bad(st, '%s: assignment to `%s` is not the conversion np.array(%s, dtype=float) at the top' % (fname, PER, PER))
            conv = True
            continue
        if isinstance(st, ast.If) and lead_zero_test(st.test, PER):
            if W is not None:
                bad(st, '%s: second leading-zero-period test' % fname)
            # flags (`s = 1` / `s = 0`) are accepted only if the flag is never read in this function
            def strip_flags(stmts):
                out = []
                for x in stmts:
                    f = int_flag_assign(x)
                    if f is not None:
                        if loads_of(fn, f[0]):
                            bad(x, '%s: the flag `%s` is read in this function' % (fname, f[0]))
                        continue
                    out.append(x)
                return out
            b1, b0 = strip_flags(st.body), strip_flags(st.orelse)
            if len(b1) != 2 or len(b0) != 1:
                bad(st, '%s: unexpected shape of the leading-zero-period block' % fname)
            t0 = single_target(b0[0])
            if not is_name(t0):
                bad(b0[0], '%s: expected `<w> = ...`' % fname)
            W = t0.id
            pi_leaf = lambda e: 'PI' if same(e, parse_expr('np.pi')) else None  # noqa: E731
            g['w_pseudo'], _ = tr(b0[0].value, lambda e: 'P' if is_name(e, PER) else pi_leaf(e), {})
            if not (is_name(single_target(b1[0]), W) and same(b1[0].value, parse_expr('np.ones_like(%s)' % PER))):
                bad(b1[0], '%s: expected `%s = np.ones_like(%s)`' % (fname, W, PER))
            g['w_placeholder'] = '1'
            if not (single_target(b1[1]) is not None and same(single_target(b1[1]), ast.parse('%s[1:] = 0' % W).body[0].targets[0])):
                bad(b1[1], '%s: expected an assignment to %s[1:]' % (fname, W))
            g['w_pseudo_lead0'], _ = tr(b1[1].value, lambda e: 'P' if same(e, parse_expr('%s[1:]' % PER)) else pi_leaf(e), {})
            continue
        rc = response_call(st, MOT, DT, PER, XI)
        if rc is not None:
            if rows is not None or W is None:
                bad(st, '%s: unexpected position of the response call' % fname)
            rows = rc
            continue
        am = absmax_rows(st)
        if am is not None:
            if rows is None or SDS is not None or am[0] != R0 or am[1] != rows[0]:
                bad(st, '%s: expected `%s = absmax(<displacement rows>, axis=1)` once' % (fname, R0))
            SDS = am[0]
            continue
        c = cut_of(st, PER, DT, MOT, fname) if SDS is not None else None
        if c is not None:
            if cut is not None or c[0] != R2 or R2 not in lets.env:
                bad(st, '%s: the np.where substitution must be applied once, to the returned `%s`, after its definition' % (fname, R2))
            cut = c
            continue
        if t is not None and is_name(t) and SDS is not None and t.id not in (MOT, DT, PER, XI, W, SDS) + tuple(rows):
            if cut is not None:
                bad(st, '%s: assignment after the np.where substitution' % fname)
            text, used = tr(st.value, lambda e: 'w' if is_name(e, W) else ('sd' if is_name(e, SDS) else None), lets.env)
            lets.add(st, t.id, text, used)
            continue
        bad(st, '%s: statement not recognised' % fname)
    if W is None or SDS is None or cut is None or R1 not in lets.env or R2 not in lets.env or R1 == R2:
        raise Unsupported('%s: angular frequency, S_d, S_v, S_a or the np.where substitution not found' % fname)
    for key, nm in (('psv', R1), ('psa', R2)):
        it = [x for x in lets.items if x[0] == nm][0]
        g[key] = lets.chain(it[3]) + it[2]
    g['cut_rel'], g['cut_thr'], g['cut_fac'] = cut[1], cut[2], cut[3]
    return g


def translate_true(tree):
    fname = 'true_response_spectra'
    fn, (MOT, DT, PER, XI), body = get_function(tree, fname, 4)
    R0, R1, R2 = ret_names(body, fname)
    rows, src, cut, conv = None, {}, None, False
    for st in body[:-1]:
        t = single_target(st)
        if t is not None and is_name(t, PER):
            if conv or rows is not None or not is_float_array_of(st.value, PER):
                bad(st, '%s: assignment to `%s` is not the conversion np.array(%s, dtype=float) at the top' % (fname, PER, PER))
            conv = True
            continue
        rc = response_call(st, MOT, DT, PER, XI)
        if rc is not None:
            if rows is not None:
                bad(st, '%s: second response call' % fname)
            rows = rc
            continue
        am = absmax_rows(st)
        if am is not None:
            if rows is None or am[0] in src or cut is not None:
                bad(st, '%s: unexpected absmax assignment' % fname)
            src[am[0]] = am[1]
            continue
        c = cut_of(st, PER, DT, MOT, fname)
        if c is not None:
            if cut is not None or c[0] != R2 or R2 not in src:
                bad(st, '%s: the np.where substitution must be applied once, to the returned `%s`, after its definition' % (fname, R2))
            cut = c
            continue
        bad(st, '%s: statement not recognised' % fname)
    if rows is None or cut is None or [src.get(R0), src.get(R1), src.get(R2)] != rows:
        raise Unsupported('%s: the returned spectra are not absmax of (displacement, velocity, acceleration) rows in this order, or the np.where is missing' % fname)
    return {'cut_rel': cut[1], 'cut_thr': cut[2], 'cut_fac': cut[3]}


# ----------------------------------------------------------------------------- output
HEADER = '''(** GENERATED by translator/py2coq_sdof_loop.py from eqsig/sdof.py -- do not edit.
    Scalar readings (one oscillator, one sample) of the statements of nigam_and_jennings_response,
    pseudo_response_spectra and true_response_spectra that surround compute_a_and_b. Temporaries keep their source names
    as let-bindings. Accepted syntactic forms (anything else aborts the translator), with <x> the names found in the source:
      np.array(<acc>, dtype=float)            reads as  a     the record sample              (gen_load)
      <periods>[<s>:]                         reads as  P     the period of the oscillator   (gen_w)
      <a>[0][0] .. <a>[1][1], <b>[0][0] ..    read  as  a11 .. a22, b11 .. b22  (the matrices returned by compute_a_and_b(xi, w, dt))
      <resp_u>[<s>:, <i>], <resp_v>[<s>:, <i>] read as  u, v  the state of the oscillator at sample i; the targets are [<s>:, <i> + 1]
      <acc>[<i>], <acc>[<i> + 1]              read  as  f0, f1 the load at samples i, i + 1  (the loop is `for <i> in range(len(<acc>) - 1)`)
      <w>[:, np.newaxis], <tmp>[:, np.newaxis] read as  w, tmp;  <resp_u>[<s>:], <resp_v>[<s>:] read as u, v   (third series)
      <acc> in `<sdof_acc>[0] = <acc>`        reads as  f     the load sample                (gen_zero_row_acc)
      np.zeros(...) for the state arrays      reads as  0     (gen_init_u, gen_init_v);  np.ones_like(<periods>) as 1 (gen_w_placeholder)
      <periods> / <periods>[1:] in the pseudo w  read as P;  np.pi as PI;  <w>, <sds> in the S_v / S_a lines as w, sd
      np.where(<periods> REL <dt> * c, absmax(<motion>), <sas>)  gives  gen_cut_cond P dt := P REL gen_cut_threshold dt
    Float literals are their decimal text as exact rationals. *)
From Coq Require Import Reals.
Local Open Scope R_scope.

'''

COEF = 'a11 a12 a21 a22 b11 b12 b21 b22'


def render(nj, ps, tru):
    d = []
    d.append('(* nigam_and_jennings_response *)')
    d.append('Definition gen_load (a : R) : R := %s.' % nj['load'])
    d.append('Definition gen_record_sign : R := gen_load 1.')
    d.append('Definition gen_c2pi : R := %s.' % nj['c2pi'])
    d.append('Definition gen_w (P : R) : R := %s.' % nj['w'])
    d.append('Definition gen_init_u : R := 0.')
    d.append('Definition gen_init_v : R := 0.')
    d.append('Definition gen_step_u (%s u v f0 f1 : R) : R :=\n  %s.' % (COEF, nj['step_u']))
    d.append('Definition gen_step_v (%s u v f0 f1 : R) : R :=\n  %s.' % (COEF, nj['step_v']))
    d.append('Definition gen_resp_acc (xi w u v : R) : R :=\n  %s.' % nj['resp_acc'])
    d.append('Definition gen_resp_acc_lead0 (xi w u v : R) : R :=\n  %s.' % nj['resp_acc_lead0'])
    d.append('Definition gen_zero_row_acc (f : R) : R := %s.' % nj['zero_row_acc'])
    d.append('\n(* pseudo_response_spectra *)')
    d.append('Definition gen_w_pseudo (P : R) : R := %s.' % ps['w_pseudo'])
    d.append('Definition gen_w_pseudo_lead0 (P : R) : R := %s.' % ps['w_pseudo_lead0'])
    d.append('Definition gen_w_placeholder : R := %s.' % ps['w_placeholder'])
    d.append('Definition gen_psv (w sd : R) : R := %s.' % ps['psv'])
    d.append('Definition gen_psa (w sd : R) : R := %s.' % ps['psa'])
    d.append('Definition gen_cut_threshold (dt : R) : R := %s.' % ps['cut_thr'])
    d.append('Definition gen_cut_factor : R := %s.' % ps['cut_fac'])
    d.append('Definition gen_cut_cond (P dt : R) : Prop := P %s gen_cut_threshold dt.' % ps['cut_rel'])
    d.append('\n(* true_response_spectra (spectra = absmax of the displacement, velocity, acceleration rows: checked structurally) *)')
    d.append('Definition gen_true_cut_threshold (dt : R) : R := %s.' % tru['cut_thr'])
    d.append('Definition gen_true_cut_factor : R := %s.' % tru['cut_fac'])
    d.append('Definition gen_true_cut_cond (P dt : R) : Prop := P %s gen_true_cut_threshold dt.' % tru['cut_rel'])
    return HEADER + '\n'.join(d) + '\n'


def translate_source(src):
    tree = ast.parse(src)
    return render(translate_nj(tree), translate_pseudo(tree), translate_true(tree))


def generate(repo, dest):
    text = translate_source(open(os.path.join(repo, 'eqsig', 'sdof.py')).read())
    old = open(dest).read() if os.path.exists(dest) else None
    if old != text:
        os.makedirs(os.path.dirname(dest), exist_ok=True)
        tmp = '%s.%d.tmp' % (dest, os.getpid())
        with open(tmp, 'w') as f:
            f.write(text)
        os.replace(tmp, dest)
    return text


def regenerate(repo=None, out=None):
    """uniform entry point for translator/regen.py: returns True iff the file was rewritten"""
    repo = repo or os.environ.get('EQSIG_REPO', '/repo')
    here = os.path.dirname(os.path.dirname(os.path.abspath(__file__)))
    out = out or os.path.join(here, 'coq', 'gen', 'Gen_sdof_loop.v')
    old = open(out).read() if os.path.exists(out) else None
    return generate(repo, out) != old


if __name__ == '__main__':
    repo = sys.argv[1] if len(sys.argv) > 1 else os.environ.get('EQSIG_REPO', '/repo')
    print('Gen_sdof_loop.v %s' % ('rewritten' if regenerate(repo) else 'up to date'))
