From Coq Require Import QArith Qabs Qreals Reals List Lra Lia Bool.
Import ListNotations.

Class NumOps (T : Type) := {
  n0 : T; n1 : T; nadd : T -> T -> T; nsub : T -> T -> T; nmul : T -> T -> T;
  ndiv : T -> T -> T; nopp : T -> T; nabs : T -> T; nltb : T -> T -> bool; nofZ : Z -> T }.

#[export] Instance NumQ : NumOps Q := {|
  n0 := 0%Q; n1 := 1%Q; nadd x y := Qred (x + y); nsub x y := Qred (x - y); nmul x y := Qred (x * y);
  ndiv x y := Qred (x / y); nopp x := Qred (- x); nabs x := Qred (Qabs x);
  nltb x y := match Qcompare x y with Lt => true | _ => false end; nofZ z := inject_Z z |}.

Definition Rltb (x y : R) : bool := if Rlt_dec x y then true else false.
#[export] Instance NumR : NumOps R := {|
  n0 := 0%R; n1 := 1%R; nadd := Rplus; nsub := Rminus; nmul := Rmult; ndiv := Rdiv; nopp := Ropp; nabs := Rabs;
  nltb := Rltb; nofZ := IZR |}.

Section Generic.
Context {T : Type} `{NumOps T}.
Fixpoint cumtrapz_from (dx acc prev : T) (l : list T) : list T :=
  match l with
  | [] => []
  | x :: r => let a := nadd acc (ndiv (nmul dx (nadd x prev)) (nofZ 2)) in a :: cumtrapz_from dx a x r
  end.
Definition cumtrapz (dx : T) (l : list T) : list T :=
  match l with [] => [] | x :: r => n0 :: cumtrapz_from dx n0 x r end.
Definition count_pos (l : list T) : nat := length (filter (fun x => nltb n0 x) l).
End Generic.

(* theorem over R *)
Lemma cumtrapz_from_nth dx acc prev l i d :
  (S i < length (acc :: cumtrapz_from (T:=R) dx acc prev l))%nat ->
  (nth (S i) (acc :: cumtrapz_from dx acc prev l) d - nth i (acc :: cumtrapz_from dx acc prev l) d
   = dx * (nth (S i) (prev :: l) d + nth i (prev :: l) d) / 2)%R.
Proof.
  revert acc prev i. induction l as [|x r IH]; intros acc prev i Hi; cbn in Hi; [lia|].
  destruct i as [|i].
  - cbn. lra.
  - cbn [cumtrapz_from]. cbn [nth] in *. apply IH. cbn. cbn in Hi. lia.
Qed.

(* transfer *)
Definition rel (q : Q) (r : R) := Q2R q = r.
Lemma Q2R_red q : Q2R (Qred q) = Q2R q. Proof. apply Qeq_eqR, Qred_correct. Qed.
Lemma rel_add a b x y : rel a x -> rel b y -> rel (nadd a b) (nadd x y).
Proof. unfold rel; cbn [nadd nsub nmul ndiv nofZ nltb NumQ NumR]; intros <- <-. now rewrite Q2R_red, Q2R_plus. Qed.
Lemma rel_mul a b x y : rel a x -> rel b y -> rel (nmul a b) (nmul x y).
Proof. unfold rel; cbn [nadd nsub nmul ndiv nofZ nltb NumQ NumR]; intros <- <-. now rewrite Q2R_red, Q2R_mult. Qed.
Lemma Q2R_inv' q : Q2R (/ q) = (/ Q2R q)%R.
Proof. destruct (Qeq_dec q 0) as [E|E].
  - rewrite (Qeq_eqR _ _ E). assert (/ q == 0)%Q as ->%Qeq_eqR. { rewrite E. reflexivity. } rewrite RMicromega.Q2R_0. now rewrite Rinv_0.
  - now apply Q2R_inv. Qed.
Lemma rel_div a b x y : rel a x -> rel b y -> rel (ndiv a b) (ndiv x y).
Proof. unfold rel; cbn [nadd nsub nmul ndiv nofZ nltb NumQ NumR]; intros <- <-. unfold Qdiv, Rdiv. now rewrite Q2R_red, Q2R_mult, Q2R_inv'. Qed.
Lemma rel_ofZ z : rel (nofZ z) (nofZ z).
Proof. unfold rel; cbn [nofZ NumQ NumR]. unfold Q2R; cbn. field. Qed.
Lemma rel_ltb a b x y : rel a x -> rel b y -> nltb a b = nltb x y.
Proof. unfold rel; cbn [nadd nsub nmul ndiv nofZ nltb NumQ NumR]; intros <- <-. unfold Rltb. destruct (Qcompare_spec a b) as [E|L|G]; destruct (Rlt_dec _ _) as [r|r]; auto.
  - apply Qeq_eqR in E. lra.
  - apply Qlt_Rlt in L. lra.
  - apply Qlt_Rlt in G. lra. Qed.

Lemma cumtrapz_from_transfer dx dx' acc acc' prev prev' l l' :
  rel dx dx' -> rel acc acc' -> rel prev prev' -> Forall2 rel l l' ->
  Forall2 rel (cumtrapz_from dx acc prev l) (cumtrapz_from dx' acc' prev' l').
Proof.
  intros Hdx Hacc Hprev HF. revert acc acc' prev prev' Hacc Hprev.
  induction HF as [|x x' r r' Hx HF IH]; intros; cbn [cumtrapz_from]; constructor.
  - auto using rel_add, rel_mul, rel_div, rel_ofZ.
  - apply IH; auto using rel_add, rel_mul, rel_div, rel_ofZ.
Qed.

Eval vm_compute in cumtrapz (1#100)%Q [1; 2; 4; (7#3)]%Q.
Print Assumptions cumtrapz_from_transfer.
