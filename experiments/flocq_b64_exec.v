From Coq Require Import ZArith Reals.
From Flocq Require Import Core IEEE754.Binary IEEE754.Bits IEEE754.BinarySingleNaN.
Open Scope Z_scope.
Definition f (z:Z) := b64_of_bits z.
Definition dt := f 4576918229304087675.
Definition tg := f 4584304132692975288.
Definition q := b64_div mode_NE dt tg.
Time Eval vm_compute in bits_of_b64 q.
Definition one := f 4607182418800017408.
Time Eval vm_compute in bits_of_b64 (b64_div mode_NE one q).
Check @Bdiv_correct.
