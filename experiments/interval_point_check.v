From Coq Require Import Reals Lra.
From Interval Require Import Tactic.
Open Scope R_scope.
Goal Rabs (exp (-(1/20) * (314/100) * (1/100)) * cos (3 * (1/100)) - 0.9979819714470017) <= 1e-14.
Proof. Time interval with (i_prec 80). Qed.
Goal Rabs (sin (PI/7) + sqrt 2 - 1.8480973014906532) <= 1e-14.
Proof. Time interval with (i_prec 80). Qed.
Goal True.
  tryif (assert (Rabs (sin (PI/7) + sqrt 2 - 1.9480973014906532) <= 1e-14) by (interval with (i_prec 80))) then idtac "OK 1" else idtac "FAIL 1".
  exact I.
Qed.
