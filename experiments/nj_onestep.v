(* Design-phase feasibility experiment (not part of the framework): Nigam-Jennings one-step
   coefficients, as written in eqsig/sdof.py:compute_a_and_b, propagate the closed-form solution of
   u'' + 2 xi w u' + w^2 u = g0 + s t exactly; the closed form satisfies the ODE (Coquelicot). *)
From Coq Require Import Reals Lra.
Open Scope R_scope.

Section NJ.
Variables xi w dt : R.
Hypothesis Hw : 0 < w.
Hypothesis Hdt : 0 < dt.
Hypothesis Hxi0 : 0 <= xi.
Hypothesis Hxi1 : xi < 1.

(* code's names *)
Definition xi2 := xi * xi.
Definition w2 := w ^ 2.
Definition one_ov_w2 := 1 / w2.
Definition sqrt_b2 := sqrt (1 - xi2).
Definition w_sqrt_b2 := w * sqrt_b2.
Definition exp_b := exp (- xi * w * dt).
Definition two_b_ov_w2 := (2 * xi ^ 2 - 1) / (w ^ 2 * dt).
Definition two_b_ov_w3 := 2 * xi / (w ^ 3 * dt).
Definition sin_wsqrt := sin (w_sqrt_b2 * dt).
Definition cos_wsqrt := cos (w_sqrt_b2 * dt).
Definition a_11 := exp_b * (xi / sqrt_b2 * sin_wsqrt + cos_wsqrt).
Definition a_12 := exp_b / (w * sqrt_b2) * sin_wsqrt.
Definition a_21 := - w / sqrt_b2 * exp_b * sin_wsqrt.
Definition a_22 := exp_b * (cos_wsqrt - xi / sqrt_b2 * sin_wsqrt).
Definition bsqrd_ov_w2_p_xi_ov_w := two_b_ov_w2 + xi / w.
Definition sin_ov_wsqrt := sin_wsqrt / w_sqrt_b2.
Definition xwcos := xi * w * cos_wsqrt.
Definition wsqrtsin := w_sqrt_b2 * sin_wsqrt.
Definition b_11 := exp_b * (bsqrd_ov_w2_p_xi_ov_w * sin_ov_wsqrt + (two_b_ov_w3 + one_ov_w2) * cos_wsqrt) - two_b_ov_w3.
Definition b_12 := - exp_b * (two_b_ov_w2 * sin_ov_wsqrt + two_b_ov_w3 * cos_wsqrt) - one_ov_w2 + two_b_ov_w3.
Definition b_21 := exp_b * (bsqrd_ov_w2_p_xi_ov_w * (cos_wsqrt - xi / sqrt_b2 * sin_wsqrt)
                    - (two_b_ov_w3 + one_ov_w2) * (wsqrtsin + xwcos)) + one_ov_w2 / dt.
Definition b_22 := - exp_b * (two_b_ov_w2 * (cos_wsqrt - xi / sqrt_b2 * sin_wsqrt) - two_b_ov_w3 * (wsqrtsin + xwcos)) - one_ov_w2 / dt.

(* closed form solution of u'' + 2 xi w u' + w^2 u = g0 + s t *)
Definition q := sqrt (1 - xi * xi).
Definition h1 t := exp (- xi * w * t) * (cos (w * q * t) + xi / q * sin (w * q * t)).
Definition h2 t := exp (- xi * w * t) * sin (w * q * t) / (w * q).
Definition dh1 t := - w / q * exp (- xi * w * t) * sin (w * q * t).
Definition dh2 t := exp (- xi * w * t) * (cos (w * q * t) - xi / q * sin (w * q * t)).
Definition up g0 s t := g0 / w^2 + s * t / w^2 - 2 * xi * s / w^3.
Definition usol u0 v0 g0 s t := up g0 s t + (u0 - up g0 s 0) * h1 t + (v0 - s / w^2) * h2 t.
Definition vsol u0 v0 g0 s t := s / w^2 + (u0 - up g0 s 0) * dh1 t + (v0 - s / w^2) * dh2 t.

Lemma q_pos : 0 < q.
Proof. unfold q. apply sqrt_lt_R0. nra. Qed.
Lemma q_sq : q * q = 1 - xi * xi.
Proof. unfold q. apply sqrt_sqrt. nra. Qed.

Lemma step_u u0 v0 g0 g1 :
  usol u0 v0 g0 ((g1 - g0) / dt) dt = a_11 * u0 + a_12 * v0 + b_11 * (- g0) + b_12 * (- g1).
Proof.
  pose proof q_pos as Hq. pose proof q_sq as Hqq.
  unfold usol, up, h1, h2, a_11, a_12, b_11, b_12, bsqrd_ov_w2_p_xi_ov_w, sin_ov_wsqrt, two_b_ov_w2, two_b_ov_w3,
    one_ov_w2, w2, exp_b, sin_wsqrt, cos_wsqrt, w_sqrt_b2, sqrt_b2, xi2.
  fold q.
  set (E := exp (- xi * w * dt)). set (S := sin (w * q * dt)). set (C := cos (w * q * dt)).
  Time field_simplify_eq; [| repeat split; lra].
  Time ring [Hqq].
Qed.

Lemma step_v u0 v0 g0 g1 :
  vsol u0 v0 g0 ((g1 - g0) / dt) dt = a_21 * u0 + a_22 * v0 + b_21 * (- g0) + b_22 * (- g1).
Proof.
  pose proof q_pos as Hq. pose proof q_sq as Hqq.
  cbv delta [vsol up dh1 dh2 a_21 a_22 b_21 b_22 bsqrd_ov_w2_p_xi_ov_w sin_ov_wsqrt two_b_ov_w2 two_b_ov_w3
    one_ov_w2 w2 exp_b sin_wsqrt cos_wsqrt w_sqrt_b2 sqrt_b2 xi2 wsqrtsin xwcos] beta.
  fold q.
  set (E := exp (- xi * w * dt)). set (S := sin (w * q * dt)). set (C := cos (w * q * dt)).
  Time field_simplify_eq; [| repeat split; lra].
  Time ring [Hqq].
Qed.

From Coquelicot Require Import Coquelicot.

Lemma usol_deriv u0 v0 g0 s t : is_derive (usol u0 v0 g0 s) t (vsol u0 v0 g0 s t).
Proof.
  pose proof q_pos as Hq. pose proof q_sq as Hqq.
  unfold usol, vsol, up, h1, h2, dh1, dh2.
  auto_derive; [ repeat split; auto |].
  Time field_simplify_eq; [| repeat split; lra].
  Time ring [Hqq].
Qed.

Lemma vsol_deriv u0 v0 g0 s t :
  is_derive (vsol u0 v0 g0 s) t (g0 + s * t - 2 * xi * w * vsol u0 v0 g0 s t - w^2 * usol u0 v0 g0 s t).
Proof.
  pose proof q_pos as Hq. pose proof q_sq as Hqq.
  unfold usol, vsol, up, h1, h2, dh1, dh2.
  auto_derive; [ repeat split; auto |].
  Time field_simplify_eq; [| repeat split; lra].
  Time ring [Hqq].
Qed.

Lemma usol_0 u0 v0 g0 s : usol u0 v0 g0 s 0 = u0.
Proof. pose proof q_pos. unfold usol, h1, h2, up. rewrite !Rmult_0_r, exp_0, cos_0, sin_0. field. lra. Qed.
Lemma vsol_0 u0 v0 g0 s : vsol u0 v0 g0 s 0 = v0.
Proof. pose proof q_pos. unfold vsol, dh1, dh2, up. rewrite !Rmult_0_r, exp_0, cos_0, sin_0. field. lra. Qed.
End NJ.
Print Assumptions usol_deriv.

