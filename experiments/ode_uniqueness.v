From Coq Require Import Reals Lra.
From Coquelicot Require Import Coquelicot.
Open Scope R_scope.

(* homogeneous damped oscillator with zero data stays zero on [0,T] *)
Lemma homog_zero (xi w T : R) (u v : R -> R) :
  0 < w -> 0 <= xi -> 0 <= T ->
  (forall t, 0 <= t <= T -> is_derive u t (v t)) ->
  (forall t, 0 <= t <= T -> is_derive v t (- 2 * xi * w * v t - w ^ 2 * u t)) ->
  u 0 = 0 -> v 0 = 0 ->
  forall t, 0 <= t <= T -> u t = 0 /\ v t = 0.
Proof.
  intros Hw Hxi HT Hu Hv Hu0 Hv0 t Ht.
  set (E := fun s => v s * v s + w ^ 2 * (u s * u s)).
  set (dE := fun s => - 4 * xi * w * (v s * v s)).
  assert (HdE : forall s, 0 <= s <= T -> is_derive E s (dE s)).
  { intros s Hs. unfold E, dE.
    pose proof (Hu s Hs) as Hus. pose proof (Hv s Hs) as Hvs.
    auto_derive.
    - repeat split; eexists; eassumption.
    - assert (Derive (fun x => v x) s = -2 * xi * w * v s - w ^ 2 * u s) as -> by (apply is_derive_unique; exact Hvs).
      assert (Derive (fun x => u x) s = v s) as -> by (apply is_derive_unique; exact Hus). ring. }
  assert (HE0 : E 0 = 0) by (unfold E; rewrite Hu0, Hv0; ring).
  assert (HEt : E t <= 0).
  { destruct (MVT_gen E 0 t dE) as [c [Hc Hcc]].
    - intros x Hx. rewrite Rmin_left, Rmax_right in Hx by lra. apply HdE. lra.
    - intros x Hx. rewrite Rmin_left, Rmax_right in Hx by lra.
      apply continuity_pt_filterlim, @ex_derive_continuous. eexists. apply HdE. lra.
    - rewrite Rmin_left, Rmax_right in Hc by lra.
      rewrite HE0, Rminus_0_r in Hcc. rewrite Hcc. unfold dE.
      assert (0 <= v c * v c) by nra.
      assert (0 <= xi * w * (v c * v c) * t).
      { apply Rmult_le_pos; [|lra]. apply Rmult_le_pos; [|lra]. apply Rmult_le_pos; lra. }
      lra. }
  unfold E in HEt.
  assert (Hvv : 0 <= v t * v t) by apply Rle_0_sqr.
  assert (Huu : 0 <= u t * u t) by apply Rle_0_sqr.
  assert (Hw2 : 0 < w ^ 2) by (apply pow_lt; exact Hw).
  assert (Hwu : 0 <= w ^ 2 * (u t * u t)) by (apply Rmult_le_pos; lra).
  assert (Hv2 : v t * v t = 0) by lra.
  assert (Hu2 : w ^ 2 * (u t * u t) = 0) by lra.
  split.
  - apply Rmult_integral in Hu2. destruct Hu2 as [Hu2|Hu2]; [lra|]. now apply Rsqr_0_uniq in Hu2.
  - now apply Rsqr_0_uniq in Hv2.
Qed.
Print Assumptions homog_zero.
