From Coq Require Import ZArith QArith Qround Reals Bool String List Lia Lra.
From EQ Require Import lib.Num lib.NpList model.M_signalops gen.Gen_c17 proofs.P_C17 proofs.P_gen_c17.
Import ListNotations.
Local Open Scope num_scope.
Section Butter.
Context {T : Type} `{NumOps T}.
Hypothesis mul_one : forall v : T, v * n1 = v.

Lemma new_len_Z n extra : (2 ^ (Z.log2_up (Z.of_nat n) + Z.of_nat extra))%Z = Z.of_nat (gibbs_new_len n extra).
Proof.
  unfold gibbs_new_len. rewrite Z2Nat.id; [reflexivity|]. apply Z.pow_nonneg. lia.
Qed.

Lemma gen_butter_pass_eq FF cont cut order rg extra grange (s : @signal T) :
  cut <> [None; None] -> (rg <> None -> (1 <= grange)%nat) ->
  gen_butter_pass (FF_of FF) (cls_of cont) cut (Some (Z.of_nat order)) rg (Some (Z.of_nat extra)) (Some (Z.of_nat grange)) (s_dt s) (s_vals s)
  = bp_value (butter_pass FF order cont cut (gibbs_of_rg rg) extra grange s).
Proof.
  intros Hcut Hgr. destruct s as [dt x]. cbn [s_dt s_vals].
  unfold gen_butter_pass, butter_pass, FF_of. cbv zeta. cbn [kw_get s_dt s_vals].
  rewrite !Nat2Z.id.
  replace (Z.of_nat (length cut) =? 2)%Z with (Nat.eqb (length cut) 2) by (symmetry; apply (Zeqb_of_nat _ 2)).
  change (btype_of_string "band") with Band. change (btype_of_string "low") with Low. change (btype_of_string "high") with High.
  rewrite !new_len_Z.
  pose proof (gibbs_new_len_ge (length x) extra) as Hge.
  set (NL := gibbs_new_len (length x) extra) in *.
  rewrite <- !Nat2Z.inj_sub by exact Hge. rewrite !py_int_half_nat.
  change 0%Z with (Z.of_nat 0). rewrite <- !Nat2Z.inj_add.
  assert (Hmid : ((NL - length x) / 2 + length x <= NL)%nat).
  { assert ((NL - length x) / 2 <= NL - length x)%nat by (apply Nat.div_le_upper_bound; lia). lia. }
  rewrite !(set_pad mul_one) by lia.
  rewrite !py_slice_to_nat.

  destruct rg as [rgs|].
  - rewrite !py_slice_last by (apply Hgr; discriminate).
    cbn [gibbs_of_rg].
    destruct cont; cbn [cls_of pyclass_eqb orb butter_args bp_value]; try reflexivity.
    all: destruct cut as [|e0 [|e1 [|e2 r]]]; cbn [length Nat.eqb negb nth_error opt_all butter_args bp_value]; try reflexivity.
    all: destruct e0 as [v0|]; try destruct e1 as [v1|]; cbn [opt_all butter_args bp_value]; try reflexivity; try (exfalso; apply Hcut; reflexivity).
    all: destruct (String.eqb rgs "start"); [|destruct (String.eqb rgs "end")]; cbn [gibbs_layout]; fold NL; rewrite !py_slice_nat; try reflexivity.
  - cbn [gibbs_of_rg].
    destruct cont; cbn [cls_of pyclass_eqb orb butter_args bp_value]; try reflexivity.
    all: destruct cut as [|e0 [|e1 [|e2 r]]]; cbn [length Nat.eqb negb nth_error opt_all butter_args bp_value]; try reflexivity.
    all: destruct e0 as [v0|]; try destruct e1 as [v1|]; cbn [opt_all butter_args bp_value]; try reflexivity; try (exfalso; apply Hcut; reflexivity).
    all: cbn [gibbs_layout]; rewrite !py_slice_nat; reflexivity.
Qed.

(** cut_off = (None, None): the source raises TypeError at `wp = cut_off / nyq` (None / float); the model's [butter_args]
    returns a placeholder there (outside the property's domain) *)
Lemma gen_butter_pass_none_none FF cont order rg extra grange (s : @signal T) :
  cont <> COther -> (rg <> None -> (1 <= grange)%nat) ->
  gen_butter_pass (FF_of FF) (cls_of cont) [None; None] (Some (Z.of_nat order)) rg (Some (Z.of_nat extra)) (Some (Z.of_nat grange)) (s_dt s) (s_vals s)
  = PyTypeError.
Proof.
  intros Hc Hgr. destruct s as [dt x]. cbn [s_dt s_vals].
  unfold gen_butter_pass. cbv zeta. cbn [kw_get length nth_error].
  rewrite !new_len_Z.
  pose proof (gibbs_new_len_ge (length x) extra) as Hge.
  set (NL := gibbs_new_len (length x) extra) in *.
  rewrite <- !Nat2Z.inj_sub by exact Hge. rewrite !py_int_half_nat.
  change 0%Z with (Z.of_nat 0). rewrite <- !Nat2Z.inj_add.
  assert (Hmid : ((NL - length x) / 2 + length x <= NL)%nat).
  { assert ((NL - length x) / 2 <= NL - length x)%nat by (apply Nat.div_le_upper_bound; lia). lia. }
  rewrite !(set_pad mul_one) by lia.
  destruct cont; try congruence; cbn [cls_of pyclass_eqb orb]; change (Z.of_nat 2 =? 2)%Z with true; cbn [negb].
  all: destruct rg as [rgs|]; [destruct (String.eqb rgs "start"); [|destruct (String.eqb rgs "end")]|]; reflexivity.
Qed.

(** absent keywords are the defaults filter_order=4, gibbs_extra=1, gibbs_range=50 *)
Lemma gen_butter_pass_defaults (FFz : Z -> string -> list T -> list T -> list T) cls cut rg dt (x : list T) :
  gen_butter_pass FFz cls cut None rg None None dt x
  = gen_butter_pass FFz cls cut (Some (Z.of_nat 4)) rg (Some (Z.of_nat 1)) (Some (Z.of_nat 50)) dt x.
Proof. reflexivity. Qed.
End Butter.
