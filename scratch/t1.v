From Coq Require Import ZArith QArith Bool String List.
From EQ Require Import lib.Num lib.NpList model.M_signalops gen.Gen_c17.
Import ListNotations.
Definition FFq (o : Z) (s : string) (wn x : list Q) : list Q := map (fun v => Qred (v * (inject_Z o) + hd 0 wn)) x.
Definition FFm (o : nat) (b : btype) (wn x : list Q) : list Q := map (fun v => Qred (v * (inject_Z (Z.of_nat o)) + hd 0 wn)) x.
Definition xs : list Q := [1; 2; 4; 8; 16].
Eval vm_compute in gen_butter_pass FFq PTuple [Some (1#2); Some 3] (Some 3%Z) (Some "mid"%string) (Some 1%Z) (Some 2%Z) (1#4) xs.
Eval vm_compute in butter_pass FFm 3 CTuple [Some (1#2); Some 3] GMid 1 2 {| s_dt := 1#4; s_vals := xs |}.
Eval vm_compute in butter_pass_scipy_args 3 CTuple [Some (1#2); Some 3] GMid 1 2 {| s_dt := 1#4; s_vals := xs |}.
Eval vm_compute in gen_butter_pass (fun _ _ _ x => x) PTuple [None; Some 3] None (Some "end"%string) None None (1#4) xs.
Eval vm_compute in gen_butter_pass (fun _ _ _ x => x) PList [None; None] None None None None (1#4) xs.
Eval vm_compute in gen_butter_pass (fun _ _ _ x => x) PList [None] None None None None (1#4) xs.
Eval vm_compute in gen_butter_pass (fun _ _ _ x => x) POther [None] None None None None (1#4) xs.
Eval vm_compute in gen_running_average 3%Z xs.
Eval vm_compute in running_average 3 xs.
Eval vm_compute in gen_running_average 4%Z xs.
Eval vm_compute in running_average 4 xs.
Eval vm_compute in gen_add_signal (Some (1#4, [1;1;1;1;1])) (1#4) xs.
Eval vm_compute in gen_add_signal (Some (1#4, [1;1;1;1])) (1#4) xs.
Eval vm_compute in gen_add_signal (Some (1#3, [1;1;1;1;1])) (1#4) xs.
Eval vm_compute in gen_add_series [1] xs.
