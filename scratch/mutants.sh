#!/bin/bash
# usage: mutants.sh name 'sed-expr'...
cd /tmp/wt_tc17 && git checkout -q -- . 
name=$1; shift
for e in "$@"; do sed -i "$e" eqsig/single.py; done
echo "=== mutant $name"; git diff -U0 | grep '^[-+][^-+]' 
cd /tmp/vd_tc17 && cp coq/gen/Gen_c17.v scratch/Gen_before.v
VERIF_NPROC=5 VERIF_SEED=1 EQSIG_REPO=/tmp/wt_tc17 timeout 3000 /venv/bin/python harness/check.py C17 --tier quick > scratch/mut_$name.log 2>&1
echo "exit=$?"
grep -E "^(VIOLATION|OK|FAIL|UNCHECKED)" scratch/mut_$name.log | cut -c1-200 | head -6
cmp -s coq/gen/Gen_c17.v scratch/Gen_before.v && echo "generated text: IDENTICAL" || echo "generated text: CHANGED"
python3 - <<'PY'
import json
d=json.load(open('/tmp/vd_tc17/evidence/C17.json'))
for u in [n for n in (d.get('notes') or []) + (d.get('unchecked') or []) if isinstance(n, dict)]:
    print('unchecked:', u.get('unchecked'), '|', ' '.join(str(u.get('detail','')).split())[:260])
PY
cd /tmp/wt_tc17 && git checkout -q -- .
